#!/bin/sh
# usage: check.sh <property> [quick|thorough]
# Rebuilds nothing from /repo ahead of time: gripcheck type-checks /repo's
# current working tree on every run.  Builds the checker binary if missing.
set -u
cd "$(dirname "$0")"
export GOFLAGS=-mod=mod GOPROXY=off GOSUMDB=off GOTOOLCHAIN=local
unset GOWORK
if [ ! -x bin/gripcheck ] || [ -n "$(find checker -newer bin/gripcheck -name '*.go' 2>/dev/null | head -1)" ]; then
  (cd checker && go build -o ../bin/gripcheck ./cmd/gripcheck) || { echo "BROKEN: checker does not build"; exit 2; }
fi
exec bin/gripcheck -property "$1" -tier "${2:-${VERIF_TIER:-quick}}" -repo "${VERIF_REPO:-/repo}"
