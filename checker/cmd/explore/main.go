package main

import (
	"fmt"
	"go/types"
	"os"
	"sort"
	"strings"

	"gripverif/core"

	"golang.org/x/tools/go/callgraph"
	"golang.org/x/tools/go/ssa"
)

func main() {
	p, err := core.Load("/repo", nil)
	if err != nil {
		fmt.Println(err)
		os.Exit(2)
	}
	p.BuildSSA()
	cg := p.CallGraph()
	// roots: methods of server.GripServer
	roots := []*ssa.Function{}
	gs := p.Named("server", "GripServer")
	ms := p.SSA.MethodSets.MethodSet(types.NewPointer(gs))
	for i := 0; i < ms.Len(); i++ {
		if f := p.SSA.MethodValue(ms.At(i)); f != nil && f.Object() != nil && f.Object().Exported() {
			roots = append(roots, f)
		}
	}
	reach := map[*ssa.Function]bool{}
	var work []*ssa.Function
	for _, r := range roots {
		reach[r] = true
		work = append(work, r)
	}
	for len(work) > 0 {
		f := work[0]
		work = work[1:]
		n := cg.Nodes[f]
		if n == nil {
			continue
		}
		for _, e := range n.Out {
			c := e.Callee.Func
			if !reach[c] {
				reach[c] = true
				work = append(work, c)
			}
		}
		for _, a := range f.AnonFuncs {
			if !reach[a] {
				reach[a] = true
				work = append(work, a)
			}
		}
	}
	_ = callgraph.CalleesOf
	inRepo := func(f *ssa.Function) bool {
		for f.Parent() != nil {
			f = f.Parent()
		}
		return f.Pkg != nil && strings.HasPrefix(f.Pkg.Pkg.Path(), core.ModPath)
	}
	var fns []*ssa.Function
	for f := range reach {
		if inRepo(f) && f.Blocks != nil {
			fns = append(fns, f)
		}
	}
	sort.Slice(fns, func(i, j int) bool { return core.SSAKey(fns[i]) < core.SSAKey(fns[j]) })
	fmt.Println("reachable repo functions:", len(fns))
	mode := os.Args[1]
	for _, f := range fns {
		for _, b := range f.Blocks {
			for _, in := range b.Instrs {
				switch x := in.(type) {
				case *ssa.TypeAssert:
					if mode == "assert" && !x.CommaOk {
						if it, ok := x.X.Type().Underlying().(*types.Interface); ok && it.Empty() {
							fmt.Printf("%s\t%s\t.(%s)\tfrom %T %s\n", p.Pos(x.Pos()), core.SSAKey(f), x.AssertedType, x.X, x.X)
						}
					}
				case *ssa.Panic:
					if mode == "panic" {
						fmt.Printf("%s\t%s\tpanic\n", p.Pos(x.Pos()), core.SSAKey(f))
					}
				case *ssa.Call:
					if mode == "panic" {
						if sc := x.Common().StaticCallee(); sc != nil && sc.Pkg != nil {
							n := sc.Pkg.Pkg.Path() + "." + sc.Name()
							if n == "os.Exit" || strings.HasPrefix(n, "log.Fatal") || strings.Contains(n, "grip/log.Fatal") || n == "log.Panic" {
								fmt.Printf("%s\t%s\t%s\n", p.Pos(x.Pos()), core.SSAKey(f), n)
							}
						}
					}
				case *ssa.IndexAddr:
					if mode == "index" {
						if c, ok := x.Index.(*ssa.Const); ok {
							if _, isSl := x.X.Type().Underlying().(*types.Slice); isSl {
								fmt.Printf("%s\t%s\t[%s]\tof %T %s\n", p.Pos(x.Pos()), core.SSAKey(f), c.Value, x.X, x.X)
							}
						}
					}
				}
			}
		}
	}
}
