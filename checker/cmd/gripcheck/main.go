// gripcheck decides one property of bmeg/grip by static analysis of the
// current working tree of the repository.
package main

import (
	"flag"
	"fmt"
	"os"
	"path/filepath"
	"runtime/debug"
	"sort"
	"strconv"
	"time"

	"gripverif/core"
	"gripverif/props"
)

func main() {
	prop := flag.String("property", "", "property id (C01..C20)")
	tier := flag.String("tier", "", "quick|thorough (default $VERIF_TIER or quick)")
	repo := flag.String("repo", "/repo", "repository to analyse")
	verif := flag.String("verif", "", "verif dir (default: parent of the binary's dir)")
	list := flag.Bool("list", false, "list properties with a driver")
	flag.Parse()
	if *list {
		var ids []string
		for id := range props.Registry {
			ids = append(ids, id)
		}
		sort.Strings(ids)
		for _, id := range ids {
			fmt.Println(id)
		}
		return
	}
	if *tier == "" {
		*tier = os.Getenv("VERIF_TIER")
	}
	if *tier != "thorough" {
		*tier = "quick"
	}
	if *verif == "" {
		exe, _ := os.Executable()
		*verif = filepath.Dir(filepath.Dir(exe))
	}
	seed, _ := strconv.ParseInt(os.Getenv("VERIF_SEED"), 10, 64)
	drv := props.Registry[*prop]
	if drv == nil {
		fmt.Printf("BROKEN: no driver for property %q\n", *prop)
		os.Exit(2)
	}
	start := time.Now()
	res := core.NewResult(*prop, *tier)
	known, err := core.LoadKnown(filepath.Join(*verif, "known_findings.json"))
	if err != nil {
		fmt.Printf("BROKEN: known_findings.json: %v\n", err)
		os.Exit(2)
	}
	type loaded struct {
		p   *core.Prog
		err error
	}
	stc := make(chan loaded, 1)
	go func() {
		if props.SelfTests[*prop] == nil {
			stc <- loaded{}
			return
		}
		p, err := core.LoadSelfTest(*repo, props.SelfTestFiles())
		stc <- loaded{p, err}
	}()
	prog, err := core.Load(*repo, nil)
	if err != nil {
		res.Fail("cannot analyse %s: %v", *repo, err)
	} else {
		func() {
			defer func() {
				if r := recover(); r != nil {
					res.Fail("analyser panic: %v\n%s", r, debug.Stack())
				}
			}()
			drv(prog, res)
			if st := <-stc; st.err != nil {
				res.Fail("self-test packages do not load: %v", st.err)
			} else if st.p != nil {
				res.Rule("SELF", "the property's rules applied to tiny positive and negative examples give the expected verdicts", 1)
				props.SelfTests[*prop](st.p, res)
			}
		}()
	}
	os.Exit(res.Finish(*verif, known, seed, time.Since(start).Seconds()))
}
