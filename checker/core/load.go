// Package core holds the loader, the obligation/evidence model and the small
// program-representation helpers shared by every rule.
package core

import (
	"fmt"
	"go/ast"
	"go/token"
	"go/types"
	"os"
	"path/filepath"
	"sort"
	"strings"

	"golang.org/x/tools/go/callgraph"
	"golang.org/x/tools/go/callgraph/cha"
	"golang.org/x/tools/go/callgraph/vta"
	"golang.org/x/tools/go/packages"
	"golang.org/x/tools/go/ssa"
	"golang.org/x/tools/go/ssa/ssautil"
)

// ModPath is the module analysed.
const ModPath = "github.com/bmeg/grip"

// Prog is the type-checked program of /repo plus lazily built SSA and call graph.
type Prog struct {
	Dir    string
	Fset   *token.FileSet
	Pkgs   []*packages.Package // root packages, sorted by path
	ByPath map[string]*packages.Package

	SSA     *ssa.Program
	SSAPkgs map[string]*ssa.Package

	cg       *callgraph.Graph
	declOf   map[*types.Func]*FuncInfo
	allFuncs map[*ssa.Function]bool
}

// FuncInfo ties together the three views of one source function.
type FuncInfo struct {
	Obj  *types.Func
	Decl *ast.FuncDecl
	Pkg  *packages.Package
	File *ast.File
}

// LoadError is returned when the program cannot be analysed at all (exit 2).
type LoadError struct{ Msg string }

func (e *LoadError) Error() string { return e.Msg }

// Load type-checks every package of dir (./...) with the repository's own
// build configuration.  overlay maps absolute file names to replacement
// contents (used for self-test packages and seeded variants).
func Load(dir string, overlay map[string][]byte) (*Prog, error) {
	return load(dir, overlay, 70)
}

// LoadSelfTest type-checks the self-test packages (files: path relative to the
// module root -> Go source) in a throw-away module that replaces
// github.com/bmeg/grip by repoDir, so that the tiny positive/negative examples
// use the repository's real types.  The grip packages are dependencies of this
// load (read from export data compiled from repoDir's current sources).
func LoadSelfTest(repoDir string, files map[string]string) (*Prog, error) {
	tmp, err := os.MkdirTemp("", "gripselftest")
	if err != nil {
		return nil, &LoadError{err.Error()}
	}
	defer os.RemoveAll(tmp)
	gomod := "module " + SelfMod + "\n\ngo 1.18\n\nrequire " + ModPath + " v0.0.0\n\nreplace " + ModPath + " => " + repoDir + "\n"
	if b, err := os.ReadFile(filepath.Join(repoDir, "go.mod")); err == nil {
		// carry the repository's own replace directives and requirements
		inReq, inRep := false, false
		for _, ln := range strings.Split(string(b), "\n") {
			t := strings.TrimSpace(ln)
			switch {
			case strings.HasPrefix(t, "require ("):
				inReq = true
				gomod += "require (\n"
			case strings.HasPrefix(t, "replace ("):
				inRep = true
				gomod += "replace (\n"
			case t == ")" && (inReq || inRep):
				inReq, inRep = false, false
				gomod += ")\n"
			case inReq || inRep:
				gomod += ln + "\n"
			case strings.HasPrefix(t, "require ") || strings.HasPrefix(t, "replace "):
				gomod += ln + "\n"
			}
		}
	}
	if err := os.WriteFile(filepath.Join(tmp, "go.mod"), []byte(gomod), 0o644); err != nil {
		return nil, &LoadError{err.Error()}
	}
	if b, err := os.ReadFile(filepath.Join(repoDir, "go.sum")); err == nil {
		os.WriteFile(filepath.Join(tmp, "go.sum"), b, 0o644)
	}
	for name, src := range files {
		fn := filepath.Join(tmp, name)
		os.MkdirAll(filepath.Dir(fn), 0o755)
		if err := os.WriteFile(fn, []byte(src), 0o644); err != nil {
			return nil, &LoadError{err.Error()}
		}
	}
	return load(tmp, nil, 1)
}

// SelfMod is the module path of the self-test packages.
const SelfMod = "gripselftest"

func load(dir string, overlay map[string][]byte, minPkgs int) (*Prog, error) {
	env := []string{}
	for _, kv := range os.Environ() {
		if strings.HasPrefix(kv, "GOWORK=") || strings.HasPrefix(kv, "GOFLAGS=") ||
			strings.HasPrefix(kv, "GOPROXY=") || strings.HasPrefix(kv, "GOSUMDB=") ||
			strings.HasPrefix(kv, "GOTOOLCHAIN=") {
			continue
		}
		env = append(env, kv)
	}
	env = append(env, "GOWORK=off", "GOFLAGS=-mod=mod", "GOPROXY=off", "GOSUMDB=off", "GOTOOLCHAIN=local")
	cfg := &packages.Config{
		Mode:    packages.LoadSyntax | packages.NeedModule,
		Dir:     dir,
		Env:     env,
		Fset:    token.NewFileSet(),
		Overlay: overlay,
		Tests:   false,
	}
	pkgs, err := packages.Load(cfg, "./...")
	if err != nil {
		return nil, &LoadError{"packages.Load: " + err.Error()}
	}
	var errs []string
	packages.Visit(pkgs, nil, func(p *packages.Package) {
		for _, e := range p.Errors {
			errs = append(errs, p.PkgPath+": "+e.Error())
		}
	})
	if len(errs) > 0 {
		sort.Strings(errs)
		if len(errs) > 10 {
			errs = errs[:10]
		}
		return nil, &LoadError{"load/type errors:\n  " + strings.Join(errs, "\n  ")}
	}
	if len(pkgs) < minPkgs {
		return nil, &LoadError{fmt.Sprintf("only %d packages loaded from %s (expected >= %d)", len(pkgs), dir, minPkgs)}
	}
	sort.Slice(pkgs, func(i, j int) bool { return pkgs[i].PkgPath < pkgs[j].PkgPath })
	p := &Prog{Dir: dir, Fset: cfg.Fset, Pkgs: pkgs, ByPath: map[string]*packages.Package{}, declOf: map[*types.Func]*FuncInfo{}}
	packages.Visit(pkgs, nil, func(pk *packages.Package) {
		if _, ok := p.ByPath[pk.PkgPath]; !ok {
			p.ByPath[pk.PkgPath] = pk
		}
	})
	for _, pk := range pkgs {
		p.ByPath[pk.PkgPath] = pk
		for _, f := range pk.Syntax {
			for _, d := range f.Decls {
				if fd, ok := d.(*ast.FuncDecl); ok {
					if obj, ok := pk.TypesInfo.Defs[fd.Name].(*types.Func); ok {
						p.declOf[obj] = &FuncInfo{Obj: obj, Decl: fd, Pkg: pk, File: f}
					}
				}
			}
		}
	}
	return p, nil
}

// BuildSSA builds SSA for the root packages (dependencies stay as externals).
func (p *Prog) BuildSSA() {
	if p.SSA != nil {
		return
	}
	prog, spkgs := ssautil.Packages(p.Pkgs, ssa.InstantiateGenerics)
	prog.Build()
	p.SSA = prog
	p.SSAPkgs = map[string]*ssa.Package{}
	for i, sp := range spkgs {
		if sp != nil {
			p.SSAPkgs[p.Pkgs[i].PkgPath] = sp
		}
	}
	p.allFuncs = ssautil.AllFunctions(prog)
}

// AllFuncs returns every SSA function (including closures and wrappers).
func (p *Prog) AllFuncs() map[*ssa.Function]bool { p.BuildSSA(); return p.allFuncs }

// CallGraph returns the VTA call graph seeded by CHA.
func (p *Prog) CallGraph() *callgraph.Graph {
	if p.cg == nil {
		p.BuildSSA()
		p.cg = vta.CallGraph(p.allFuncs, cha.CallGraph(p.SSA))
	}
	return p.cg
}

// Pkg returns the root package with the given path relative to the module
// ("" is the module root package).
func (p *Prog) Pkg(rel string) *packages.Package {
	path := ModPath
	if rel == SelfMod || strings.HasPrefix(rel, SelfMod+"/") {
		path = rel
	} else if rel != "" {
		path += "/" + rel
	}
	pk := p.ByPath[path]
	if pk != nil && pk.Types == nil {
		return nil
	}
	return pk
}

// Info returns the FuncInfo of a declared function object.
func (p *Prog) Info(obj *types.Func) *FuncInfo {
	if obj == nil {
		return nil
	}
	if fi := p.declOf[obj]; fi != nil {
		return fi
	}
	return p.declOf[obj.Origin()]
}

// AllDecls returns every declared function of the root packages, in a stable order.
func (p *Prog) AllDecls() []*FuncInfo {
	var out []*FuncInfo
	for _, fi := range p.declOf {
		out = append(out, fi)
	}
	sort.Slice(out, func(i, j int) bool { return FuncKey(out[i].Obj) < FuncKey(out[j].Obj) })
	return out
}

// Func looks up "Name", "T.Name" or "(*T).Name" (receiver pointer-ness is
// ignored) in the package rel.  It returns nil when absent.
func (p *Prog) Func(rel, name string) *FuncInfo {
	pk := p.Pkg(rel)
	if pk == nil {
		return nil
	}
	name = strings.NewReplacer("(", "", ")", "", "*", "").Replace(name)
	if i := strings.Index(name, "."); i >= 0 {
		tn, mn := name[:i], name[i+1:]
		obj, _ := pk.Types.Scope().Lookup(tn).(*types.TypeName)
		if obj == nil {
			return nil
		}
		named, _ := obj.Type().(*types.Named)
		if named == nil {
			return nil
		}
		for i := 0; i < named.NumMethods(); i++ {
			if m := named.Method(i); m.Name() == mn {
				return p.Info(m)
			}
		}
		return nil
	}
	fn, _ := pk.Types.Scope().Lookup(name).(*types.Func)
	return p.Info(fn)
}

// SSAFunc returns the SSA function of a declared function.
func (p *Prog) SSAFunc(obj *types.Func) *ssa.Function {
	p.BuildSSA()
	return p.SSA.FuncValue(obj)
}

// Named looks up a named type in package rel.
func (p *Prog) Named(rel, name string) *types.Named {
	pk := p.Pkg(rel)
	if pk == nil {
		return nil
	}
	obj, _ := pk.Types.Scope().Lookup(name).(*types.TypeName)
	if obj == nil {
		return nil
	}
	n, _ := obj.Type().(*types.Named)
	return n
}

// Iface looks up a named interface type.
func (p *Prog) Iface(rel, name string) *types.Interface {
	n := p.Named(rel, name)
	if n == nil {
		return nil
	}
	i, _ := n.Underlying().(*types.Interface)
	return i
}

// Implementers lists the named (non-interface) types of the root packages
// whose value or pointer method set satisfies iface, sorted by name.
func (p *Prog) Implementers(iface *types.Interface) []*types.Named {
	var out []*types.Named
	for _, pk := range p.Pkgs {
		sc := pk.Types.Scope()
		for _, n := range sc.Names() {
			tn, ok := sc.Lookup(n).(*types.TypeName)
			if !ok || tn.IsAlias() {
				continue
			}
			named, ok := tn.Type().(*types.Named)
			if !ok || types.IsInterface(named) || named.TypeParams().Len() > 0 {
				continue
			}
			if types.Implements(named, iface) || types.Implements(types.NewPointer(named), iface) {
				out = append(out, named)
			}
		}
	}
	sort.Slice(out, func(i, j int) bool { return TypeKey(out[i]) < TypeKey(out[j]) })
	return out
}

// Method returns the declared method name of named (value or pointer receiver).
func (p *Prog) Method(named *types.Named, name string) *FuncInfo {
	for i := 0; i < named.NumMethods(); i++ {
		if m := named.Method(i); m.Name() == name {
			return p.Info(m)
		}
	}
	return nil
}

// Pos renders a position relative to the analysed directory.
func (p *Prog) Pos(pos token.Pos) string {
	if !pos.IsValid() {
		return "-"
	}
	ps := p.Fset.Position(pos)
	rel, err := filepath.Rel(p.Dir, ps.Filename)
	if err != nil {
		rel = ps.Filename
	}
	return fmt.Sprintf("%s:%d", rel, ps.Line)
}

// RelPkg strips the module prefix from a package path.
func RelPkg(path string) string {
	if path == ModPath {
		return "."
	}
	return strings.TrimPrefix(path, ModPath+"/")
}

// TypeKey is the stable name of a named type: "pkg.T".
func TypeKey(n *types.Named) string {
	if n.Obj().Pkg() == nil {
		return n.Obj().Name()
	}
	return RelPkg(n.Obj().Pkg().Path()) + "." + n.Obj().Name()
}

// FuncKey is the stable name of a function: "pkg.F" or "pkg.T.M".
func FuncKey(f *types.Func) string {
	if f == nil {
		return "<nil>"
	}
	pkg := ""
	if f.Pkg() != nil {
		pkg = RelPkg(f.Pkg().Path()) + "."
	}
	sig, _ := f.Type().(*types.Signature)
	if sig != nil && sig.Recv() != nil {
		t := sig.Recv().Type()
		if pt, ok := t.(*types.Pointer); ok {
			t = pt.Elem()
		}
		if n, ok := t.(*types.Named); ok {
			return pkg + n.Obj().Name() + "." + f.Name()
		}
	}
	return pkg + f.Name()
}

// SSAKey is the stable name of an SSA function, closures as parent#n.
func SSAKey(f *ssa.Function) string {
	if f == nil {
		return "<nil>"
	}
	if f.Parent() != nil {
		idx := 0
		for i, a := range f.Parent().AnonFuncs {
			if a == f {
				idx = i + 1
			}
		}
		return fmt.Sprintf("%s#%d", SSAKey(f.Parent()), idx)
	}
	if obj, ok := f.Object().(*types.Func); ok && obj != nil {
		return FuncKey(obj)
	}
	return f.String()
}

// InRepo reports whether obj is declared in the analysed module.
func InRepo(obj types.Object) bool {
	return obj != nil && obj.Pkg() != nil && (obj.Pkg().Path() == ModPath || strings.HasPrefix(obj.Pkg().Path(), ModPath+"/"))
}
