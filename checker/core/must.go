package core

import (
	"go/ast"
	"go/token"
	"go/types"
	"sort"
	"strings"

	"golang.org/x/tools/go/cfg"
)

// Must is an interprocedural must-analysis built on Flow.  It tracks a set of
// independent boolean facts (e.g. "clean": no store write since the last
// Touch).  Calls are classified by Event (direct gens and kills); function
// literals handed to a synchronous invoker, repository callees and function
// values passed to repository callees are summarised as per-fact boolean
// transformers (out-if-held, out-if-not-held), computed by analysing the callee
// with all facts held and with none.
type Must struct {
	P *Prog
	// Facts are the tracked fact names.
	Facts []string
	// Event classifies a call: events to generate (or kill with a "-" prefix).
	// checked: gens count only when the call's error result is tested nil.
	// held gives the facts currently held (facts may depend on one another).
	Event func(info *types.Info, call *ast.CallExpr, held map[string]bool) (ev []string, checked bool)
	// SyncInvoker reports callees that run their function-literal argument
	// synchronously and return its error.
	SyncInvoker func(fn *types.Func) bool
	MaxDepth    int

	memo map[memoKey]map[string]bool
	busy map[memoKey]bool
}

type memoKey struct {
	node ast.Node
	held string // the facts held at entry, sorted and joined
}

// Exit describes one function exit.
type Exit struct {
	Ret    *ast.ReturnStmt
	Pos    token.Pos
	Held   map[string]bool
	NilErr Tri // may the error result be nil at this exit
	Trace  []string
}

// transform maps the facts held at the entry of body to the facts held at
// every possibly-nil exit (one analysis per distinct entry set, memoised).
func (m *Must) transform(info *types.Info, body *ast.BlockStmt, sig *types.Signature, depth int, in map[string]bool) map[string]bool {
	if m.memo == nil {
		m.memo = map[memoKey]map[string]bool{}
		m.busy = map[memoKey]bool{}
	}
	var init []string
	for _, f := range m.Facts {
		if in[f] {
			init = append(init, f)
		}
	}
	sort.Strings(init)
	k := memoKey{body, strings.Join(init, ",")}
	if sum, ok := m.memo[k]; ok {
		return cloneFacts(sum)
	}
	if m.busy[k] {
		return cloneFacts(in) // recursion: assume the identity
	}
	m.busy[k] = true
	sum := m.heldAtNilExits(m.analyse(info, body, sig, depth, init))
	m.busy[k] = false
	m.memo[k] = sum
	return cloneFacts(sum)
}

func cloneFacts(mm map[string]bool) map[string]bool {
	c := map[string]bool{}
	for k, v := range mm {
		if v {
			c[k] = true
		}
	}
	return c
}

func (m *Must) asEvents(before, after map[string]bool) []string {
	var ev []string
	for _, f := range m.Facts {
		if after[f] && !before[f] {
			ev = append(ev, f)
		} else if !after[f] && before[f] {
			ev = append(ev, "-"+f)
		}
	}
	sort.Strings(ev)
	return ev
}

// Analyse returns every exit of body with the facts held there, starting from init.
func (m *Must) Analyse(info *types.Info, body *ast.BlockStmt, sig *types.Signature, init []string) []Exit {
	return m.analyse(info, body, sig, 0, init)
}

func (m *Must) analyse(info *types.Info, body *ast.BlockStmt, sig *types.Signature, depth int, init []string) []Exit {
	fl := &Flow{Prog: m.P, Info: info, Body: body, Init: init}
	cur := func(st *State) map[string]bool {
		c := map[string]bool{}
		for _, f := range m.Facts {
			c[f] = st.Held[f]
		}
		return c
	}
	// funcValue resolves an argument that is a function literal or a method
	// value / function name of the repository.
	funcValue := func(a ast.Expr) (*types.Info, *ast.BlockStmt, *types.Signature) {
		switch x := ast.Unparen(a).(type) {
		case *ast.FuncLit:
			s, _ := info.TypeOf(x).(*types.Signature)
			return info, x.Body, s
		case *ast.SelectorExpr, *ast.Ident:
			var obj types.Object
			if sel, ok := x.(*ast.SelectorExpr); ok {
				if s := info.Selections[sel]; s != nil && s.Kind() == types.MethodVal {
					obj = s.Obj()
				} else {
					obj = info.Uses[sel.Sel]
				}
			} else {
				obj = info.Uses[x.(*ast.Ident)]
			}
			if fn, ok := obj.(*types.Func); ok {
				if fi := m.P.Info(fn); fi != nil && fi.Decl.Body != nil {
					return fi.Pkg.TypesInfo, fi.Decl.Body, fn.Type().(*types.Signature)
				}
			}
		}
		return nil, nil, nil
	}
	// callEffect returns the events of one call given the current facts.
	callEffect := func(call *ast.CallExpr, st *State) (ev []string, checked bool) {
		before := cur(st)
		if e, chk := m.Event(info, call, before); len(e) > 0 {
			return e, chk
		}
		fn := CalleeFunc(info, call)
		if fn == nil {
			return nil, false
		}
		clone := cloneFacts
		if m.SyncInvoker != nil && m.SyncInvoker(fn) {
			after := clone(before)
			for _, a := range call.Args {
				if ainfo, abody, asig := funcValue(a); abody != nil {
					after = m.transform(ainfo, abody, asig, depth, after)
				}
			}
			return m.asEvents(before, after), true
		}
		if depth < m.MaxDepth {
			if fi := m.P.Info(fn); fi != nil && fi.Decl.Body != nil {
				after := clone(before)
				// function values handed to a repository callee may be invoked any
				// number of times: meet of the identity and their transformers
				var fargs []ast.Expr
				for _, a := range call.Args {
					if _, abody, _ := funcValue(a); abody != nil {
						fargs = append(fargs, a)
					}
				}
				for iter := 0; iter < 4 && len(fargs) > 0; iter++ {
					changed := false
					for _, a := range fargs {
						ainfo, abody, asig := funcValue(a)
						t := m.transform(ainfo, abody, asig, depth+1, after)
						for _, f := range m.Facts {
							if after[f] && !t[f] {
								delete(after, f)
								changed = true
							}
						}
					}
					if !changed {
						break
					}
				}
				fsig := fn.Type().(*types.Signature)
				after = m.transform(fi.Pkg.TypesInfo, fi.Decl.Body, fsig, depth+1, after)
				chk := fsig.Results().Len() > 0 && isErrorType(fsig.Results().At(fsig.Results().Len()-1).Type())
				return m.asEvents(before, after), chk
			}
		}
		return nil, false
	}
	fl.Events = func(n ast.Node, st *State) ([]string, bool) {
		var all []string
		checked := false
		if d, ok := n.(*ast.DeferStmt); ok {
			// a deferred call runs before the function returns: its gens hold at every later exit
			if e, _ := m.Event(info, d.Call, cur(st)); len(e) > 0 {
				return onlyGens(e), false
			}
			if lit, ok := d.Call.Fun.(*ast.FuncLit); ok {
				for _, c := range CallsIn(lit.Body) {
					if e, _ := m.Event(info, c, cur(st)); len(e) > 0 {
						all = append(all, onlyGens(e)...)
					}
				}
				return all, false
			}
			return nil, false
		}
		if _, ok := n.(*ast.GoStmt); ok {
			return nil, false // asynchronous: not credited
		}
		if _, isRet := n.(*ast.ReturnStmt); isRet {
			return nil, false // handled at the exit
		}
		for _, call := range CallsIn(n) {
			ev, chk := callEffect(call, st)
			if len(ev) > 0 {
				all = append(all, ev...)
				checked = chk
			}
		}
		return all, checked
	}
	fl.Run()
	var exits []Exit
	fl.ExitStates(func(ret *ast.ReturnStmt, st *State, b *cfg.Block) {
		ex := Exit{Ret: ret, Held: map[string]bool{}, Trace: fl.TraceTo(b)}
		for e := range st.Held {
			ex.Held[e] = true
		}
		if sig != nil {
			ex.NilErr = fl.ErrResultNil(ret, st, sig)
		} else {
			ex.NilErr = Maybe
		}
		if ret != nil {
			ex.Pos = ret.Pos()
			// `return err` where err still carries pending gens: if err is nil at
			// run time they happened, otherwise this is an error exit
			if n := len(ret.Results); n > 0 {
				if o := fl.objOf(ret.Results[n-1]); o != nil {
					for e := range st.Pend[o] {
						ex.Held[e] = true
					}
				}
			}
			// calls inside the return expression (`return f(...)`)
			for _, call := range CallsIn(ret) {
				ev, _ := callEffect(call, st)
				for _, e := range ev {
					if strings.HasPrefix(e, "-") {
						delete(ex.Held, e[1:])
					} else {
						ex.Held[e] = true
					}
				}
			}
		} else {
			ex.Pos = body.End()
		}
		exits = append(exits, ex)
	})
	return exits
}

func onlyGens(ev []string) []string {
	var out []string
	for _, e := range ev {
		if !strings.HasPrefix(e, "-") {
			out = append(out, e)
		}
	}
	return out
}

func (m *Must) heldAtNilExits(exits []Exit) map[string]bool {
	held := map[string]bool{}
	first := true
	for _, ex := range exits {
		if ex.NilErr == No {
			continue
		}
		if first {
			first = false
			for e := range ex.Held {
				held[e] = true
			}
			continue
		}
		for e := range held {
			if !ex.Held[e] {
				delete(held, e)
			}
		}
	}
	if first {
		// no possibly-nil exit: the callee always fails; callers' nil paths never pass here
		for _, f := range m.Facts {
			held[f] = true
		}
	}
	return held
}

// RecvNamed returns the named receiver type of fn (pointer stripped), or nil.
func RecvNamed(fn *types.Func) *types.Named {
	sig, _ := fn.Type().(*types.Signature)
	if sig == nil || sig.Recv() == nil {
		return nil
	}
	t := sig.Recv().Type()
	if pt, ok := t.(*types.Pointer); ok {
		t = pt.Elem()
	}
	n, _ := t.(*types.Named)
	return n
}

// IsMethodOf reports whether fn is method name of a type declared in package
// path pkg (full import path) with type name tname; for interface methods the
// interface's name is compared.
func IsMethodOf(fn *types.Func, pkg, tname, name string) bool {
	if fn == nil || fn.Name() != name {
		return false
	}
	n := RecvNamed(fn)
	return n != nil && n.Obj().Name() == tname && n.Obj().Pkg() != nil && n.Obj().Pkg().Path() == pkg
}
