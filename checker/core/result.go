package core

import (
	"encoding/json"
	"fmt"
	"os"
	"path/filepath"
	"sort"
	"strings"
	"unicode/utf8"
)

// Status of one obligation.
type Status string

const (
	Discharged Status = "discharged"
	Violated   Status = "violated"
	Unresolved Status = "unresolved"
)

// Obligation is one instance of a rule on one construct.  Key identifies the
// construct (rule|function|detail), never a line number.
type Obligation struct {
	Rule   string   `json:"rule"`
	Key    string   `json:"key"`
	Pos    string   `json:"pos"`
	Status Status   `json:"status"`
	Note   string   `json:"note,omitempty"`
	Path   []string `json:"path,omitempty"`
	// Trivial marks obligations discharged by a purely syntactic shortcut; they
	// are not counted in distinct_nontrivial.
	Trivial bool `json:"trivial,omitempty"`
}

// Result accumulates what one property check covered.
type Result struct {
	Property    string
	Tier        string
	Explanation string
	Rules       map[string]string // rule id -> one-line statement of the rule
	Obls        []Obligation
	Floors      map[string]int // rule id -> minimum number of obligations
	Functions   map[string]bool
	CallSites   int
	Assumptions []string
	NotDecided  []string
	Extra       map[string]interface{}
	Broken      []string // reasons the check itself is broken (exit 2)
}

func NewResult(prop, tier string) *Result {
	return &Result{Property: prop, Tier: tier, Rules: map[string]string{}, Floors: map[string]int{},
		Functions: map[string]bool{}, Extra: map[string]interface{}{}}
}

// Rule registers a rule statement and instance floor.
func (r *Result) Rule(id, text string, floor int) {
	r.Rules[id] = text
	r.Floors[id] = floor
}

func (r *Result) add(o Obligation) { r.Obls = append(r.Obls, o) }

func (r *Result) OK(rule, key, pos, note string) {
	r.add(Obligation{Rule: rule, Key: rule + "|" + key, Pos: pos, Status: Discharged, Note: note})
}
func (r *Result) OKTrivial(rule, key, pos, note string) {
	r.add(Obligation{Rule: rule, Key: rule + "|" + key, Pos: pos, Status: Discharged, Note: note, Trivial: true})
}
func (r *Result) Bad(rule, key, pos, note string, path ...string) {
	r.add(Obligation{Rule: rule, Key: rule + "|" + key, Pos: pos, Status: Violated, Note: note, Path: path})
}
func (r *Result) Unres(rule, key, pos, note string) {
	r.add(Obligation{Rule: rule, Key: rule + "|" + key, Pos: pos, Status: Unresolved, Note: note})
}

// Fail marks the check itself as broken (anchor gone, self-test failed …).
func (r *Result) Fail(format string, a ...interface{}) {
	r.Broken = append(r.Broken, fmt.Sprintf(format, a...))
}

// Fn records that a function was analysed.
func (r *Result) Fn(key string) { r.Functions[key] = true }

// KnownFinding is one entry of known_findings.json.
type KnownFinding struct {
	Property string `json:"property"`
	Key      string `json:"key"`
	What     string `json:"what"`
	Status   string `json:"status"` // "known" or "fixed"
	Commit   string `json:"commit,omitempty"`
	Input    string `json:"failing_input,omitempty"`
	Why      string `json:"why_not_repaired,omitempty"`
}

type knownFile struct {
	Findings []KnownFinding `json:"findings"`
}

func LoadKnown(path string) ([]KnownFinding, error) {
	b, err := os.ReadFile(path)
	if err != nil {
		if os.IsNotExist(err) {
			return nil, nil
		}
		return nil, err
	}
	var kf knownFile
	if err := json.Unmarshal(b, &kf); err != nil {
		return nil, err
	}
	return kf.Findings, nil
}

// Finish dedups obligations, matches violations with known findings, writes the
// evidence and violation files, prints the verdict lines and returns the exit code.
func (r *Result) Finish(verifDir string, known []KnownFinding, seed int64, wall float64) int {
	// Deduplicate by key, worst status wins.
	rank := map[Status]int{Discharged: 0, Unresolved: 1, Violated: 2}
	byKey := map[string]int{}
	var obls []Obligation
	for _, o := range r.Obls {
		if i, ok := byKey[o.Key]; ok {
			if rank[o.Status] > rank[obls[i].Status] {
				obls[i] = o
			}
			continue
		}
		byKey[o.Key] = len(obls)
		obls = append(obls, o)
	}
	sort.SliceStable(obls, func(i, j int) bool { return obls[i].Key < obls[j].Key })
	for i, o := range obls {
		byKey[o.Key] = i
	}

	knownSet := map[string]KnownFinding{}
	for _, k := range known {
		if k.Property == r.Property && k.Status == "known" {
			knownSet[k.Key] = k
		}
	}
	perRule := map[string]int{}
	var viol, knownHit, unres []Obligation
	discharged, nontrivial := 0, 0
	for _, o := range obls {
		perRule[o.Rule]++
		switch o.Status {
		case Discharged:
			discharged++
			if !o.Trivial {
				nontrivial++
			}
		case Unresolved:
			unres = append(unres, o)
			nontrivial++
		case Violated:
			nontrivial++
			if _, ok := knownSet[o.Key]; ok {
				knownHit = append(knownHit, o)
			} else {
				viol = append(viol, o)
			}
		}
	}
	for rule, floor := range r.Floors {
		if perRule[rule] < floor {
			r.Fail("rule %s matched %d constructs, below its floor %d (rule would pass vacuously)", rule, perRule[rule], floor)
		}
	}
	var stale []string
	for k := range knownSet {
		if i, ok := byKey[k]; !ok || obls[i].Status != Violated {
			stale = append(stale, k)
		}
	}
	sort.Strings(stale)

	// violation files
	vdir := filepath.Join(verifDir, "evidence", "violations")
	os.MkdirAll(vdir, 0o755)
	old, _ := filepath.Glob(filepath.Join(vdir, r.Property+"-*.json"))
	for _, f := range old {
		os.Remove(f)
	}
	code := 0
	for _, o := range knownHit {
		fmt.Printf("KNOWN-FINDING: property=%s %s at %s: %s\n", r.Property, o.Key, o.Pos, oneLine(knownSet[o.Key].What))
	}
	for _, o := range unres {
		fmt.Printf("UNRESOLVED: property=%s %s at %s: %s\n", r.Property, o.Key, o.Pos, oneLine(o.Note))
	}
	if r.Tier != "thorough" {
		stale = nil // findings of the wider thorough scope are not expected in the quick tier
	}
	for _, k := range stale {
		fmt.Printf("NOTE: property=%s known finding no longer reported: %s\n", r.Property, k)
	}
	for i, o := range viol {
		path := filepath.Join(vdir, fmt.Sprintf("%s-%d.json", r.Property, i+1))
		b, _ := json.MarshalIndent(map[string]interface{}{
			"property": r.Property, "rule": o.Rule, "rule_text": r.Rules[o.Rule], "key": o.Key, "pos": o.Pos,
			"explanation": o.Note, "path": o.Path,
		}, "", " ")
		os.WriteFile(path, b, 0o644)
		fmt.Printf("%s: %s: %s\n", o.Pos, o.Key, oneLine(o.Note))
		fmt.Printf("VIOLATION property=%s replay=%s\n", r.Property, path)
		code = 1
	}
	if len(r.Broken) > 0 {
		for _, b := range r.Broken {
			fmt.Printf("BROKEN: property=%s %s\n", r.Property, b)
		}
		if code == 0 {
			code = 2
		}
	}

	// samples: every non-discharged obligation plus up to 12 discharged spread over rules
	var samples []Obligation
	for _, o := range obls {
		if o.Status != Discharged {
			samples = append(samples, o)
		}
	}
	seen := map[string]int{}
	for _, o := range obls {
		if o.Status == Discharged && seen[o.Rule] < 12 {
			seen[o.Rule]++
			samples = append(samples, o)
		}
	}
	if len(samples) > 80 {
		samples = samples[:80]
	}
	var ruleList []string
	for id, t := range r.Rules {
		ruleList = append(ruleList, fmt.Sprintf("%s: %s [instances=%d floor=%d]", id, t, perRule[id], r.Floors[id]))
	}
	sort.Strings(ruleList)
	var fns []string
	for f := range r.Functions {
		fns = append(fns, f)
	}
	sort.Strings(fns)
	fnSample := fns
	if len(fnSample) > 40 {
		fnSample = fnSample[:40]
	}
	cov := map[string]interface{}{
		"explanation":            r.Explanation,
		"rules":                  ruleList,
		"obligations":            len(obls),
		"discharged":             discharged,
		"violated_known":         len(knownHit),
		"violated_unlisted":      len(viol),
		"unresolved":             len(unres),
		"evaluations":            len(obls),
		"distinct_nontrivial":    nontrivial,
		"rule":                   "one obligation per (rule, construct) enumerated from the type-checked program; non-trivial = not discharged by a purely syntactic shortcut",
		"samples":                samples,
		"functions_analysed":     len(fns),
		"functions_sample":       fnSample,
		"call_sites":             r.CallSites,
		"known_findings_matched": len(knownHit),
		"known_findings_stale":   stale,
		"not_decided":            r.NotDecided,
		"checker_cmd":            strings.Join(os.Args, " "),
		"trusted_base":           []string{"go/types", "go/ssa", "go/cfg", "x/tools callgraph (CHA+VTA)"},
		"exhaustive":             true,
		"broken":                 r.Broken,
	}
	for k, v := range r.Extra {
		cov[k] = v
	}
	if r.Assumptions == nil {
		r.Assumptions = []string{}
	}
	if r.NotDecided == nil {
		r.NotDecided = []string{}
	}
	ev := map[string]interface{}{
		"property_id": r.Property,
		"tier":        r.Tier,
		"seed":        seed,
		"level":       "other",
		"coverage":    cov,
		"assumptions": r.Assumptions,
		"wall_s":      wall,
		"violations":  len(viol),
	}
	b, _ := json.MarshalIndent(ev, "", " ")
	os.MkdirAll(filepath.Join(verifDir, "evidence"), 0o755)
	if err := os.WriteFile(filepath.Join(verifDir, "evidence", r.Property+".json"), b, 0o644); err != nil {
		fmt.Printf("BROKEN: property=%s cannot write evidence: %v\n", r.Property, err)
		if code == 0 {
			code = 2
		}
	}
	fmt.Printf("SUMMARY property=%s tier=%s obligations=%d discharged=%d known=%d violations=%d unresolved=%d functions=%d wall=%.1fs\n",
		r.Property, r.Tier, len(obls), discharged, len(knownHit), len(viol), len(unres), len(fns), wall)
	return code
}

func oneLine(s string) string {
	s = strings.ReplaceAll(s, "\n", " ")
	if len(s) > 300 {
		cut := 300
		for cut > 0 && !utf8.RuneStart(s[cut]) {
			cut-- // never split a multi-byte character: the line must stay valid UTF-8
		}
		s = s[:cut] + "…"
	}
	return s
}
