package props

import (
	"fmt"
	"go/ast"
	"go/token"
	"go/types"
	"sort"
	"strings"

	"gripverif/core"
)

func init() {
	Registry["C01"] = c01
	SelfTests["C01"] = c01selftest
}

// travelerFreshness describes what a traveler constructor shares with its receiver.
type travelerFreshness struct {
	MarksFresh   bool // the Marks map of the result is a new map
	MarkElemsNew bool // … and the elements it points to are new copies
	PathFresh    bool // the Path slice of the result has its own backing array
	CurrentFresh bool // Current is a new element (not the receiver's pointer)
	SignalKept   bool // the result's Signal is the receiver's Signal
	Problems     []string
}

// constructorOwnership analyses a BaseTraveler constructor method
// (AddCurrent / AddMark / Copy): no store through the receiver, fresh Marks map
// and Path slice in the result.
func constructorOwnership(p *core.Prog, fi *core.FuncInfo) travelerFreshness {
	info := fi.Pkg.TypesInfo
	tf := travelerFreshness{}
	var recv types.Object
	if fi.Decl.Recv != nil && len(fi.Decl.Recv.List) > 0 && len(fi.Decl.Recv.List[0].Names) > 0 {
		recv = info.Defs[fi.Decl.Recv.List[0].Names[0]]
	}
	if recv == nil {
		tf.Problems = append(tf.Problems, "receiver not named")
		return tf
	}
	mentionsRecv := func(e ast.Expr) bool {
		found := false
		ast.Inspect(e, func(n ast.Node) bool {
			if id, ok := n.(*ast.Ident); ok && info.Uses[id] == recv {
				found = true
			}
			return true
		})
		return found
	}
	baseIsRecv := func(e ast.Expr) bool {
		for {
			switch x := ast.Unparen(e).(type) {
			case *ast.SelectorExpr:
				e = x.X
				continue
			case *ast.IndexExpr:
				e = x.X
				continue
			case *ast.StarExpr:
				e = x.X
				continue
			case *ast.Ident:
				return info.Uses[x] == recv
			}
			return false
		}
	}
	// the result object: a local composite literal of the traveler type
	var result types.Object
	var lit *ast.CompositeLit
	ast.Inspect(fi.Decl.Body, func(n ast.Node) bool {
		as, ok := n.(*ast.AssignStmt)
		if !ok || len(as.Lhs) != 1 || len(as.Rhs) != 1 {
			return true
		}
		r := ast.Unparen(as.Rhs[0])
		if u, ok := r.(*ast.UnaryExpr); ok && u.Op == token.AND {
			r = u.X
		}
		if cl, ok := r.(*ast.CompositeLit); ok && result == nil {
			if nn, ok := types.Unalias(info.TypeOf(cl)).(*types.Named); ok && nn.Obj().Name() == "BaseTraveler" {
				result = defOrUse(info, as.Lhs[0])
				lit = cl
			}
		}
		return true
	})
	// … or a traveler obtained from a helper method of the receiver (o := t.derive(n)),
	// whose own analysis gives the starting point
	var base *travelerFreshness
	if result == nil {
		ast.Inspect(fi.Decl.Body, func(n ast.Node) bool {
			as, ok := n.(*ast.AssignStmt)
			if !ok || len(as.Lhs) != 1 || len(as.Rhs) != 1 || result != nil {
				return true
			}
			c, ok := ast.Unparen(as.Rhs[0]).(*ast.CallExpr)
			if !ok {
				return true
			}
			sel, ok := c.Fun.(*ast.SelectorExpr)
			if !ok || !baseIsRecv(sel.X) {
				return true
			}
			fn := core.CalleeFunc(info, c)
			if fn == nil || fn == fi.Obj {
				return true
			}
			hfi := p.Info(fn)
			if hfi == nil || hfi.Decl.Body == nil || hfi.Pkg != fi.Pkg {
				return true
			}
			if rt := fn.Type().(*types.Signature).Results(); rt.Len() != 1 || !strings.Contains(rt.At(0).Type().String(), "BaseTraveler") {
				return true
			}
			h := constructorOwnership(p, hfi)
			base = &h
			result = defOrUse(info, as.Lhs[0])
			return true
		})
	}
	if result == nil {
		tf.Problems = append(tf.Problems, "the constructor does not build a new BaseTraveler value")
		return tf
	}
	if base != nil {
		for _, pr := range base.Problems {
			if !strings.HasPrefix(pr, "the result's") {
				tf.Problems = append(tf.Problems, "helper: "+pr)
			}
		}
		lit = &ast.CompositeLit{}
	}
	freshExpr := func(e ast.Expr) bool {
		switch x := ast.Unparen(e).(type) {
		case *ast.CompositeLit:
			return true
		case *ast.CallExpr:
			return isBuiltin2(info, x, "make") || isBuiltin2(info, x, "new")
		}
		return false
	}
	fields := map[string]ast.Expr{}
	for _, el := range lit.Elts {
		if kv, ok := el.(*ast.KeyValueExpr); ok {
			if id, ok := kv.Key.(*ast.Ident); ok {
				fields[id.Name] = kv.Value
			}
		}
	}
	tf.MarksFresh = fields["Marks"] != nil && freshExpr(fields["Marks"])
	tf.PathFresh = fields["Path"] != nil && freshExpr(fields["Path"])
	tf.MarkElemsNew = false
	isRecvSignal := func(e ast.Expr) bool {
		sel, ok := ast.Unparen(e).(*ast.SelectorExpr)
		return ok && sel.Sel.Name == "Signal" && baseIsRecv(sel.X)
	}
	tf.SignalKept = fields["Signal"] != nil && isRecvSignal(fields["Signal"])
	if base != nil {
		tf.MarksFresh, tf.PathFresh, tf.SignalKept = base.MarksFresh, base.PathFresh, base.SignalKept
	}
	ast.Inspect(fi.Decl.Body, func(n ast.Node) bool {
		as, ok := n.(*ast.AssignStmt)
		if !ok {
			return true
		}
		for i, l := range as.Lhs {
			if baseIsRecv(l) {
				tf.Problems = append(tf.Problems, fmt.Sprintf("stores through the receiver at %s (%s): the input traveler, which sibling rows share, is modified", p.Pos(as.Pos()), types.ExprString(l)))
			}
			if i >= len(as.Rhs) {
				continue
			}
			r := as.Rhs[i]
			// o.Marks = … / o.Path = …
			if sel, ok := ast.Unparen(l).(*ast.SelectorExpr); ok && defOrUse(info, sel.X) == result {
				switch sel.Sel.Name {
				case "Marks":
					tf.MarksFresh = freshExpr(r)
					if mentionsRecv(r) {
						tf.MarksFresh = false
					}
				case "Path":
					tf.PathFresh = freshExpr(r)
					if mentionsRecv(r) {
						tf.PathFresh = false
					}
				case "Current":
					tf.CurrentFresh = freshElementExpr(p, info, r, 0)
				case "Signal":
					tf.SignalKept = isRecvSignal(r)
				}
			}
			// o.Marks[k] = &DataElement{…}  (new copies of the mark elements)
			if ix, ok := ast.Unparen(l).(*ast.IndexExpr); ok {
				if sel, ok := ast.Unparen(ix.X).(*ast.SelectorExpr); ok && defOrUse(info, sel.X) == result && sel.Sel.Name == "Marks" {
					if freshElementExpr(p, info, r, 0) {
						tf.MarkElemsNew = true
					}
				}
			}
		}
		return true
	})
	// append(t.Path, …) / append(t.Marks…) used as a value anywhere aliases the receiver's storage
	ast.Inspect(fi.Decl.Body, func(n ast.Node) bool {
		if c, ok := n.(*ast.CallExpr); ok && isBuiltin2(info, c, "append") && len(c.Args) > 0 && baseIsRecv(c.Args[0]) {
			tf.Problems = append(tf.Problems, fmt.Sprintf("append(%s, …) at %s may write into the receiver's backing array, which the sibling rows created from the same traveler share", types.ExprString(c.Args[0]), p.Pos(c.Pos())))
		}
		return true
	})
	if !tf.MarksFresh {
		tf.Problems = append(tf.Problems, "the result's Marks map is not a new map: marks added for one row appear in its siblings")
	}
	if !tf.PathFresh {
		tf.Problems = append(tf.Problems, "the result's Path slice is not a new slice: the path of one row is overwritten by its siblings")
	}
	return tf
}

// usesDeepCopy: the expression contains a call of util/copy.DeepCopy.
func usesDeepCopy(info *types.Info, e ast.Expr) bool {
	deep := false
	ast.Inspect(e, func(n ast.Node) bool {
		if c, ok := n.(*ast.CallExpr); ok {
			if fn := core.CalleeFunc(info, c); fn != nil && fn.Name() == "DeepCopy" {
				deep = true
			}
		}
		return true
	})
	return deep
}

// freshElementLit: a keyed DataElement literal whose Data, if given, is a deep copy.
func freshElementLit(info *types.Info, cl *ast.CompositeLit) bool {
	nn, ok := types.Unalias(info.TypeOf(cl)).(*types.Named)
	if !ok || nn.Obj().Name() != "DataElement" {
		return false
	}
	for _, el := range cl.Elts {
		kv, ok := el.(*ast.KeyValueExpr)
		if !ok {
			return false // positional literal: cannot tell which value is Data
		}
		if id, ok := kv.Key.(*ast.Ident); ok && id.Name == "Data" && !usesDeepCopy(info, kv.Value) {
			return false
		}
	}
	return true
}

// freshElementExpr: the expression denotes a new *DataElement whose Data map,
// if any, is a deep copy: &DataElement{…, Data: DeepCopy(…)}, or a call of a
// repository helper all of whose returns are nil or such a value (a local
// literal whose Data is only ever assigned a deep copy).
func freshElementExpr(p *core.Prog, info *types.Info, e ast.Expr, depth int) bool {
	if depth > 3 {
		return false
	}
	switch x := ast.Unparen(e).(type) {
	case *ast.UnaryExpr:
		if x.Op == token.AND {
			if cl, ok := ast.Unparen(x.X).(*ast.CompositeLit); ok {
				return freshElementLit(info, cl)
			}
		}
	case *ast.CallExpr:
		fn := core.CalleeFunc(info, x)
		if fn == nil {
			return false
		}
		fi := p.Info(fn)
		if fi == nil || fi.Decl == nil || fi.Decl.Body == nil {
			return false
		}
		finfo := fi.Pkg.TypesInfo
		lits := map[types.Object]bool{}
		bad := false
		ast.Inspect(fi.Decl.Body, func(n ast.Node) bool {
			as, ok := n.(*ast.AssignStmt)
			if !ok || len(as.Lhs) != len(as.Rhs) {
				return true
			}
			for i, l := range as.Lhs {
				r := ast.Unparen(as.Rhs[i])
				if id, ok := ast.Unparen(l).(*ast.Ident); ok {
					o := defOrUse(finfo, id)
					if cl, ok := r.(*ast.CompositeLit); ok && freshElementLit(finfo, cl) && !lits[o] {
						lits[o] = true
					} else if lits[o] {
						bad = true // the local is reassigned
					}
					continue
				}
				if sel, ok := ast.Unparen(l).(*ast.SelectorExpr); ok {
					if o := defOrUse(finfo, sel.X); o != nil && lits[o] && sel.Sel.Name == "Data" && !usesDeepCopy(finfo, r) {
						bad = true
					}
				}
			}
			return true
		})
		rets := 0
		ast.Inspect(fi.Decl.Body, func(n ast.Node) bool {
			if _, ok := n.(*ast.FuncLit); ok {
				return false
			}
			rs, ok := n.(*ast.ReturnStmt)
			if !ok {
				return true
			}
			rets++
			if len(rs.Results) != 1 {
				bad = true
				return true
			}
			r := ast.Unparen(rs.Results[0])
			if tv, ok := finfo.Types[r]; ok && tv.IsNil() {
				return true
			}
			if u, ok := r.(*ast.UnaryExpr); ok && u.Op == token.AND {
				if o := defOrUse(finfo, u.X); o != nil && lits[o] {
					return true
				}
			}
			if !freshElementExpr(p, finfo, r, depth+1) {
				bad = true
			}
			return true
		})
		return rets > 0 && !bad
	}
	return false
}

// boundedStep checks Limit/Skip/Range (A16 + A13): forwards the received
// traveler unchanged, counts every non-signal traveler exactly once, and the
// forwarding predicate over the orderings of (counter, bounds) is the documented one.
func boundedStep(p *core.Prog, res *core.Result, fi *core.FuncInfo, rule string, terms []string, fieldAlias map[string]string,
	pre func(ordEnv) bool, want func(ordEnv) bool, doc string, sentinels ...map[string]float64) {
	var sentinel map[string]float64
	if len(sentinels) > 0 {
		sentinel = sentinels[0]
	}
	info := fi.Pkg.TypesInfo
	fkey := core.FuncKey(fi.Obj)
	res.Fn(fkey)
	var loop *ast.RangeStmt
	ast.Inspect(fi.Decl.Body, func(n ast.Node) bool {
		if rs, ok := n.(*ast.RangeStmt); ok && loop == nil && isChanType(info.TypeOf(rs.X)) {
			loop = rs
		}
		return loop == nil
	})
	if loop == nil || loop.Key == nil {
		res.Unres(rule, fkey, p.Pos(fi.Decl.Pos()), "input loop not recognised")
		return
	}
	tv := defOrUse(info, loop.Key)
	// statements after the signal guard
	var counter types.Object
	var sendCond ast.Expr
	incs := 0
	sendsOther := false
	var problems []string
	// named booleans defined at the top level of the loop body stand for their expression
	named := map[types.Object]ast.Expr{}
	for _, st := range loop.Body.List {
		if as, ok := st.(*ast.AssignStmt); ok && as.Tok == token.DEFINE && len(as.Lhs) == 1 && len(as.Rhs) == 1 {
			if id, ok := as.Lhs[0].(*ast.Ident); ok {
				if o := info.Defs[id]; o != nil {
					if b, isB := o.Type().Underlying().(*types.Basic); isB && b.Kind() == types.Bool {
						named[o] = as.Rhs[0]
					}
				}
			}
		}
	}
	expand := func(e ast.Expr) ast.Expr {
		if id, ok := ast.Unparen(e).(*ast.Ident); ok {
			if d, ok := named[info.Uses[id]]; ok {
				return &ast.ParenExpr{X: d}
			}
		}
		return e
	}
	// a tagless switch is an if / else-if chain
	var stmts []ast.Stmt
	for _, st := range loop.Body.List {
		sw, ok := st.(*ast.SwitchStmt)
		if !ok || sw.Tag != nil || sw.Init != nil {
			stmts = append(stmts, st)
			continue
		}
		var head, cur *ast.IfStmt
		okChain := true
		for _, c := range sw.Body.List {
			cc := c.(*ast.CaseClause)
			if len(cc.List) != 1 {
				okChain = false // default clause or several conditions: left as it is
				break
			}
			n := &ast.IfStmt{If: cc.Pos(), Cond: cc.List[0], Body: &ast.BlockStmt{Lbrace: cc.Colon, List: cc.Body, Rbrace: cc.End()}}
			if head == nil {
				head = n
			} else {
				cur.Else = n
			}
			cur = n
		}
		if okChain && head != nil {
			stmts = append(stmts, head)
		} else {
			stmts = append(stmts, st)
		}
	}
	for _, st := range stmts {
		switch s := st.(type) {
		case *ast.IfStmt:
			// signal guard: if t.IsSignal() { out <- t; continue }
			isSig := false
			for _, c := range core.CallsIn(s.Cond) {
				if sel, ok := c.Fun.(*ast.SelectorExpr); ok && sel.Sel.Name == "IsSignal" {
					isSig = true
				}
			}
			if isSig {
				continue
			}
			// the forwarding decision: find the branch that sends t
			var find func(is *ast.IfStmt, neg []ast.Expr)
			find = func(is *ast.IfStmt, neg []ast.Expr) {
				for _, b := range is.Body.List {
					if snd, ok := b.(*ast.SendStmt); ok {
						if defOrUse(info, snd.Value) == tv {
							c := expand(is.Cond)
							for _, ne := range neg {
								ne = expand(ne)
								c = &ast.BinaryExpr{X: &ast.UnaryExpr{Op: token.NOT, X: &ast.ParenExpr{X: ne}}, Op: token.LAND, Y: &ast.ParenExpr{X: c}}
							}
							sendCond = c
						} else {
							sendsOther = true
						}
					}
				}
				if e, ok := is.Else.(*ast.IfStmt); ok {
					find(e, append(neg, is.Cond))
				}
			}
			find(s, nil)
		case *ast.IncDecStmt:
			if s.Tok == token.INC {
				incs++
				counter = defOrUse(info, s.X)
			}
		case *ast.SendStmt:
			problems = append(problems, "sends unconditionally inside the input loop")
		}
	}
	if sendsOther {
		problems = append(problems, "forwards a value other than the received traveler (rows are not a sub-multiset of the input)")
	}
	if incs != 1 || counter == nil {
		problems = append(problems, fmt.Sprintf("the row counter is advanced %d times per non-signal traveler on the main path (expected exactly once, unconditionally)", incs))
	}
	if sendCond == nil {
		problems = append(problems, "no conditional forwarding of the received traveler found")
	}
	if len(problems) > 0 {
		res.Bad(rule, fkey, p.Pos(loop.Pos()), fkey+": "+strings.Join(problems, "; "))
		return
	}
	alias := func(e ast.Expr) string {
		e = ast.Unparen(e)
		if defOrUse(info, e) == counter {
			return "i"
		}
		if sel, ok := e.(*ast.SelectorExpr); ok {
			if a, ok := fieldAlias[sel.Sel.Name]; ok {
				return a
			}
		}
		return ""
	}
	bad, got, n, ok := ordCompareX(info, sendCond, terms, alias, pre, want, sentinel)
	switch {
	case !ok:
		res.Unres(rule, fkey, p.Pos(sendCond.Pos()), "the forwarding condition uses more than comparisons of the counter and the bounds")
	case bad != nil:
		res.Bad(rule, fkey, p.Pos(sendCond.Pos()), fmt.Sprintf("%s forwards a row under a condition that differs from the documented one (%s): for %v the code yields %v", fkey, doc, map[string]float64(bad), got))
	default:
		res.OK(rule, fkey, p.Pos(sendCond.Pos()), fmt.Sprintf("forwards exactly when %s — equal on all %d orderings; counter advanced once per non-signal row; the received traveler is forwarded unchanged", doc, n))
	}
}

func c01(p *core.Prog, res *core.Result) {
	res.Explanation = "C01 (structural clauses): O1 copy-on-step ownership — the traveler constructors AddCurrent/AddMark/Copy never store through their receiver and give the new traveler its own Marks map and Path slice " +
		"(every adjacency step derives one traveler per neighbour from the same input traveler, so any sharing makes sibling rows alias each other); " +
		"O2 no step of the C01 alphabet writes into an element reachable from its input traveler (jsonpath.TravelerSetValue is applied only to a traveler whose current element and marks are private copies); " +
		"O3 dispatch totality — every GraphStatement oneof member has an arm in the compiler and in the step inspector, every compile arm returns an error or a processor, every result type has an arm in Convert; " +
		"O4 bound arithmetic — limit, skip and range forward the received traveler unchanged, count every non-signal row once, and their forwarding predicate over all orderings of (row index, bounds) equals the documented one; " +
		"O5 a boolean that summarises a loop over keys/labels/values and is read after the loop is never overwritten on every iteration by an expression that ignores its previous value (last-item-wins)."
	res.NotDecided = []string{"row-multiset equality for the moving, filtering and projecting steps: label filtering, field resolution, adjacency direction", "a swapped From/To or a dropped label filter is invisible to this check"}
	res.Rule("O1", "traveler constructors: no store through the receiver, fresh Marks map and Path slice", 3)
	res.Rule("O2", "steps write only into private copies of elements", 1)
	res.Rule("O3", "statement/type dispatch totality", 60)
	res.Rule("O4", "limit/skip/range arithmetic over all orderings", 3)
	res.Rule("O5", "a boolean that summarises a loop and is read after it is set one way (constant) or depends on its previous value (engine/core, engine/logic, jsonpath)", 3)
	c01flags(p, res, c01flagFuncs(p), "O5")

	fresh := map[string]travelerFreshness{}
	for _, name := range []string{"AddCurrent", "AddMark", "Copy"} {
		fi := p.Func("gdbi", "BaseTraveler."+name)
		if fi == nil {
			res.Fail("gdbi.BaseTraveler.%s not found", name)
			continue
		}
		res.Fn(core.FuncKey(fi.Obj))
		tf := constructorOwnership(p, fi)
		fresh[name] = tf
		key := "gdbi.BaseTraveler." + name
		if len(tf.Problems) == 0 {
			res.OK("O1", key, p.Pos(fi.Decl.Pos()), "no store through the receiver; new Marks map and Path slice")
		} else {
			res.Bad("O1", key, p.Pos(fi.Decl.Pos()), key+": "+strings.Join(tf.Problems, "; "))
		}
	}
	c01writes(p, res, fresh, "O2", []string{"Unwind"})
	c01dispatch(p, res)

	if fi := p.Func("engine/core", "Limit.Process"); fi != nil {
		boundedStep(p, res, fi, "O4", []string{"i", "n"}, map[string]string{"count": "n"}, nil,
			func(e ordEnv) bool { return e["i"] < e["n"] }, "row index < limit")
	}
	if fi := p.Func("engine/core", "Skip.Process"); fi != nil {
		boundedStep(p, res, fi, "O4", []string{"i", "n"}, map[string]string{"count": "n"}, nil,
			func(e ordEnv) bool { return e["i"] >= e["n"] }, "row index >= skip")
	}
	if fi := p.Func("engine/core", "Range.Process"); fi != nil {
		// stop == -1 means unbounded: model the sentinel as a separate valuation
		boundedStep(p, res, fi, "O4", []string{"i", "a", "b"}, map[string]string{"start": "a", "stop": "b"}, nil,
			func(e ordEnv) bool { return e["i"] >= e["a"] && (e["i"] < e["b"] || e["b"] == -1) }, "start <= row index < stop (stop = -1: unbounded)",
			map[string]float64{"b": -1})
	}
}

// c01writes: every call of jsonpath.TravelerSetValue in the named steps must
// target a traveler whose current element and marks are private.
func c01writes(p *core.Prog, res *core.Result, fresh map[string]travelerFreshness, rule string, steps []string) {
	for _, step := range steps {
		fi := p.Func("engine/core", step+".Process")
		if fi == nil {
			res.Fail("engine/core.%s.Process not found", step)
			continue
		}
		info := fi.Pkg.TypesInfo
		fkey := core.FuncKey(fi.Obj)
		res.Fn(fkey)
		defs := map[types.Object][]ast.Expr{}
		ast.Inspect(fi.Decl.Body, func(n ast.Node) bool {
			if as, ok := n.(*ast.AssignStmt); ok && len(as.Lhs) == len(as.Rhs) {
				for i, l := range as.Lhs {
					if o := defOrUse(info, l); o != nil {
						defs[o] = append(defs[o], as.Rhs[i])
					}
				}
			}
			return true
		})
		// classify a traveler expression: which parts are private
		var classify func(e ast.Expr, depth int) (cur, marks bool, how string)
		classify = func(e ast.Expr, depth int) (bool, bool, string) {
			if depth > 5 {
				return false, false, "?"
			}
			switch x := ast.Unparen(e).(type) {
			case *ast.Ident:
				o := info.Uses[x]
				if ds := defs[o]; len(ds) > 0 {
					c, m, h := true, true, ""
					for _, d := range ds {
						dc, dm, dh := classify(d, depth+1)
						c, m, h = c && dc, m && dm, dh
					}
					return c, m, h
				}
				return false, false, "the input traveler " + x.Name
			case *ast.CallExpr:
				if sel, ok := x.Fun.(*ast.SelectorExpr); ok {
					rc, rm, rh := classify(sel.X, depth+1)
					switch sel.Sel.Name {
					case "Copy":
						tf := fresh["Copy"]
						return tf.CurrentFresh, tf.MarksFresh && tf.MarkElemsNew, rh + ".Copy()"
					case "AddCurrent":
						// current = the argument; marks = the receiver's (map copied, elements shared)
						argFresh := false
						if len(x.Args) == 1 {
							if u, ok := ast.Unparen(x.Args[0]).(*ast.UnaryExpr); ok && u.Op == token.AND {
								if o := defOrUse(info, u.X); o != nil {
									for _, d := range defs[o] {
										if cl, ok := ast.Unparen(d).(*ast.CompositeLit); ok {
											// Data must be a deep copy
											for _, el := range cl.Elts {
												if kv, ok := el.(*ast.KeyValueExpr); ok {
													if id, ok := kv.Key.(*ast.Ident); ok && id.Name == "Data" {
														argFresh = strings.Contains(types.ExprString(kv.Value), "DeepCopy")
													}
												}
											}
										}
									}
								}
							}
						}
						_ = rc
						return argFresh, rm, rh + ".AddCurrent(copy)"
					}
				}
			}
			return false, false, types.ExprString(e)
		}
		n := 0
		ast.Inspect(fi.Decl.Body, func(x ast.Node) bool {
			c, ok := x.(*ast.CallExpr)
			if !ok {
				return true
			}
			fn := core.CalleeFunc(info, c)
			if fn == nil || fn.Name() != "TravelerSetValue" || len(c.Args) != 3 {
				return true
			}
			n++
			cur, marks, how := classify(c.Args[0], 0)
			// a constant path without "$" can only name the current element
			onlyCurrent := false
			if tv := info.Types[c.Args[1]]; tv.Value != nil && !strings.HasPrefix(strings.Trim(tv.Value.ExactString(), `"`), "$") {
				onlyCurrent = true
			}
			key := fmt.Sprintf("%s|TravelerSetValue", fkey)
			switch {
			case cur && (marks || onlyCurrent):
				res.OK(rule, key, p.Pos(c.Pos()), "writes into a traveler ("+how+") whose current element and marks are private copies")
			case !cur:
				res.Bad(rule, key, p.Pos(c.Pos()), fmt.Sprintf("%s writes a value into %s, whose current element is shared with the input traveler and with every row derived from it: the rows already emitted change afterwards", fkey, how))
			default:
				res.Bad(rule, key, p.Pos(c.Pos()), fmt.Sprintf("%s writes through a client-chosen path into %s; the path may name a mark (\"$a.field\"), and the mark elements are shared with every traveler that branched after as(\"a\"): the first row's write is seen by its siblings (V(x).as(\"a\").out().unwind(\"$a.tags\") loses rows)", fkey, how))
			}
			return true
		})
		if n == 0 {
			res.OKTrivial(rule, fkey+"|no writes", p.Pos(fi.Decl.Pos()), "the step performs no TravelerSetValue")
		}
	}
}

func c01dispatch(p *core.Prog, res *core.Result) {
	members := oneofMembers(p, "gripql", "isGraphStatement_Statement")
	if len(members) < 30 {
		res.Fail("only %d GraphStatement oneof members found", len(members))
		return
	}
	comp := p.Func("engine/core", "StatementProcessor")
	steps := p.Func("engine/inspect", "PipelineSteps")
	conv := p.Func("engine/pipeline", "Convert")
	if comp == nil || steps == nil || conv == nil {
		res.Fail("StatementProcessor / PipelineSteps / Convert not found")
		return
	}
	for _, fi := range []*core.FuncInfo{comp, steps, conv} {
		res.Fn(core.FuncKey(fi.Obj))
	}
	carms, cdef, cts := typeSwitchCases(comp.Pkg.TypesInfo, comp.Decl.Body, "isGraphStatement_Statement")
	sarms, _, sts := typeSwitchCases(steps.Pkg.TypesInfo, steps.Decl.Body, "isGraphStatement_Statement")
	if cts == nil || sts == nil {
		res.Fail("type switches over the statement oneof not recognised")
		return
	}
	sort.Strings(members)
	for _, m := range members {
		name := strings.TrimPrefix(m, "GraphStatement_")
		if cc, ok := carms[m]; ok {
			// every return of the arm: (non-nil processor, nil) or (nil, non-nil error)
			okArm := true
			why := ""
			info := comp.Pkg.TypesInfo
			ast.Inspect(cc, func(n ast.Node) bool {
				if _, ok := n.(*ast.FuncLit); ok {
					return false
				}
				r, ok := n.(*ast.ReturnStmt)
				if !ok {
					return true
				}
				if len(r.Results) == 1 { // return proc.GetProcessor(db, ps)
					return true
				}
				if len(r.Results) != 2 {
					okArm, why = false, "return with an unexpected number of results"
					return true
				}
				procNil := isNilIdent2(info, r.Results[0])
				errNil := isNilIdent2(info, r.Results[1])
				if procNil && errNil {
					okArm, why = false, fmt.Sprintf("returns (nil, nil) at %s: the pipeline would contain a nil step and panic when started", p.Pos(r.Pos()))
				}
				if !procNil && !errNil {
					if _, isErrCall := ast.Unparen(r.Results[1]).(*ast.CallExpr); isErrCall {
						okArm, why = false, "returns a processor together with an error"
					}
				}
				return true
			})
			if okArm {
				res.OK("O3", "compile|"+name, p.Pos(cc.Pos()), "arm present; every return carries a processor or an error")
			} else {
				res.Bad("O3", "compile|"+name, p.Pos(cc.Pos()), "compile arm for "+name+" "+why)
			}
		} else if cdef {
			res.Bad("O3", "compile|"+name, p.Pos(cts.Pos()), "statement kind "+name+" is accepted by the wire format but has no arm in StatementProcessor: the traversal is rejected as 'unknown statement type'")
		}
		if _, ok := sarms[m]; ok {
			res.OKTrivial("O3", "steps|"+name, p.Pos(sts.Pos()), "arm present")
		} else {
			res.Bad("O3", "steps|"+name, p.Pos(sts.Pos()), "statement kind "+name+" has no arm in inspect.PipelineSteps (logged as unknown; its step id and load decision are undefined)")
		}
	}
	// Convert: every DataType a compile arm can assign has a case
	assigned := map[string]bool{}
	ast.Inspect(comp.Decl.Body, func(n ast.Node) bool {
		if as, ok := n.(*ast.AssignStmt); ok && len(as.Lhs) == 1 && len(as.Rhs) == 1 {
			if sel, ok := as.Lhs[0].(*ast.SelectorExpr); ok && sel.Sel.Name == "LastType" {
				if rs, ok := as.Rhs[0].(*ast.SelectorExpr); ok {
					assigned[rs.Sel.Name] = true
				}
			}
		}
		return true
	})
	cases := map[string]bool{}
	ast.Inspect(conv.Decl.Body, func(n ast.Node) bool {
		if cc, ok := n.(*ast.CaseClause); ok {
			for _, e := range cc.List {
				if sel, ok := e.(*ast.SelectorExpr); ok {
					cases[sel.Sel.Name] = true
				}
			}
		}
		return true
	})
	var ts []string
	for t := range assigned {
		ts = append(ts, t)
	}
	sort.Strings(ts)
	for _, t := range ts {
		if cases[t] {
			res.OKTrivial("O3", "convert|"+t, p.Pos(conv.Decl.Pos()), "case present")
		} else {
			res.Bad("O3", "convert|"+t, p.Pos(conv.Decl.Pos()), "a compile arm can leave the result type "+t+" but pipeline.Convert has no case for it: every row is converted to nil")
		}
	}
}

func c01selftest(st *core.Prog, res *core.Result) {
	rel := core.SelfMod + "/c01"
	pk := st.Pkg(rel)
	if pk == nil {
		res.Fail("C01 self-test package did not load")
		return
	}
	for _, fi := range st.AllDecls() {
		if fi.Pkg != pk || fi.Decl.Recv == nil {
			continue
		}
		name := fi.Obj.Name()
		var want core.Status
		switch {
		case strings.HasPrefix(name, "Ok"):
			want = core.Discharged
		case strings.HasPrefix(name, "Bad"):
			want = core.Violated
		default:
			continue
		}
		got := core.Discharged
		tmp := core.NewResult("C01", "self")
		if strings.Contains(name, "Flag") {
			c01flags(st, tmp, []*core.FuncInfo{fi}, "O5")
			for _, o := range tmp.Obls {
				if o.Status != core.Discharged {
					got = core.Violated
				}
			}
		} else if strings.Contains(name, "Limit") {
			boundedStep(st, tmp, fi, "O4", []string{"i", "n"}, map[string]string{"count": "n"}, nil,
				func(e ordEnv) bool { return e["i"] < e["n"] }, "row index < limit")
			for _, o := range tmp.Obls {
				if o.Status != core.Discharged {
					got = core.Violated
				}
			}
		} else {
			if tf := constructorOwnership(st, fi); len(tf.Problems) > 0 {
				got = core.Violated
			}
		}
		if got != want {
			res.Fail("self-test %s: ownership/bounds rules gave %s, expected %s", name, got, want)
		} else {
			res.OKTrivial("SELF", "selftest|c01."+name, "-", "rules give "+string(got)+" as expected")
		}
	}
}
