package props

import (
	"fmt"
	"go/ast"
	"go/token"
	"go/types"
	"strings"

	"gripverif/core"
)

// c01flags (O5): a boolean that summarises a loop ("every key exists", "some
// label matches") and is read after the loop must be monotone: an assignment
// that runs on every iteration and does not depend on the previous value makes
// the answer depend on the last item only.
func c01flags(p *core.Prog, res *core.Result, fis []*core.FuncInfo, rule string) (n int) {
	for _, fi := range fis {
		if fi.Decl == nil || fi.Decl.Body == nil {
			continue
		}
		info := fi.Pkg.TypesInfo
		fkey := core.FuncKey(fi.Obj)
		bad := 0
		ast.Inspect(fi.Decl.Body, func(x ast.Node) bool {
			var body *ast.BlockStmt
			switch l := x.(type) {
			case *ast.RangeStmt:
				body = l.Body
			case *ast.ForStmt:
				body = l.Body
			}
			if body == nil {
				return true
			}
			loop := x
			for i, st := range body.List {
				as, ok := st.(*ast.AssignStmt)
				if !ok || as.Tok != token.ASSIGN || len(as.Lhs) != 1 || len(as.Rhs) != 1 {
					continue
				}
				id, ok := as.Lhs[0].(*ast.Ident)
				if !ok {
					continue
				}
				obj := info.Uses[id]
				if obj == nil || obj.Pos() >= loop.Pos() {
					continue // declared inside the loop
				}
				if b, ok := obj.Type().Underlying().(*types.Basic); !ok || b.Kind() != types.Bool {
					continue
				}
				if tv, ok := info.Types[as.Rhs[0]]; ok && tv.Value != nil {
					continue // constant: the flag moves one way only
				}
				selfRef := false
				ast.Inspect(as.Rhs[0], func(y ast.Node) bool {
					if yi, ok := y.(*ast.Ident); ok && info.Uses[yi] == obj {
						selfRef = true
					}
					return true
				})
				if selfRef {
					continue
				}
				// an exit that depends on the flag right after the assignment (if !v { break }) keeps the summary
				exits := false
				for _, later := range body.List[i+1:] {
					ast.Inspect(later, func(y ast.Node) bool {
						switch z := y.(type) {
						case *ast.BranchStmt:
							if z.Tok == token.BREAK || z.Tok == token.GOTO {
								exits = true
							}
						case *ast.ReturnStmt:
							exits = true
						case *ast.FuncLit:
							return false
						}
						return true
					})
				}
				if exits {
					continue
				}
				// read after the loop?
				readAfter := false
				ast.Inspect(fi.Decl.Body, func(y ast.Node) bool {
					if yi, ok := y.(*ast.Ident); ok && yi.Pos() > loop.End() && info.Uses[yi] == obj {
						readAfter = true
					}
					return true
				})
				if !readAfter {
					continue
				}
				bad++
				n++
				res.Bad(rule, fmt.Sprintf("%s|flag %s#%d", fkey, obj.Name(), bad), p.Pos(as.Pos()), fmt.Sprintf("%s assigns the loop summary %s = %s on every iteration without regard to its previous value and reads it after the loop: only the last item decides (e.g. hasKey(\"a\",\"b\") passes an element that has \"b\" but not \"a\")", fkey, obj.Name(), types.ExprString(as.Rhs[0])))
			}
			return true
		})
		if bad == 0 {
			hasLoopFlag := false
			ast.Inspect(fi.Decl.Body, func(x ast.Node) bool {
				if as, ok := x.(*ast.AssignStmt); ok && as.Tok == token.ASSIGN && len(as.Lhs) == 1 {
					if id, ok := as.Lhs[0].(*ast.Ident); ok {
						if o := info.Uses[id]; o != nil {
							if b, ok := o.Type().Underlying().(*types.Basic); ok && b.Kind() == types.Bool {
								hasLoopFlag = true
							}
						}
					}
				}
				return true
			})
			if hasLoopFlag {
				res.OK(rule, fkey+"|flags", p.Pos(fi.Decl.Pos()), "boolean summaries of loops are set one way or depend on their previous value")
			}
		}
	}
	return
}

func c01flagFuncs(p *core.Prog) []*core.FuncInfo {
	var out []*core.FuncInfo
	for _, fi := range p.AllDecls() {
		path := fi.Pkg.PkgPath
		if strings.HasSuffix(fi.Pkg.Fset.Position(fi.Decl.Pos()).Filename, "_test.go") {
			continue
		}
		if strings.HasSuffix(path, "engine/core") || strings.HasSuffix(path, "engine/logic") || strings.HasSuffix(path, "/jsonpath") {
			out = append(out, fi)
		}
	}
	return out
}
