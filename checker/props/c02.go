package props

import (
	"fmt"
	"go/ast"
	"go/token"
	"go/types"
	"sort"
	"strings"

	"gripverif/core"

	"golang.org/x/tools/go/ssa"
)

func init() {
	Registry["C02"] = c02
}

// processorsOfArm lists the Processor types a compile arm constructs.
func processorsOfArm(p *core.Prog, info *types.Info, cc *ast.CaseClause, proc *types.Interface) []*types.Named {
	var out []*types.Named
	seen := map[*types.Named]bool{}
	ast.Inspect(cc, func(n ast.Node) bool {
		cl, ok := n.(*ast.CompositeLit)
		if !ok {
			return true
		}
		t := info.TypeOf(cl)
		if nn, ok := types.Unalias(t).(*types.Named); ok && !seen[nn] {
			if types.Implements(types.NewPointer(nn), proc) || types.Implements(nn, proc) {
				seen[nn] = true
				out = append(out, nn)
			}
		}
		return true
	})
	return out
}

func c02(p *core.Prog, res *core.Result) {
	res.Explanation = "C02 (load-elision accounting): a step whose processor reads element properties must be known to the 'which outputs are needed' analysis, because every step that analysis does not mention is compiled with loadData=false and the embedded driver honours that for edges. " +
		"L1: D ⊆ H where D = statement kinds whose processor's Process reaches jsonpath.GetDoc in the VTA call graph (computed) and H = kinds with an arm in inspect.PipelineStepOutputs that records an output; " +
		"L2: for every kind in D whose field paths are client strings, the arm resolves the path's namespace (a `$mark.field` path must mark the step where the mark was set); " +
		"L5: PipelineStepOutputs walks the statements backwards and accumulates requirements per step, so an assignment of a list that lacks the wildcard to an entry is allowed only on the path where the entry was absent (guard `_, ok := out[k]` with the bare condition ok / !ok); L3: the pipeline state (step ids, needed outputs) is computed from the statement list that is actually compiled (after the optimisers ran); " +
		"L4: every kind whose compile arm consults StepLoadData() either advances the step id in PipelineSteps or is a start step; " +
		"L6: step ids are decimal strings, so no function of the analysis, the pipeline state or the compiler orders them with < <= > >= or strings.Compare (a taint from PipelineSteps/PipelineAsSteps/PipelineStepOutputs and the State fields); L7: a function of the analysis that looks into a oneof of a statement payload (has-expression, aggregation) looks into every member that can carry a field path; L8: IndexStartOptimize, which builds a replacement start statement, reads the id list of the V() it replaces."
	res.NotDecided = []string{"that the index-start rewrite preserves answers", "count() = number of rows", "equivalence of filter spellings", "that an arm, once present, requests the right fields"}
	res.Rule("L1", "every data-reading statement kind has a recording arm in PipelineStepOutputs", 8)
	res.Rule("L2", "arms of kinds that take client field paths resolve the path namespace", 2)
	res.Rule("L3", "pipeline state is computed after the optimisers", 1)
	res.Rule("L5", "the needed-outputs table only grows: an entry is replaced by less than everything only when it was absent", 1)
	res.Rule("L4", "kinds that consult StepLoadData advance the step id or start the traversal", 10)

	comp := p.Func("engine/core", "StatementProcessor")
	outs := p.Func("engine/inspect", "PipelineStepOutputs")
	steps := p.Func("engine/inspect", "PipelineSteps")
	getDoc := p.Func("jsonpath", "GetDoc")
	proc := p.Iface("gdbi", "Processor")
	if comp == nil || outs == nil || steps == nil || getDoc == nil || proc == nil {
		res.Fail("anchors not found (StatementProcessor/PipelineStepOutputs/PipelineSteps/GetDoc/Processor)")
		return
	}
	for _, fi := range []*core.FuncInfo{comp, outs, steps} {
		res.Fn(core.FuncKey(fi.Obj))
	}
	c02monotone(p, res, outs, "L5")
	c02extra(p, res)
	cinfo := comp.Pkg.TypesInfo
	arms, _, ts := typeSwitchCases(cinfo, comp.Decl.Body, "isGraphStatement_Statement")
	if ts == nil || len(arms) < 30 {
		res.Fail("compile type switch not recognised (%d arms)", len(arms))
		return
	}
	p.BuildSSA()
	cg := p.CallGraph()
	getDocSSA := p.SSAFunc(getDoc.Obj)
	reaches := func(f *ssa.Function) bool {
		seen := map[*ssa.Function]bool{}
		var walk func(f *ssa.Function, d int) bool
		walk = func(f *ssa.Function, d int) bool {
			if f == getDocSSA {
				return true
			}
			if seen[f] || d > 8 {
				return false
			}
			seen[f] = true
			for _, a := range f.AnonFuncs {
				if walk(a, d+1) {
					return true
				}
			}
			if n := cg.Nodes[f]; n != nil {
				for _, e := range n.Out {
					// a step that runs other steps (both) does not read properties itself
					if e.Site != nil && e.Site.Common().IsInvoke() && e.Site.Common().Method.Name() == "Process" {
						continue
					}
					c := e.Callee.Func
					if c.Pkg != nil && strings.HasPrefix(c.Pkg.Pkg.Path(), core.ModPath) || c.Parent() != nil {
						if walk(c, d+1) {
							return true
						}
					}
				}
			}
			return false
		}
		return walk(f, 0)
	}
	D := map[string]string{} // kind -> processor that reads data
	for kind, cc := range arms {
		for _, nn := range processorsOfArm(p, cinfo, cc, proc) {
			pf := p.Method(nn, "Process")
			if pf == nil {
				continue
			}
			// adjacency / lookup steps receive loaded elements from the driver; they are the
			// consumers of loadData, not readers of properties: skip processors that call StepLoadData in their arm
			if sf := p.SSAFunc(pf.Obj); sf != nil && reaches(sf) {
				D[kind] = core.TypeKey(nn)
			}
		}
	}
	oinfo := outs.Pkg.TypesInfo
	harms, _, hts := typeSwitchCases(oinfo, outs.Decl.Body, "isGraphStatement_Statement")
	if hts == nil {
		res.Fail("PipelineStepOutputs type switch not recognised")
		return
	}
	H := map[string]*ast.CaseClause{}
	for kind, cc := range harms {
		writes := false
		ast.Inspect(cc, func(n ast.Node) bool {
			if as, ok := n.(*ast.AssignStmt); ok {
				for _, l := range as.Lhs {
					if ix, ok := l.(*ast.IndexExpr); ok {
						if id, ok := ix.X.(*ast.Ident); ok && id.Name == "out" {
							writes = true
						}
					}
				}
			}
			if c, ok := n.(*ast.CallExpr); ok {
				// helper(out, …)
				for _, a := range c.Args {
					if id, ok := a.(*ast.Ident); ok && id.Name == "out" {
						writes = true
					}
				}
			}
			return true
		})
		if writes {
			H[kind] = cc
		}
	}
	// the mark table: the variable assigned from PipelineAsSteps(stmts)
	var asObj types.Object
	ast.Inspect(outs.Decl.Body, func(n ast.Node) bool {
		if as, ok := n.(*ast.AssignStmt); ok && len(as.Lhs) == 1 && len(as.Rhs) == 1 {
			if c, ok := ast.Unparen(as.Rhs[0]).(*ast.CallExpr); ok {
				if fn := core.CalleeFunc(oinfo, c); fn != nil && fn.Name() == "PipelineAsSteps" {
					asObj = defOrUse(oinfo, as.Lhs[0])
				}
			}
		}
		return true
	})
	var kinds []string
	for k := range D {
		kinds = append(kinds, k)
	}
	sort.Strings(kinds)
	res.Extra["data_reading_kinds"] = kinds
	for _, k := range kinds {
		name := strings.TrimPrefix(k, "GraphStatement_")
		if cc, ok := H[k]; ok {
			res.OK("L1", "PipelineStepOutputs|"+name, p.Pos(cc.Pos()), "arm records the outputs needed by "+D[k])
			// L2: namespace resolution
			resolves := false
			var check func(n ast.Node, depth int)
			check = func(n ast.Node, depth int) {
				ast.Inspect(n, func(x ast.Node) bool {
					c, ok := x.(*ast.CallExpr)
					if !ok {
						return true
					}
					fn := core.CalleeFunc(oinfo, c)
					if fn == nil {
						return true
					}
					if fn.Name() == "GetNamespace" {
						resolves = true
					}
					if depth < 2 {
						if cfi := p.Info(fn); cfi != nil && cfi.Pkg == outs.Pkg && cfi.Decl.Body != nil {
							check(cfi.Decl.Body, depth+1)
						}
					}
					return true
				})
			}
			check(cc, 0)
			// … or uses the mark table (the value of PipelineAsSteps): select names its
			// marks explicitly, a conservative arm marks the steps of all marks
			ast.Inspect(cc, func(x ast.Node) bool {
				if id, ok := x.(*ast.Ident); ok && asObj != nil && oinfo.Uses[id] == asObj {
					resolves = true
				}
				return true
			})
			if resolves {
				res.OK("L2", "PipelineStepOutputs|"+name+"|namespace", p.Pos(cc.Pos()), "the arm resolves the namespace of the paths it is given")
			} else {
				res.Bad("L2", "PipelineStepOutputs|"+name+"|namespace", p.Pos(cc.Pos()), fmt.Sprintf("statement kind %s reads properties through client-supplied paths, which may name a mark (\"$a.field\"), but its arm in PipelineStepOutputs only marks its own step: the step where the mark was set is compiled with loadData=false, so on the embedded driver an edge mark is unloaded and the path resolves to null (e.g. E().as(\"a\").out().%s on \"$a.k\")", name, strings.ToLower(name)))
			}
		} else {
			res.Bad("L1", "PipelineStepOutputs|"+name, p.Pos(hts.Pos()), fmt.Sprintf("statement kind %s is executed by %s, whose Process reads element properties (reaches jsonpath.GetDoc), but PipelineStepOutputs has no arm recording that: the step producing its input is compiled with loadData=false, the embedded driver then returns edges without properties, and the step sees none (e.g. E().%s(...) gives different rows than on fully loaded elements)", name, D[k], strings.ToLower(name[:1])+name[1:]))
		}
	}
	// L3
	if cf := p.Func("engine/core", "DefaultCompiler.Compile"); cf != nil {
		res.Fn(core.FuncKey(cf.Obj))
		info := cf.Pkg.TypesInfo
		var statePos token.Pos
		var stmtsObj types.Object
		ast.Inspect(cf.Decl.Body, func(n ast.Node) bool {
			if c, ok := n.(*ast.CallExpr); ok {
				if fn := core.CalleeFunc(info, c); fn != nil && fn.Name() == "NewPipelineState" && len(c.Args) == 1 {
					statePos = c.Pos()
					stmtsObj = defOrUse(info, c.Args[0])
				}
			}
			return true
		})
		if statePos == token.NoPos || stmtsObj == nil {
			res.Unres("L3", "engine/core.DefaultCompiler.Compile", p.Pos(cf.Decl.Pos()), "NewPipelineState(stmts) call not found")
		} else {
			var later token.Pos
			ast.Inspect(cf.Decl.Body, func(n ast.Node) bool {
				if as, ok := n.(*ast.AssignStmt); ok && as.Pos() > statePos {
					for _, l := range as.Lhs {
						if defOrUse(info, l) == stmtsObj {
							later = as.Pos()
						}
					}
				}
				return true
			})
			// and the compiled loop must range over the same variable
			if later != token.NoPos {
				res.Bad("L3", "engine/core.DefaultCompiler.Compile", p.Pos(later), fmt.Sprintf("the pipeline state (step ids and needed outputs) is computed at %s but the statement list is rewritten afterwards at %s: the load decisions are indexed against statements that are not the ones compiled (after an index-start rewrite a following outE()/inE() gets loadData=false and has() on edge data returns nothing)", p.Pos(statePos), p.Pos(later)))
			} else {
				res.OK("L3", "engine/core.DefaultCompiler.Compile", p.Pos(statePos), "the statement list is not reassigned after the pipeline state is computed")
			}
		}
	}
	// L4
	sarms, _, _ := typeSwitchCases(steps.Pkg.TypesInfo, steps.Decl.Body, "isGraphStatement_Statement")
	advancing := map[string]bool{}
	for kind, cc := range sarms {
		ast.Inspect(cc, func(n ast.Node) bool {
			if inc, ok := n.(*ast.IncDecStmt); ok && inc.Tok == token.INC {
				advancing[kind] = true
			}
			return true
		})
	}
	var lk []string
	for kind := range arms {
		lk = append(lk, kind)
	}
	sort.Strings(lk)
	for _, kind := range lk {
		cc := arms[kind]
		calls := false
		firstOnly := false
		ast.Inspect(cc, func(n ast.Node) bool {
			if c, ok := n.(*ast.CallExpr); ok {
				if sel, ok := c.Fun.(*ast.SelectorExpr); ok && sel.Sel.Name == "StepLoadData" {
					calls = true
				}
			}
			return true
		})
		if !calls {
			continue
		}
		name := strings.TrimPrefix(kind, "GraphStatement_")
		// start steps: V, E (guarded by LastType != NoData → error) and the optimiser's LookupVertsIndex
		if name == "V" || name == "E" || name == "LookupVertsIndex" {
			firstOnly = true
		}
		switch {
		case advancing[kind]:
			res.OK("L4", "PipelineSteps|"+name, p.Pos(cc.Pos()), "consults StepLoadData and advances the step id")
		case firstOnly:
			res.OKTrivial("L4", "PipelineSteps|"+name, p.Pos(cc.Pos()), "start step")
		default:
			res.Bad("L4", "PipelineSteps|"+name, p.Pos(cc.Pos()), fmt.Sprintf("statement kind %s consults StepLoadData() but PipelineSteps does not advance the step id for it: it shares the load decision of the previous step and the outputs recorded for it are attributed to the wrong element", name))
		}
	}
}


// c02monotone (L5): out[k] = []string{…} without "*" may run only where out[k] was absent.
func c02monotone(p *core.Prog, res *core.Result, fi *core.FuncInfo, rule string) {
	info := fi.Pkg.TypesInfo
	fkey := core.FuncKey(fi.Obj)
	n := 0
	type guard struct {
		key    string
		absent bool // on this branch the entry is known to be absent
	}
	var walk func(node ast.Node, gs []guard)
	walk = func(node ast.Node, gs []guard) {
		ast.Inspect(node, func(x ast.Node) bool {
			if x == node {
				return true
			}
			switch y := x.(type) {
			case *ast.IfStmt:
				// if v, ok := out[k]; ok { present } else { absent }
				key, okObj := "", types.Object(nil)
				if as, isAs := y.Init.(*ast.AssignStmt); isAs && len(as.Lhs) == 2 && len(as.Rhs) == 1 {
					if ix, isIx := ast.Unparen(as.Rhs[0]).(*ast.IndexExpr); isIx {
						if id, isId := ast.Unparen(ix.X).(*ast.Ident); isId && id.Name == "out" {
							key = types.ExprString(ix.Index)
							okObj = defOrUse(info, as.Lhs[1])
						}
					}
				}
				thenAbs, elseAbs := false, false
				if key != "" && okObj != nil {
					switch c := ast.Unparen(y.Cond).(type) {
					case *ast.Ident:
						if info.Uses[c] == okObj {
							elseAbs = true
						}
					case *ast.UnaryExpr:
						if id, isId := ast.Unparen(c.X).(*ast.Ident); isId && c.Op == token.NOT && info.Uses[id] == okObj {
							thenAbs = true
						}
					}
				}
				walk(y.Body, append(append([]guard{}, gs...), guard{key, thenAbs}))
				if y.Else != nil {
					walk(y.Else, append(append([]guard{}, gs...), guard{key, elseAbs}))
				}
				return false
			case *ast.AssignStmt:
				for i, l := range y.Lhs {
					ix, isIx := ast.Unparen(l).(*ast.IndexExpr)
					if !isIx || i >= len(y.Rhs) {
						continue
					}
					if id, isId := ast.Unparen(ix.X).(*ast.Ident); !isId || id.Name != "out" {
						continue
					}
					cl, isLit := ast.Unparen(y.Rhs[i]).(*ast.CompositeLit)
					if !isLit {
						continue // append(x, …) and the like extend the entry
					}
					all := false
					for _, el := range cl.Elts {
						if tv, ok := info.Types[el]; ok && tv.Value != nil && tv.Value.ExactString() == `"*"` {
							all = true
						}
					}
					if all {
						continue
					}
					n++
					k := types.ExprString(ix.Index)
					key := fmt.Sprintf("%s|out[%s]=%s#%d", fkey, k, types.ExprString(cl), n)
					absent := false
					for _, g := range gs {
						if g.key == k && g.absent {
							absent = true
						}
					}
					if absent {
						res.OK(rule, key, p.Pos(y.Pos()), "assigned only where the entry was absent")
					} else {
						res.Bad(rule, key, p.Pos(y.Pos()), fmt.Sprintf("%s sets out[%s] to %s at %s on a path where the entry may already exist: a requirement recorded by a later statement of the same step (has(), render …) is thrown away, the step is compiled with loadData=false and those statements see elements without properties", fkey, k, types.ExprString(cl), p.Pos(y.Pos())))
					}
				}
			}
			return true
		})
	}
	walk(fi.Decl.Body, nil)
	if n == 0 {
		res.OKTrivial(rule, fkey+"|no partial assignment", p.Pos(fi.Decl.Pos()), "no entry is ever set to less than everything")
	}
}
