package props

import (
	"fmt"
	"go/ast"
	"go/token"
	"go/types"
	"sort"
	"strings"

	"gripverif/core"
)

// Rules L6–L8 of C02: shape conditions of the load-elision analysis and of the
// index-start rewrite that every answer-preserving version must satisfy.

func init() {
	SelfTests["C02"] = c02selftest
}

// ---------------------------------------------------------------- L6

// stepIDKind classifies what a call or field yields: a list of step ids
// ("steps"), a mark→step-id map ("as"), a step-id→outputs map ("outs") or a
// single step id ("id").
func stepIDSource(info *types.Info, e ast.Expr) string {
	switch x := ast.Unparen(e).(type) {
	case *ast.CallExpr:
		fn := core.CalleeFunc(info, x)
		if fn == nil || fn.Pkg() == nil || !strings.HasSuffix(fn.Pkg().Path(), "engine/inspect") {
			return ""
		}
		switch fn.Name() {
		case "PipelineSteps":
			return "steps"
		case "PipelineAsSteps":
			return "as"
		case "PipelineStepOutputs":
			return "outs"
		}
	case *ast.SelectorExpr:
		sel := info.Selections[x]
		if sel == nil || sel.Kind() != types.FieldVal {
			return ""
		}
		f := sel.Obj()
		if f.Pkg() == nil || !strings.HasSuffix(f.Pkg().Path(), "engine/pipeline") {
			return ""
		}
		recv := sel.Recv()
		if pt, ok := recv.(*types.Pointer); ok {
			recv = pt.Elem()
		}
		if nn, ok := types.Unalias(recv).(*types.Named); !ok || nn.Obj().Name() != "State" {
			return ""
		}
		switch f.Name() {
		case "Steps":
			return "steps"
		case "StepOutputs":
			return "outs"
		case "CurStep":
			return "id"
		}
	}
	return ""
}

// c02stepOrder (L6): step ids are decimal renderings of a counter; comparing
// them with < <= > >= (or strings.Compare) orders "10" before "9".
func c02stepOrder(p *core.Prog, res *core.Result, fis []*core.FuncInfo, rule string) (sinks int) {
	for _, fi := range fis {
		if fi.Decl == nil || fi.Decl.Body == nil {
			continue
		}
		info := fi.Pkg.TypesInfo
		fkey := core.FuncKey(fi.Obj)
		cont := map[types.Object]string{}
		ids := map[types.Object]bool{}
		var kindOf func(e ast.Expr) string
		kindOf = func(e ast.Expr) string {
			e = ast.Unparen(e)
			if k := stepIDSource(info, e); k != "" {
				return k
			}
			switch x := e.(type) {
			case *ast.Ident:
				if o := info.Uses[x]; o != nil {
					if ids[o] {
						return "id"
					}
					return cont[o]
				}
			case *ast.IndexExpr:
				switch kindOf(x.X) {
				case "steps", "as":
					return "id"
				}
			case *ast.SliceExpr:
				if kindOf(x.X) == "steps" {
					return "steps"
				}
			}
			return ""
		}
		bind := func(lhs ast.Expr, k string) bool {
			o := defOrUse(info, lhs)
			if o == nil || k == "" {
				return false
			}
			if k == "id" {
				if !ids[o] {
					ids[o] = true
					return true
				}
				return false
			}
			if cont[o] != k {
				cont[o] = k
				return true
			}
			return false
		}
		for changed, round := true, 0; changed && round < 6; round++ {
			changed = false
			ast.Inspect(fi.Decl.Body, func(n ast.Node) bool {
				switch s := n.(type) {
				case *ast.AssignStmt:
					if len(s.Rhs) == 1 && len(s.Lhs) >= 1 {
						if bind(s.Lhs[0], kindOf(s.Rhs[0])) {
							changed = true
						}
					} else if len(s.Rhs) == len(s.Lhs) {
						for i := range s.Lhs {
							if bind(s.Lhs[i], kindOf(s.Rhs[i])) {
								changed = true
							}
						}
					}
				case *ast.ValueSpec:
					for i, nm := range s.Names {
						if i < len(s.Values) && bind(nm, kindOf(s.Values[i])) {
							changed = true
						}
					}
				case *ast.RangeStmt:
					switch kindOf(s.X) {
					case "steps", "as":
						if s.Value != nil && bind(s.Value, "id") {
							changed = true
						}
					case "outs":
						if s.Key != nil && bind(s.Key, "id") {
							changed = true
						}
					}
				}
				return true
			})
		}
		isStr := func(e ast.Expr) bool {
			t := info.TypeOf(e)
			if t == nil {
				return false
			}
			b, ok := t.Underlying().(*types.Basic)
			return ok && b.Info()&types.IsString != 0
		}
		n := 0
		ast.Inspect(fi.Decl.Body, func(x ast.Node) bool {
			switch y := x.(type) {
			case *ast.BinaryExpr:
				switch y.Op {
				case token.LSS, token.LEQ, token.GTR, token.GEQ:
					if (kindOf(y.X) == "id" && isStr(y.X)) || (kindOf(y.Y) == "id" && isStr(y.Y)) {
						n++
						sinks++
						res.Bad(rule, fmt.Sprintf("%s|ordered#%d", fkey, n), p.Pos(y.Pos()), fmt.Sprintf("%s orders step ids as strings (%s): step ids are decimal renderings of a counter (PipelineSteps: fmt.Sprintf(\"%%d\", …)), so \"10\" sorts before \"9\" and from the tenth element-moving step on the comparison gives the opposite answer — the load decision of a traversal then depends on its length", fkey, types.ExprString(y)))
					}
				}
			case *ast.CallExpr:
				if fn := core.CalleeFunc(info, y); fn != nil && fn.Pkg() != nil && fn.Pkg().Path() == "strings" && fn.Name() == "Compare" {
					for _, a := range y.Args {
						if kindOf(a) == "id" {
							n++
							sinks++
							res.Bad(rule, fmt.Sprintf("%s|ordered#%d", fkey, n), p.Pos(y.Pos()), fmt.Sprintf("%s orders step ids with strings.Compare: \"10\" sorts before \"9\"", fkey))
							break
						}
					}
				}
			}
			return true
		})
		if len(cont)+len(ids) > 0 && n == 0 {
			res.OK(rule, fkey+"|no ordering of step ids", p.Pos(fi.Decl.Pos()), fmt.Sprintf("%d step-id containers and %d step-id variables, used only for equality and lookup", len(cont), len(ids)))
		}
	}
	return
}

// ---------------------------------------------------------------- L7

type oneofInfo struct {
	iface   *types.Named
	parent  string            // message that holds the oneof ("Aggregate")
	members map[string]types.Type // member name ("Term") -> payload type
}

// oneofsOf lists the oneof marker interfaces of a protobuf package and their wrappers.
func oneofsOf(pkg *types.Package) map[string]*oneofInfo {
	out := map[string]*oneofInfo{}
	sc := pkg.Scope()
	for _, n := range sc.Names() {
		tn, ok := sc.Lookup(n).(*types.TypeName)
		if !ok {
			continue
		}
		nn, ok := tn.Type().(*types.Named)
		if !ok || !types.IsInterface(nn) || !strings.HasPrefix(n, "is") {
			continue
		}
		out[n] = &oneofInfo{iface: nn, members: map[string]types.Type{}}
	}
	for _, n := range sc.Names() {
		tn, ok := sc.Lookup(n).(*types.TypeName)
		if !ok {
			continue
		}
		nn, ok := tn.Type().(*types.Named)
		if !ok || types.IsInterface(nn) {
			continue
		}
		i := strings.LastIndex(n, "_")
		if i <= 0 {
			continue
		}
		st, ok := nn.Underlying().(*types.Struct)
		if !ok || st.NumFields() != 1 {
			continue
		}
		for _, oi := range out {
			if types.Implements(types.NewPointer(nn), oi.iface.Underlying().(*types.Interface)) {
				oi.parent = n[:i]
				oi.members[n[i+1:]] = st.Field(0).Type()
			}
		}
	}
	for k, oi := range out {
		if len(oi.members) == 0 {
			delete(out, k)
		}
	}
	return out
}

// carriesText: can a value of this type hold a client string (a field path)?
func carriesText(t types.Type, oneofs map[string]*oneofInfo, seen map[types.Type]bool) bool {
	t = types.Unalias(t)
	if seen[t] {
		return false
	}
	seen[t] = true
	switch x := t.(type) {
	case *types.Basic:
		return x.Info()&types.IsString != 0
	case *types.Pointer:
		return carriesText(x.Elem(), oneofs, seen)
	case *types.Slice:
		return carriesText(x.Elem(), oneofs, seen)
	case *types.Array:
		return carriesText(x.Elem(), oneofs, seen)
	case *types.Map:
		return carriesText(x.Key(), oneofs, seen) || carriesText(x.Elem(), oneofs, seen)
	case *types.Named:
		if x.Obj().Pkg() != nil && strings.HasSuffix(x.Obj().Pkg().Path(), "structpb") {
			return true // Value / Struct / ListValue hold arbitrary client JSON
		}
		if oi, ok := oneofs[x.Obj().Name()]; ok && types.IsInterface(x) {
			for _, pt := range oi.members {
				if carriesText(pt, oneofs, seen) {
					return true
				}
			}
			return false
		}
		if st, ok := x.Underlying().(*types.Struct); ok {
			for i := 0; i < st.NumFields(); i++ {
				if f := st.Field(i); f.Exported() && carriesText(f.Type(), oneofs, seen) {
					return true
				}
			}
			return false
		}
		return carriesText(x.Underlying(), oneofs, seen)
	}
	return false
}

// c02members (L7): a function of the load-elision analysis that looks into a
// oneof of a statement's payload (has-expression, aggregation) looks into every
// member that can carry a field path.
func c02members(p *core.Prog, res *core.Result, fis []*core.FuncInfo, gripql *types.Package, rule string) (groups int) {
	oneofs := oneofsOf(gripql)
	byParent := map[string]*oneofInfo{}
	for _, oi := range oneofs {
		byParent[oi.parent] = oi
	}
	for _, fi := range fis {
		if fi.Decl == nil || fi.Decl.Body == nil {
			continue
		}
		info := fi.Pkg.TypesInfo
		fkey := core.FuncKey(fi.Obj)
		covered := map[*oneofInfo]map[string]bool{}
		all := map[*oneofInfo]bool{}
		first := map[*oneofInfo]token.Pos{}
		note := func(oi *oneofInfo, m string, pos token.Pos) {
			if covered[oi] == nil {
				covered[oi] = map[string]bool{}
				first[oi] = pos
			}
			if m != "" {
				covered[oi][m] = true
			}
		}
		ast.Inspect(fi.Decl.Body, func(n ast.Node) bool {
			switch x := n.(type) {
			case *ast.TypeSwitchStmt:
				var tag ast.Expr
				switch a := x.Assign.(type) {
				case *ast.ExprStmt:
					if ta, ok := a.X.(*ast.TypeAssertExpr); ok {
						tag = ta.X
					}
				case *ast.AssignStmt:
					if len(a.Rhs) == 1 {
						if ta, ok := a.Rhs[0].(*ast.TypeAssertExpr); ok {
							tag = ta.X
						}
					}
				}
				if tag == nil {
					return true
				}
				nn, ok := types.Unalias(info.TypeOf(tag)).(*types.Named)
				if !ok {
					return true
				}
				oi := oneofs[nn.Obj().Name()]
				if oi == nil || nn.Obj().Pkg() != gripql || oi.parent == "GraphStatement" {
					return true
				}
				note(oi, "", x.Pos())
				for _, c := range x.Body.List {
					cc := c.(*ast.CaseClause)
					if cc.List == nil {
						if len(cc.Body) > 0 {
							all[oi] = true
						}
						continue
					}
					for _, e := range cc.List {
						ct := info.TypeOf(e)
						if pt, ok := ct.(*types.Pointer); ok {
							ct = pt.Elem()
						}
						if cn, ok := types.Unalias(ct).(*types.Named); ok {
							name := cn.Obj().Name()
							if i := strings.LastIndex(name, "_"); i > 0 {
								note(oi, name[i+1:], x.Pos())
							}
						}
					}
				}
			case *ast.TypeAssertExpr:
				// single assertion x.(*P_M)
				if x.Type == nil {
					return true
				}
				ct := info.TypeOf(x.Type)
				if pt, ok := ct.(*types.Pointer); ok {
					ct = pt.Elem()
				}
				if cn, ok := types.Unalias(ct).(*types.Named); ok && cn.Obj().Pkg() == gripql {
					name := cn.Obj().Name()
					if i := strings.LastIndex(name, "_"); i > 0 {
						if oi := byParent[name[:i]]; oi != nil && oi.parent != "GraphStatement" {
							if _, isMember := oi.members[name[i+1:]]; isMember {
								note(oi, name[i+1:], x.Pos())
							}
						}
					}
				}
			case *ast.CallExpr:
				fn := core.CalleeFunc(info, x)
				if fn == nil || fn.Pkg() != gripql || !strings.HasPrefix(fn.Name(), "Get") {
					return true
				}
				sig, _ := fn.Type().(*types.Signature)
				if sig == nil || sig.Recv() == nil {
					return true
				}
				rt := sig.Recv().Type()
				if pt, ok := rt.(*types.Pointer); ok {
					rt = pt.Elem()
				}
				rn, ok := types.Unalias(rt).(*types.Named)
				if !ok {
					return true
				}
				oi := byParent[rn.Obj().Name()]
				if oi == nil || oi.parent == "GraphStatement" {
					return true
				}
				m := strings.TrimPrefix(fn.Name(), "Get")
				if _, isMember := oi.members[m]; isMember {
					note(oi, m, x.Pos())
				}
			}
			return true
		})
		var ois []*oneofInfo
		for oi := range covered {
			ois = append(ois, oi)
		}
		sort.Slice(ois, func(i, j int) bool { return ois[i].parent < ois[j].parent })
		for _, oi := range ois {
			groups++
			var missing, req []string
			for m, pt := range oi.members {
				if !carriesText(pt, oneofs, map[types.Type]bool{}) {
					continue
				}
				req = append(req, m)
				if !all[oi] && !covered[oi][m] {
					missing = append(missing, m)
				}
			}
			sort.Strings(missing)
			sort.Strings(req)
			key := fmt.Sprintf("%s|oneof %s", fkey, oi.parent)
			if len(missing) == 0 {
				res.OK(rule, key, p.Pos(first[oi]), fmt.Sprintf("looks into every member of %s that can carry a field path (%s)", oi.parent, strings.Join(req, ", ")))
			} else {
				res.Bad(rule, key, p.Pos(first[oi]), fmt.Sprintf("%s decides which elements must be loaded by looking into the members of %s, but never looks into %s, which can carry a field path too: a path naming a mark (\"$a.field\") under that member does not mark the step where the mark was set, that step is compiled with loadData=false and on the embedded driver an edge mark resolves the path to null", fkey, oi.parent, strings.Join(missing, ", ")))
			}
		}
	}
	return
}

// ---------------------------------------------------------------- L8

// c02startIDs (L8): an optimiser that builds a replacement start statement reads the id list of the
// V() it replaces.
func c02startIDs(p *core.Prog, res *core.Result, fi *core.FuncInfo, rule string) {
	info := fi.Pkg.TypesInfo
	fkey := core.FuncKey(fi.Obj)
	builds := false
	reads := false
	var stack []ast.Node
	isVField := func(e ast.Expr) bool {
		switch x := ast.Unparen(e).(type) {
		case *ast.SelectorExpr:
			if sel := info.Selections[x]; sel != nil && sel.Kind() == types.FieldVal && sel.Obj().Name() == "V" {
				rt := sel.Recv()
				if pt, ok := rt.(*types.Pointer); ok {
					rt = pt.Elem()
				}
				if nn, ok := types.Unalias(rt).(*types.Named); ok && nn.Obj().Name() == "GraphStatement_V" {
					return true
				}
			}
		case *ast.CallExpr:
			if fn := core.CalleeFunc(info, x); fn != nil && fn.Name() == "GetV" && len(x.Args) == 0 {
				return true
			}
		}
		return false
	}
	ast.Inspect(fi.Decl.Body, func(n ast.Node) bool {
		if n == nil {
			stack = stack[:len(stack)-1]
			return true
		}
		stack = append(stack, n)
		if cl, ok := n.(*ast.CompositeLit); ok {
			if nn, ok := types.Unalias(info.TypeOf(cl)).(*types.Named); ok {
				switch nn.Obj().Name() {
				case "GraphStatement_V", "GraphStatement_LookupVertsIndex":
					builds = true
				}
			}
		}
		if e, ok := n.(ast.Expr); ok && isVField(e) && len(stack) >= 2 {
			switch par := stack[len(stack)-2].(type) {
			case *ast.SelectorExpr: // v.V.Values, v.V.GetValues
				reads = true
			case *ast.CallExpr: // AsStringList(v.V), len(...)
				for _, a := range par.Args {
					if a == e {
						reads = true
					}
				}
			case *ast.RangeStmt:
				reads = true
			case *ast.AssignStmt: // ids := v.V — followed
				reads = true
			}
		}
		return true
	})
	if !builds {
		res.OKTrivial(rule, fkey+"|start ids", p.Pos(fi.Decl.Pos()), "builds no replacement start statement")
		return
	}
	if reads {
		res.OK(rule, fkey+"|start ids", p.Pos(fi.Decl.Pos()), "the id list of the V() statement it replaces is read")
	} else {
		res.Bad(rule, fkey+"|start ids", p.Pos(fi.Decl.Pos()), fmt.Sprintf("%s builds a replacement start statement (V(ids) / index lookup) and leaves out the original first statement, but never reads the id list of that V(): V(\"a\").hasLabel(\"L\") is rewritten to a label-index scan and answers with every vertex of the label instead of at most \"a\"", fkey))
	}
}

// ---------------------------------------------------------------- driver part + self-test

func c02extra(p *core.Prog, res *core.Result) {
	res.Rule("L6", "step ids (decimal renderings of a counter) are compared for equality only, never ordered as strings", 2)
	res.Rule("L7", "a function of the load-elision analysis that looks into a oneof of a statement's payload looks into every member that can carry a field path", 0)
	res.Rule("L8", "an optimiser that builds a replacement start statement reads the id list of the V() it replaces", 1)
	var fis, insp []*core.FuncInfo
	for _, fi := range p.AllDecls() {
		path := fi.Pkg.PkgPath
		if strings.HasSuffix(fi.Pkg.Fset.Position(fi.Decl.Pos()).Filename, "_test.go") {
			continue
		}
		if strings.HasSuffix(path, "engine/inspect") || strings.HasSuffix(path, "engine/pipeline") || strings.HasSuffix(path, "engine/core") {
			fis = append(fis, fi)
		}
		if strings.HasSuffix(path, "engine/inspect") {
			insp = append(insp, fi)
		}
	}
	c02stepOrder(p, res, fis, "L6")
	gq := p.Pkg("gripql")
	if gq == nil {
		res.Fail("package gripql not loaded")
		return
	}
	if n := len(oneofsOf(gq.Types)); n < 3 {
		res.Fail("only %d oneofs recognised in gripql", n)
	}
	if c02members(p, res, insp, gq.Types, "L7") == 0 {
		res.OKTrivial("L7", "engine/inspect|no oneof inspected", "-", "the load-elision analysis requests everything for the statement kinds that carry oneofs (has, aggregate)")
	}
	if iso := p.Func("engine/core", "IndexStartOptimize"); iso != nil {
		res.Fn(core.FuncKey(iso.Obj))
		c02startIDs(p, res, iso, "L8")
	} else {
		res.Unres("L8", "engine/core.IndexStartOptimize", "-", "function not found")
	}
}

func c02selftest(st *core.Prog, res *core.Result) {
	pk := st.Pkg(core.SelfMod + "/c02")
	if pk == nil {
		res.Fail("C02 self-test package did not load")
		return
	}
	var gq *types.Package
	for _, imp := range pk.Types.Imports() {
		if strings.HasSuffix(imp.Path(), "/gripql") {
			gq = imp
		}
	}
	if gq == nil {
		res.Fail("C02 self-test: gripql not imported")
		return
	}
	var fis []*core.FuncInfo
	for _, fi := range st.AllDecls() {
		if fi.Pkg == pk {
			fis = append(fis, fi)
		}
	}
	tmp := core.NewResult("C02", "self")
	c02stepOrder(st, tmp, fis, "L6")
	c02members(st, tmp, fis, gq, "L7")
	for _, fi := range fis {
		if strings.Contains(fi.Obj.Name(), "Start") {
			c02startIDs(st, tmp, fi, "L8")
		}
	}
	c02monotoneNamed(st, tmp, fis)
	n := 0
	verdict := map[string]core.Status{}
	for _, o := range tmp.Obls {
		parts := strings.Split(o.Key, "|")
		if len(parts) < 2 {
			continue
		}
		name := parts[1][strings.LastIndex(parts[1], ".")+1:]
		k := parts[0] + "|" + name
		if o.Status == core.Violated || verdict[k] == "" {
			verdict[k] = o.Status
		}
	}
	var keys []string
	for k := range verdict {
		keys = append(keys, k)
	}
	sort.Strings(keys)
	for _, k := range keys {
		name := k[strings.Index(k, "|")+1:]
		var want core.Status
		switch {
		case strings.HasPrefix(name, "Ok"):
			want = core.Discharged
		case strings.HasPrefix(name, "Bad"):
			want = core.Violated
		default:
			continue
		}
		// a Bad example is written for one rule only: BadL6…, BadL7…, BadL8…, BadL5…
		if want == core.Violated && !strings.HasPrefix(name, "Bad"+strings.Split(k, "|")[0]) {
			continue
		}
		n++
		if verdict[k] != want {
			res.Fail("self-test %s: gave %s, expected %s", k, verdict[k], want)
		} else {
			res.OKTrivial("SELF", "selftest|c02."+k, "-", "gives "+string(verdict[k])+" as expected")
		}
	}
	if n < 10 {
		res.Fail("C02 self-test: only %d examples decided", n)
	}
}

// c02monotoneNamed runs L5 on the self-test functions named *L5*.
func c02monotoneNamed(st *core.Prog, tmp *core.Result, fis []*core.FuncInfo) {
	for _, fi := range fis {
		if strings.Contains(fi.Obj.Name(), "L5") {
			c02monotone(st, tmp, fi, "L5")
		}
	}
}
