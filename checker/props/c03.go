package props

import (
	"fmt"
	"go/ast"
	"go/token"
	"go/types"
	"sort"
	"strings"

	"gripverif/core"

	"golang.org/x/tools/go/cfg"
)

func init() {
	Registry["C03"] = c03
	SelfTests["C03"] = c03selftest
}

const (
	pkgTimestamp = core.ModPath + "/timestamp"
	pkgGripql    = core.ModPath + "/gripql"
	pkgGdbi      = core.ModPath + "/gdbi"
	pkgKvi       = core.ModPath + "/kvi"
)

// kvSyncInvoker: methods that run their callback synchronously and return its error.
func kvSyncInvoker(p *core.Prog) func(fn *types.Func) bool {
	kvIface := p.Iface("kvi", "KVInterface")
	return func(fn *types.Func) bool {
		switch fn.Name() {
		case "BulkWrite", "Update", "View":
		default:
			return false
		}
		n := core.RecvNamed(fn)
		if n == nil || kvIface == nil {
			return false
		}
		if types.IsInterface(n) {
			return n.Obj().Name() == "KVInterface" && n.Obj().Pkg().Path() == pkgKvi
		}
		return types.Implements(types.NewPointer(n), kvIface) || types.Implements(n, kvIface)
	}
}

// storeWrite recognises calls that modify a backing store.
func storeWrite(fn *types.Func) bool {
	if fn == nil {
		return false
	}
	n := core.RecvNamed(fn)
	if n == nil || n.Obj().Pkg() == nil {
		return false
	}
	pkg, tn, name := n.Obj().Pkg().Path(), n.Obj().Name(), fn.Name()
	switch {
	case strings.HasPrefix(pkg, pkgKvi):
		return name == "Set" || name == "Delete" || name == "DeletePrefix"
	case pkg == "go.mongodb.org/mongo-driver/mongo" && tn == "Collection":
		switch name {
		case "InsertOne", "InsertMany", "BulkWrite", "UpdateOne", "UpdateMany", "UpdateByID", "ReplaceOne", "DeleteOne", "DeleteMany", "Drop",
			"FindOneAndDelete", "FindOneAndReplace", "FindOneAndUpdate":
			return true
		}
	case pkg == "database/sql" || pkg == "github.com/jmoiron/sqlx":
		switch name {
		case "Exec", "ExecContext", "MustExec", "NamedExec", "Commit":
			return true
		}
	case strings.HasPrefix(pkg, "github.com/olivere/elastic") || strings.HasPrefix(pkg, "gopkg.in/olivere/elastic"):
		if name == "Do" {
			for _, pre := range []string{"Bulk", "Delete", "Index", "Update", "IndicesCreate", "IndicesDelete", "Reindex"} {
				if strings.HasPrefix(tn, pre) {
					return true
				}
			}
		}
	case pkg == "github.com/akrylysov/pogreb" && tn == "DB":
		return name == "Put" || name == "Delete"
	}
	return false
}

// touchEvent tracks two facts along a path: "touched" (Timestamp.Touch was
// called) and "ok" (no store write has happened, or Touch was called on the
// path — the order of Touch and the writes inside one method is not
// constrained by the property, which is about what a client sees after the
// call returns).
func touchEvent(info *types.Info, call *ast.CallExpr, held map[string]bool) ([]string, bool) {
	fn := core.CalleeFunc(info, call)
	if core.IsMethodOf(fn, pkgTimestamp, "Timestamp", "Touch") {
		return []string{"touched", "ok"}, false
	}
	if storeWrite(fn) && !held["touched"] {
		return []string{"-ok"}, false
	}
	return nil, false
}

func newTouchMust(p *core.Prog) *core.Must {
	return &core.Must{P: p, Facts: []string{"ok", "touched"}, Event: touchEvent, SyncInvoker: kvSyncInvoker(p), MaxDepth: 4}
}

// mustTouch checks rule R1 on one mutating method: every path to a
// possibly-nil return that performs a store write also calls Timestamp.Touch.
func mustTouch(p *core.Prog, res *core.Result, m *core.Must, fi *core.FuncInfo, rule string) {
	key := core.FuncKey(fi.Obj)
	res.Fn(key)
	sig := fi.Obj.Type().(*types.Signature)
	exits := m.Analyse(fi.Pkg.TypesInfo, fi.Decl.Body, sig, []string{"ok"})
	nilExits, bad := 0, 0
	for _, ex := range exits {
		if ex.NilErr == core.No {
			continue
		}
		nilExits++
		if !ex.Held["ok"] {
			bad++
			res.Bad(rule, key, p.Pos(ex.Pos), fmt.Sprintf("%s can return a nil error at %s on a path that writes to the store but never calls Timestamp.Touch: a client polling GetTimestamp sees no change after a successful mutation and keeps stale cached results", key, p.Pos(ex.Pos)), ex.Trace...)
		}
	}
	if bad == 0 {
		if nilExits == 0 {
			res.OKTrivial(rule, key, p.Pos(fi.Decl.Pos()), "refuses the operation on every path (no possibly-nil return)")
		} else {
			res.OK(rule, key, p.Pos(fi.Decl.Pos()), fmt.Sprintf("%d possibly-nil exit(s); every path to them that writes also touches", nilExits))
		}
	}
}

var graphMutators = []string{"AddVertex", "AddEdge", "BulkAdd", "DelVertex", "DelEdge"}
var dbMutators = []string{"AddGraph", "DeleteGraph"}

func c03(p *core.Prog, res *core.Result) {
	res.Explanation = "C03 (structural clauses): R1 must-Touch — in every implementation of the mutating interface methods " +
		"(GraphInterface.{AddVertex,AddEdge,BulkAdd,DelVertex,DelEdge}, GraphDB.{AddGraph,DeleteGraph}) every exit that may return a nil error is preceded by Timestamp.Touch " +
		"(forward must-dataflow on go/cfg, error-variable refinement, summaries of synchronous kv callbacks and of callees). " +
		"R2 validation dominates storage — in package server every call of GraphInterface.AddVertex/AddEdge, every send on a channel handed to GraphInterface.BulkAdd and every GraphDB.AddGraph call " +
		"is dominated by a checked Validate / ValidateGraphName, or the driver validates before its first store write. " +
		"R3 key-kind typing and key families of the embedded driver — exact-key operations (Set/Delete/Get/HasKey) receive full keys, prefix operations (DeletePrefix/Seek/HasPrefix) receive prefixes; " +
		"every key family written by an insert is deleted by the matching delete and by DeleteGraph."
	res.NotDecided = []string{"last-write-wins when an id is re-added with other endpoints/label (value-level)", "cascade correctness and graph isolation beyond key families",
		"that the timestamp changes at no other time"}
	res.Assumptions = []string{"kvi.KVInterface.{BulkWrite,Update,View} run their callback synchronously and return nil only if it did (C10 checks the drivers)"}
	res.Rule("R1", "in every mutating method every path to a possibly-nil return that writes to the store also calls Timestamp.Touch", 7)
	res.Rule("R2", "a checked Validate dominates every hand-over of a client element/graph name to a driver (or the driver validates before writing)", 4)

	gi := p.Iface("gdbi", "GraphInterface")
	gdb := p.Iface("gdbi", "GraphDB")
	if gi == nil || gdb == nil {
		res.Fail("gdbi.GraphInterface / gdbi.GraphDB not found")
		return
	}
	count := 0
	inScope := func(n *types.Named) bool {
		if res.Tier == "thorough" {
			return true
		}
		// quick: the embedded key-value drivers (the property's anchors); thorough: every driver
		rel := core.RelPkg(n.Obj().Pkg().Path())
		return rel == "kvgraph" || rel == "grids"
	}
	m := newTouchMust(p)
	res.Rule("R1T", "GetTimestamp of each driver reads the Timestamp its mutators touch", 2)
	res.Rule("R1S", "the change token written by Touch comes from the finest clock reading or a counter", 1)
	c03stamp(p, res, "R1S")
	readsTS := map[string]bool{}
	for _, impl := range p.Implementers(gi) {
		if !inScope(impl) {
			continue
		}
		rel := core.RelPkg(impl.Obj().Pkg().Path())
		gt := p.Method(impl, "GetTimestamp")
		if gt == nil || gt.Decl.Body == nil {
			continue
		}
		// a read-only driver (every mutator refuses on every path) has nothing to report
		readOnly := true
		for _, name := range graphMutators {
			if fi := p.Method(impl, name); fi != nil && fi.Decl.Body != nil {
				for _, ex := range m.Analyse(fi.Pkg.TypesInfo, fi.Decl.Body, fi.Obj.Type().(*types.Signature), []string{"ok"}) {
					if ex.NilErr != core.No {
						readOnly = false
					}
				}
			}
		}
		if readOnly {
			res.OKTrivial("R1T", core.FuncKey(gt.Obj), p.Pos(gt.Decl.Pos()), "read-only driver: every mutator refuses")
			continue
		}
		reads := false
		for _, c := range core.CallsIn(gt.Decl.Body) {
			if core.IsMethodOf(core.CalleeFunc(gt.Pkg.TypesInfo, c), pkgTimestamp, "Timestamp", "Get") {
				reads = true
			}
		}
		readsTS[rel] = reads
		res.Fn(core.FuncKey(gt.Obj))
		if reads {
			res.OK("R1T", core.FuncKey(gt.Obj), p.Pos(gt.Decl.Pos()), "returns Timestamp.Get")
		} else {
			res.Bad("R1T", core.FuncKey(gt.Obj), p.Pos(gt.Decl.Pos()), core.FuncKey(gt.Obj)+" does not read the Timestamp the driver's mutators touch: the reported timestamp never changes after a mutation, so clients reuse stale cached results")
		}
	}
	for _, impl := range p.Implementers(gi) {
		if !inScope(impl) || !readsTS[core.RelPkg(impl.Obj().Pkg().Path())] {
			continue
		}
		for _, name := range graphMutators {
			if fi := p.Method(impl, name); fi != nil && fi.Decl.Body != nil {
				mustTouch(p, res, m, fi, "R1")
				count++
			}
		}
	}
	for _, impl := range p.Implementers(gdb) {
		if !inScope(impl) || !readsTS[core.RelPkg(impl.Obj().Pkg().Path())] {
			continue
		}
		for _, name := range dbMutators {
			if fi := p.Method(impl, name); fi != nil && fi.Decl.Body != nil {
				mustTouch(p, res, m, fi, "R1")
				count++
			}
		}
	}
	res.Extra["mutating_methods"] = count
	c03validate(p, res, gi, gdb)
	c03keys(p, res)
}

// validateEvent recognises checked validation calls.
func validateEvent(info *types.Info, call *ast.CallExpr) (string, bool) {
	fn := core.CalleeFunc(info, call)
	if fn == nil {
		return "", false
	}
	if fn.Name() == "Validate" {
		if n := core.RecvNamed(fn); n != nil && n.Obj().Pkg() != nil && (n.Obj().Pkg().Path() == pkgGripql || n.Obj().Pkg().Path() == pkgGdbi) {
			return "validate:" + n.Obj().Name(), true
		}
	}
	if fn.Name() == "ValidateGraphName" && fn.Pkg() != nil && fn.Pkg().Path() == pkgGripql {
		return "validate:graphname", true
	}
	return "", false
}

// isKVWrite: Set/Delete/DeletePrefix on a kvi interface or driver type.
func isKVWrite(fn *types.Func) bool {
	switch fn.Name() {
	case "Set", "Delete", "DeletePrefix":
	default:
		return false
	}
	n := core.RecvNamed(fn)
	if n == nil || n.Obj().Pkg() == nil {
		return false
	}
	return strings.HasPrefix(n.Obj().Pkg().Path(), pkgKvi)
}

func c03validate(p *core.Prog, res *core.Result, gi, gdb *types.Interface) {
	sp := p.Pkg("server")
	if sp == nil {
		res.Fail("package server not found")
		return
	}
	info := sp.TypesInfo
	// which drivers validate by themselves
	drvV := map[string]map[string]bool{} // method -> driver -> validates
	for _, name := range []string{"AddVertex", "AddEdge", "BulkAdd"} {
		drvV[name] = map[string]bool{}
		for _, impl := range p.Implementers(gi) {
			fi := p.Method(impl, name)
			if fi == nil {
				continue
			}
			// a driver validates when every kv write under the method follows a checked
			// Validate; drivers without kvi writes are treated as not validating.
			ok, total := driverValidatesAny(p, fi)
			drvV[name][core.TypeKey(impl)] = ok && total > 0
		}
	}
	res.Extra["drivers_validating_before_write"] = drvV

	notValidating := func(method string) []string {
		var out []string
		for d, v := range drvV[method] {
			if !v {
				out = append(out, d)
			}
		}
		sort.Strings(out)
		return out
	}
	sites := 0
	for _, f := range sp.Syntax {
		for _, d := range f.Decls {
			fd, ok := d.(*ast.FuncDecl)
			if !ok || fd.Body == nil {
				continue
			}
			fobj, _ := info.Defs[fd.Name].(*types.Func)
			fkey := core.FuncKey(fobj)
			// channels handed to GraphInterface.BulkAdd inside this function
			bulkChans := map[types.Object]bool{}
			// parameters of `go func(p …){…}(arg …)` literals are bound to their arguments
			bound := map[types.Object]types.Object{}
			ast.Inspect(fd.Body, func(n ast.Node) bool {
				if g, ok := n.(*ast.GoStmt); ok {
					if lit, ok := g.Call.Fun.(*ast.FuncLit); ok {
						i := 0
						for _, f := range lit.Type.Params.List {
							for _, nm := range f.Names {
								if i < len(g.Call.Args) {
									if po, ao := info.Defs[nm], defOrUse(info, g.Call.Args[i]); po != nil && ao != nil {
										bound[po] = ao
									}
								}
								i++
							}
						}
					}
				}
				return true
			})
			ast.Inspect(fd.Body, func(n ast.Node) bool {
				if call, ok := n.(*ast.CallExpr); ok {
					if fn := core.CalleeFunc(info, call); fn != nil && fn.Name() == "BulkAdd" && isIfaceOrImpl(fn, gi) && len(call.Args) == 1 {
						if o := defOrUse(info, call.Args[0]); o != nil {
							bulkChans[o] = true
							if a, ok := bound[o]; ok {
								bulkChans[a] = true
							}
						}
					}
				}
				return true
			})
			relevant := false
			ast.Inspect(fd.Body, func(n ast.Node) bool {
				switch x := n.(type) {
				case *ast.CallExpr:
					if fn := core.CalleeFunc(info, x); fn != nil {
						if (fn.Name() == "AddVertex" || fn.Name() == "AddEdge") && isIfaceOrImpl(fn, gi) {
							relevant = true
						}
						if fn.Name() == "AddGraph" && isIfaceOrImpl(fn, gdb) {
							relevant = true
						}
					}
				case *ast.SendStmt:
					if o := defOrUse(info, x.Chan); o != nil && bulkChans[o] {
						relevant = true
					}
				}
				return true
			})
			if !relevant {
				continue
			}
			res.Fn(fkey)
			var run func(body *ast.BlockStmt)
			run = func(body *ast.BlockStmt) {
				fl := &core.Flow{Prog: p, Info: info, Body: body}
				fl.Events = func(n ast.Node, st *core.State) ([]string, bool) {
					for _, c := range core.CallsIn(n) {
						if ev, chk := validateEvent(info, c); ev != "" {
							return []string{ev}, chk
						}
					}
					return nil, false
				}
				fl.Run()
				fl.Walk(func(n ast.Node, st *core.State, b *cfg.Block) {
					check := func(pos token.Pos, what, want, method string) {
						sites++
						res.CallSites++
						key := fkey + "|" + what
						if st.Held[want] || (want == "validate:element" && (st.Held["validate:Vertex"] || st.Held["validate:Edge"])) {
							res.OK("R2", key, p.Pos(pos), "dominated by checked "+want)
							return
						}
						nv := notValidating(method)
						if method != "" && len(nv) == 0 {
							res.OK("R2", key, p.Pos(pos), "handler does not validate here but every driver validates before its first store write")
							return
						}
						res.Bad("R2", key, p.Pos(pos), fmt.Sprintf("%s hands a client-supplied element to the driver at %s without a checked %s on the path; drivers that do not validate themselves: %v — blank ids/labels or invalid names are stored instead of rejected",
							fkey, p.Pos(pos), want, nv), fl.TraceTo(b)...)
					}
					if s, ok := n.(*ast.SendStmt); ok {
						if o := defOrUse(info, s.Chan); o != nil && bulkChans[o] {
							check(s.Pos(), "send to BulkAdd stream", "validate:element", "BulkAdd")
						}
					}
					for _, c := range core.CallsIn(n) {
						fn := core.CalleeFunc(info, c)
						if fn == nil {
							continue
						}
						switch {
						case fn.Name() == "AddVertex" && isIfaceOrImpl(fn, gi):
							check(c.Pos(), "GraphInterface.AddVertex", "validate:Vertex", "AddVertex")
						case fn.Name() == "AddEdge" && isIfaceOrImpl(fn, gi):
							check(c.Pos(), "GraphInterface.AddEdge", "validate:Edge", "AddEdge")
						case fn.Name() == "AddGraph" && isIfaceOrImpl(fn, gdb):
							// the embedded driver validates the name itself; others may not
							if !st.Held["validate:graphname"] {
								sites++
								all := true
								for _, impl := range p.Implementers(gdb) {
									if fi := p.Method(impl, "AddGraph"); fi != nil && !validatesGraphNameFirst(p, fi) {
										all = false
									}
								}
								key := fkey + "|GraphDB.AddGraph"
								if all {
									res.OK("R2", key, p.Pos(c.Pos()), "every driver's AddGraph validates the name first")
								} else {
									res.Bad("R2", key, p.Pos(c.Pos()), fkey+" creates a graph without a checked ValidateGraphName and not every driver validates the name itself", fl.TraceTo(b)...)
								}
							} else {
								check(c.Pos(), "GraphDB.AddGraph", "validate:graphname", "")
							}
						}
					}
					// goroutine bodies and deferred closures
					ast.Inspect(n, func(x ast.Node) bool {
						if g, ok := x.(*ast.GoStmt); ok {
							if lit, ok := g.Call.Fun.(*ast.FuncLit); ok {
								run(lit.Body)
							}
							return false
						}
						return true
					})
				})
			}
			run(fd.Body)
		}
	}
	if sites < 4 {
		res.Fail("R2 found only %d driver hand-over sites in package server", sites)
	}
}

func validatesGraphNameFirst(p *core.Prog, fi *core.FuncInfo) bool {
	info := fi.Pkg.TypesInfo
	fl := &core.Flow{Prog: p, Info: info, Body: fi.Decl.Body}
	fl.Events = func(n ast.Node, st *core.State) ([]string, bool) {
		for _, c := range core.CallsIn(n) {
			if ev, chk := validateEvent(info, c); ev == "validate:graphname" {
				return []string{ev}, chk
			}
		}
		return nil, false
	}
	fl.Run()
	ok := true
	n := 0
	sig := fi.Obj.Type().(*types.Signature)
	fl.ExitStates(func(ret *ast.ReturnStmt, st *core.State, b *cfg.Block) {
		if fl.ErrResultNil(ret, st, sig) == core.No {
			return
		}
		n++
		if !st.Held["validate:graphname"] {
			ok = false
		}
	})
	return ok && n > 0
}

// driverValidatesAny: every kv write in the method's tree is dominated by a
// checked Validate of either element kind.
func driverValidatesAny(p *core.Prog, fi *core.FuncInfo) (bool, int) {
	v1, n1 := driverValidatesKinds(p, fi, 0, map[*types.Func]bool{})
	return v1, n1
}

func driverValidatesKinds(p *core.Prog, fi *core.FuncInfo, depth int, seen map[*types.Func]bool) (bool, int) {
	if fi == nil || fi.Decl.Body == nil || seen[fi.Obj] || depth > 3 {
		return true, 0
	}
	seen[fi.Obj] = true
	info := fi.Pkg.TypesInfo
	validated := true
	writes := 0
	var walk func(body *ast.BlockStmt)
	walk = func(body *ast.BlockStmt) {
		fl := &core.Flow{Prog: p, Info: info, Body: body}
		fl.Events = func(n ast.Node, st *core.State) ([]string, bool) {
			for _, c := range core.CallsIn(n) {
				if ev, chk := validateEvent(info, c); ev == "validate:Vertex" || ev == "validate:Edge" {
					return []string{"validate:any"}, chk
				}
			}
			return nil, false
		}
		fl.Run()
		fl.Walk(func(n ast.Node, st *core.State, b *cfg.Block) {
			ast.Inspect(n, func(x ast.Node) bool {
				if lit, ok := x.(*ast.FuncLit); ok {
					walk(lit.Body)
					return false
				}
				call, ok := x.(*ast.CallExpr)
				if !ok {
					return true
				}
				fn := core.CalleeFunc(info, call)
				if fn == nil {
					return true
				}
				if isKVWrite(fn) {
					writes++
					if !st.Held["validate:any"] {
						validated = false
					}
					return true
				}
				if cfi := p.Info(fn); cfi != nil && cfi.Pkg == fi.Pkg && !st.Held["validate:any"] {
					v, w := driverValidatesKinds(p, cfi, depth+1, seen)
					writes += w
					if !v {
						validated = false
					}
				}
				return true
			})
		})
	}
	walk(fi.Decl.Body)
	return validated, writes
}

// isIfaceOrImpl: fn is a method of the interface itself or of an implementer.
func isIfaceOrImpl(fn *types.Func, iface *types.Interface) bool {
	n := core.RecvNamed(fn)
	if n == nil {
		return false
	}
	if it, ok := n.Underlying().(*types.Interface); ok {
		return types.Identical(it, iface) || types.Implements(n, iface)
	}
	return types.Implements(n, iface) || types.Implements(types.NewPointer(n), iface)
}

func keysSelftest(st *core.Prog, res *core.Result, prop string) {
	kc := extractCodec(st, core.SelfMod+"/keys")
	if kc == nil || len(kc.Builders) < 4 {
		res.Fail("key-codec self-test package did not load")
		return
	}
	tmp := core.NewResult(prop, "self")
	keyKindTyping(st, tmp, kc, "K")
	codecAgreement(st, tmp, kc, "A")
	got := map[string]core.Status{}
	for _, o := range tmp.Obls {
		name := o.Key
		for _, f := range []string{"OkOps", "BadDeleteWithPrefix", "BadHasPrefixWithFullKey", "AKeyParse", "BKeyParse", "AKeyPrefix", "BKeyPrefix"} {
			if strings.Contains(o.Key, f) {
				name = f
			}
		}
		if cur, ok := got[name]; !ok || (cur == core.Discharged && o.Status != core.Discharged) {
			got[name] = o.Status
		}
	}
	want := map[string]core.Status{"OkOps": core.Discharged, "BadDeleteWithPrefix": core.Violated, "BadHasPrefixWithFullKey": core.Violated,
		"AKeyParse": core.Discharged, "BKeyParse": core.Violated, "AKeyPrefix": core.Discharged, "BKeyPrefix": core.Violated}
	for name, w := range want {
		if got[name] != w {
			res.Fail("key-codec self-test %s: got %q, expected %q", name, got[name], w)
		} else {
			res.OKTrivial("SELF", "selftest|keys."+name, "-", "key-codec rules give "+string(w)+" as expected")
		}
	}
}

func c03selftest(st *core.Prog, res *core.Result) {
	keysSelftest(st, res, "C03")
	rel := core.SelfMod + "/c03"
	pk := st.Pkg(rel)
	if pk == nil {
		res.Fail("C03 self-test package did not load")
		return
	}
	m := newTouchMust(st)
	for _, fi := range st.AllDecls() {
		if fi.Pkg != pk || fi.Decl.Recv == nil {
			continue
		}
		name := fi.Obj.Name()
		want := core.Discharged
		if strings.HasPrefix(name, "Bad") {
			want = core.Violated
		} else if !strings.HasPrefix(name, "Ok") {
			continue
		}
		tmp := core.NewResult("C03", "self")
		mustTouch(st, tmp, m, fi, "R1")
		got := core.Discharged
		for _, o := range tmp.Obls {
			if o.Status == core.Violated {
				got = core.Violated
			}
		}
		if got != want {
			res.Fail("self-test %s: must-Touch gave %s, expected %s", name, got, want)
		} else {
			res.OKTrivial("SELF", "selftest|c03."+name, "-", "must-Touch gives "+string(got)+" as expected")
		}
	}
}

// familySets computes the key families written and deleted in the call tree
// of fi, following static calls into the packages that have a codec.
func familySets(p *core.Prog, codecs map[string]*keyCodec, resolvers map[string]*originResolver, fi *core.FuncInfo, depth int, seen map[*types.Func]bool, wr, del map[string]string) {
	if fi == nil || fi.Decl.Body == nil || seen[fi.Obj] || depth > 5 {
		return
	}
	seen[fi.Obj] = true
	rel := core.RelPkg(fi.Pkg.PkgPath)
	kc := codecs[rel]
	if kc == nil {
		return
	}
	r := resolvers[rel]
	info := fi.Pkg.TypesInfo
	ast.Inspect(fi.Decl.Body, func(n ast.Node) bool {
		call, ok := n.(*ast.CallExpr)
		if !ok {
			return true
		}
		op, _, ai := kvOp(info, call)
		if op == "Set" || op == "Delete" || op == "DeletePrefix" {
			for _, o := range r.origins(fi.Decl.Body, call.Args[ai], 0, map[types.Object]bool{}) {
				if o.Family == "" {
					continue
				}
				fam := rel + ":" + kc.Families[o.Family]
				if op == "Set" {
					wr[fam] = p.Pos(call.Pos())
				} else {
					del[fam] = p.Pos(call.Pos())
				}
			}
			return true
		}
		if fn := core.CalleeFunc(info, call); fn != nil {
			if cfi := p.Info(fn); cfi != nil && codecs[core.RelPkg(cfi.Pkg.PkgPath)] != nil {
				familySets(p, codecs, resolvers, cfi, depth+1, seen, wr, del)
			}
		}
		return true
	})
}

func c03keys(p *core.Prog, res *core.Result) {
	res.Rule("R3", "key-kind typing: exact-key operations take full keys, prefix operations take prefixes (kvgraph)", 30)
	res.Rule("R3F", "key families written by an insert are deleted by the matching delete and by DeleteGraph", 6)
	res.Rule("R3C", "key builder/parser agreement (kvgraph)", 10)
	kc := extractCodec(p, "kvgraph")
	ki := extractCodec(p, "kvindex")
	if kc == nil || ki == nil || len(kc.Builders) < 10 || len(kc.Parsers) < 4 {
		res.Fail("kvgraph key codec not recognised (builders=%d parsers=%d)", len(kc.Builders), len(kc.Parsers))
		return
	}
	res.Extra["kvgraph_key_builders"] = len(kc.Builders)
	res.Extra["kvgraph_key_parsers"] = len(kc.Parsers)
	keyKindTyping(p, res, kc, "R3")
	codecAgreement(p, res, kc, "R3C")

	codecs := map[string]*keyCodec{"kvgraph": kc, "kvindex": ki}
	resolvers := map[string]*originResolver{"kvgraph": newOriginResolver(p, kc), "kvindex": newOriginResolver(p, ki)}
	sets := func(name string) (map[string]string, map[string]string) {
		wr, del := map[string]string{}, map[string]string{}
		fi := p.Func("kvgraph", name)
		if fi == nil {
			res.Fail("kvgraph.%s not found", name)
			return wr, del
		}
		res.Fn(core.FuncKey(fi.Obj))
		familySets(p, codecs, resolvers, fi, 0, map[*types.Func]bool{}, wr, del)
		return wr, del
	}
	// families some query operation reads: Seek/Get/HasKey sites in functions that write nothing
	readFams := map[string]bool{}
	for rel, c := range codecs {
		for _, fi := range p.AllDecls() {
			if fi.Pkg != c.Pkg || fi.Decl.Body == nil {
				continue
			}
			writes := false
			var reads []ast.Expr
			ast.Inspect(fi.Decl.Body, func(n ast.Node) bool {
				if call, ok := n.(*ast.CallExpr); ok {
					switch op, _, ai := kvOp(fi.Pkg.TypesInfo, call); op {
					case "Set", "Delete", "DeletePrefix":
						writes = true
					case "Seek", "SeekReverse", "Get", "HasKey":
						reads = append(reads, call.Args[ai])
					}
				}
				return true
			})
			if writes {
				continue
			}
			for _, e := range reads {
				for _, o := range resolvers[rel].origins(fi.Decl.Body, e, 0, map[types.Object]bool{}) {
					if o.Family != "" {
						readFams[rel+":"+c.Families[o.Family]] = true
					}
				}
			}
		}
	}
	var rf []string
	for f := range readFams {
		rf = append(rf, f)
	}
	sort.Strings(rf)
	res.Extra["key_families_read_by_queries"] = rf
	pairs := []struct{ ins, del string }{
		{"insertVertex", "KVInterfaceGDB.DelVertex"}, {"insertEdge", "KVInterfaceGDB.DelEdge"},
		{"insertVertex", "KVGraph.DeleteGraph"}, {"insertEdge", "KVGraph.DeleteGraph"},
		{"insertEdge", "KVInterfaceGDB.DelVertex"}, {"KVGraph.AddGraph", "KVGraph.DeleteGraph"},
	}
	for _, pr := range pairs {
		wr, _ := sets(pr.ins)
		_, del := sets(pr.del)
		var fams []string
		for f := range wr {
			if readFams[f] { // families no query reads (bookkeeping) are not observable
				fams = append(fams, f)
			}
		}
		sort.Strings(fams)
		if len(fams) == 0 {
			res.Unres("R3F", pr.ins+"→"+pr.del, "-", "no key family resolved for the writes of "+pr.ins)
			continue
		}
		// one obligation per (insert, delete, codec package)
		byPkg := map[string][]string{}
		for _, f := range fams {
			pkgName := f[:strings.Index(f, ":")]
			byPkg[pkgName] = append(byPkg[pkgName], f)
		}
		var pkgs []string
		for k := range byPkg {
			pkgs = append(pkgs, k)
		}
		sort.Strings(pkgs)
		for _, pkgName := range pkgs {
			key := fmt.Sprintf("%s→%s|%s", pr.ins, pr.del, pkgName)
			var missing, okf []string
			for _, f := range byPkg[pkgName] {
				if _, ok := del[f]; ok {
					okf = append(okf, f)
				} else {
					missing = append(missing, fmt.Sprintf("%s (written at %s)", f, wr[f]))
				}
			}
			if len(missing) == 0 {
				res.OK("R3F", key, wr[byPkg[pkgName][0]], fmt.Sprintf("families %v written by %s are all deleted by %s", okf, pr.ins, pr.del))
			} else {
				res.Bad("R3F", key, wr[byPkg[pkgName][0]], fmt.Sprintf("%s writes key families %v but %s deletes no key of them: the entries survive the delete and keep answering lookups/listings", pr.ins, missing, pr.del))
			}
		}
	}
}


// c03stamp (R1S): the timestamp is a change token — two successful mutations
// must not leave it equal.  Necessary: what Touch stores is derived from the
// nanosecond clock (time.Time.UnixNano) or from an atomic / locked counter, not
// from a coarser rendering of the time (Unix, UnixMilli, UnixMicro, Format, …),
// which repeats for mutations that complete within one tick.
func c03stamp(p *core.Prog, res *core.Result, rule string) {
	fi := p.Func("timestamp", "Timestamp.Touch")
	if fi == nil || fi.Decl.Body == nil {
		res.Fail("timestamp.Timestamp.Touch not found")
		return
	}
	info := fi.Pkg.TypesInfo
	key := core.FuncKey(fi.Obj)
	res.Fn(key)
	fine, coarse := "", ""
	var visit func(body ast.Node, depth int)
	visit = func(body ast.Node, depth int) {
		ast.Inspect(body, func(n ast.Node) bool {
			c, ok := n.(*ast.CallExpr)
			if !ok {
				return true
			}
			fn := core.CalleeFunc(info, c)
			if fn == nil || fn.Pkg() == nil {
				return true
			}
			full := fn.Pkg().Path() + "." + fn.Name()
			if rn := core.RecvNamed(fn); rn != nil {
				full = fn.Pkg().Path() + "." + rn.Obj().Name() + "." + fn.Name()
			}
			switch full {
			case "time.Time.UnixNano":
				fine = "time.Time.UnixNano at " + p.Pos(c.Pos())
			case "time.Time.Unix", "time.Time.UnixMilli", "time.Time.UnixMicro", "time.Time.Format", "time.Time.String", "time.Time.Truncate", "time.Time.Round":
				if coarse == "" {
					coarse = fn.Name() + " at " + p.Pos(c.Pos())
				}
			}
			if strings.HasPrefix(full, "sync/atomic.Add") || strings.HasSuffix(full, ".Add") && strings.HasPrefix(fn.Pkg().Path(), "sync/atomic") {
				fine = full + " at " + p.Pos(c.Pos())
			}
			if depth < 2 && core.InRepo(fn) {
				if cfi := p.Info(fn); cfi != nil && cfi.Decl.Body != nil && cfi.Pkg == fi.Pkg {
					visit(cfi.Decl.Body, depth+1)
				}
			}
			return true
		})
	}
	visit(fi.Decl.Body, 0)
	switch {
	case coarse != "":
		res.Bad(rule, key, p.Pos(fi.Decl.Pos()), fmt.Sprintf("%s derives the change token from %s: two successful mutations of a graph that complete within the same tick (embedded writes take tens of microseconds) leave GetTimestamp unchanged, so a client that caches on it keeps serving results from before the second mutation", key, coarse))
	case fine != "":
		res.OK(rule, key, p.Pos(fi.Decl.Pos()), "change token derived from "+fine)
	default:
		res.Unres(rule, key, p.Pos(fi.Decl.Pos()), "source of the change token not recognised (neither UnixNano nor an atomic counter)")
	}
}
