package props

import (
	"fmt"
	"go/ast"
	"go/token"
	"go/types"
	"sort"
	"strings"

	"gripverif/core"

	"golang.org/x/tools/go/cfg"
)

func init() {
	Registry["C04"] = c04
	SelfTests["C04"] = c04selftest
}

// writeUnit is one atomic store write issued by a mutating operation: either
// a top-level kv.Set/Delete/DeletePrefix, or one BulkWrite/Update callback.
type writeUnit struct {
	Pos  token.Pos
	Kind string
	Fams map[string]bool
}

// isTxType: KVBulkWrite / KVTransaction (writes through them belong to the enclosing callback).
func isTxType(t types.Type) bool {
	if pt, ok := t.(*types.Pointer); ok {
		t = pt.Elem()
	}
	n, ok := t.(*types.Named)
	if !ok || n.Obj().Pkg() == nil || !strings.HasPrefix(n.Obj().Pkg().Path(), pkgKvi) {
		return false
	}
	name := n.Obj().Name()
	return name == "KVBulkWrite" || name == "KVTransaction" || strings.HasSuffix(strings.ToLower(name), "transaction") || strings.HasSuffix(strings.ToLower(name), "bulkwrite")
}

type unitCollector struct {
	p         *core.Prog
	codecs    map[string]*keyCodec
	resolvers map[string]*originResolver
	sync      func(*types.Func) bool
}

func (u *unitCollector) famsOf(fi *core.FuncInfo, body ast.Node, e ast.Expr) []string {
	rel := core.RelPkg(fi.Pkg.PkgPath)
	kc, r := u.codecs[rel], u.resolvers[rel]
	if kc == nil {
		return nil
	}
	var out []string
	for _, o := range r.origins(body, e, 0, map[types.Object]bool{}) {
		if o.Family != "" {
			out = append(out, rel+":"+kc.Families[o.Family])
		}
	}
	return out
}

// collect returns the atomic write units issued by fi.  cur is the enclosing
// unit when the code runs inside a transaction callback (nil at top level).
func (u *unitCollector) collect(fi *core.FuncInfo, body ast.Node, cur *writeUnit, depth int, seen map[*types.Func]bool, units *[]*writeUnit) {
	if depth > 6 {
		return
	}
	info := fi.Pkg.TypesInfo
	var visit func(n ast.Node, cur *writeUnit)
	visit = func(n ast.Node, cur *writeUnit) {
		ast.Inspect(n, func(x ast.Node) bool {
			call, ok := x.(*ast.CallExpr)
			if !ok {
				return true
			}
			fn := core.CalleeFunc(info, call)
			if fn == nil {
				return true
			}
			if op, _, ai := kvOp(info, call); op == "Set" || op == "Delete" || op == "DeletePrefix" {
				fams := u.famsOf(fi, fi.Decl.Body, call.Args[ai])
				recvT := types.Type(nil)
				if sel, ok := ast.Unparen(call.Fun).(*ast.SelectorExpr); ok {
					recvT = info.TypeOf(sel.X)
				}
				if cur != nil && recvT != nil && isTxType(recvT) {
					for _, f := range fams {
						cur.Fams[f] = true
					}
				} else {
					w := &writeUnit{Pos: call.Pos(), Kind: "top-level " + op, Fams: map[string]bool{}}
					for _, f := range fams {
						w.Fams[f] = true
					}
					*units = append(*units, w)
				}
				return true
			}
			if u.sync(fn) && (fn.Name() == "BulkWrite" || fn.Name() == "Update") {
				for _, a := range call.Args {
					if lit, ok := ast.Unparen(a).(*ast.FuncLit); ok {
						w := &writeUnit{Pos: call.Pos(), Kind: fn.Name() + " callback", Fams: map[string]bool{}}
						*units = append(*units, w)
						visit(lit.Body, w)
					}
				}
				return false
			}
			if cfi := u.p.Info(fn); cfi != nil && cfi.Decl.Body != nil && u.codecs[core.RelPkg(cfi.Pkg.PkgPath)] != nil && !seen[fn] {
				// a callee that receives the transaction writes into the current unit
				passesTx := false
				for _, a := range call.Args {
					if t := info.TypeOf(a); t != nil && isTxType(t) {
						passesTx = true
					}
				}
				seen[fn] = true
				if passesTx && cur != nil {
					u.collect(cfi, cfi.Decl.Body, cur, depth+1, seen, units)
				} else {
					u.collect(cfi, cfi.Decl.Body, nil, depth+1, seen, units)
				}
				delete(seen, fn)
			}
			return true
		})
	}
	if cur != nil {
		// inside a callee that received the transaction: tx.Set(...) goes to cur
		visit(body, cur)
		return
	}
	visit(body, nil)
}

// constrained families: element records and the adjacency / label-index
// entries that must stay consistent with them.
var c04Constrained = map[string]bool{"kvgraph:v": true, "kvgraph:e": true, "kvgraph:s": true, "kvgraph:d": true, "kvindex:i": true, "kvindex:t": true}

func c04atomic(p *core.Prog, res *core.Result, u *unitCollector, fi *core.FuncInfo, rule string) {
	key := core.FuncKey(fi.Obj)
	res.Fn(key)
	var units []*writeUnit
	u.collect(fi, fi.Decl.Body, nil, 0, map[*types.Func]bool{fi.Obj: true}, &units)
	var withC []*writeUnit
	all := map[string]bool{}
	for _, w := range units {
		has := false
		for f := range w.Fams {
			if c04Constrained[f] {
				has = true
				all[f] = true
			}
		}
		if has {
			withC = append(withC, w)
		}
	}
	var fams []string
	for f := range all {
		fams = append(fams, f)
	}
	sort.Strings(fams)
	switch {
	case len(units) == 0:
		res.Unres(rule, key, p.Pos(fi.Decl.Pos()), "no store write found in the call tree of a mutating operation")
	case len(fams) <= 1 && len(withC) <= 1:
		res.OKTrivial(rule, key, p.Pos(fi.Decl.Pos()), fmt.Sprintf("%d write unit(s); constrained families touched: %v", len(units), fams))
	case len(withC) == 1:
		res.OK(rule, key, p.Pos(withC[0].Pos), fmt.Sprintf("all writes to the constrained families %v are issued inside one %s", fams, withC[0].Kind))
	default:
		var where []string
		for _, w := range withC {
			var fs []string
			for f := range w.Fams {
				fs = append(fs, f)
			}
			sort.Strings(fs)
			where = append(where, fmt.Sprintf("%s at %s %v", w.Kind, p.Pos(w.Pos), fs))
		}
		res.Bad(rule, key, p.Pos(withC[0].Pos), fmt.Sprintf("%s changes the mutually-constrained key families %v in %d separate atomic writes (%s): a crash between two of them leaves adjacency/index entries that refer to a missing element, or an element unreachable through its indexes",
			key, fams, len(withC), strings.Join(where, "; ")))
	}
}

// mirrorPairs finds struct fields (map/slice) that some method updates
// together with a store write of family F, and checks that every constructor
// of the struct rebuilds the field from family F.
func c04mirrors(p *core.Prog, res *core.Result, u *unitCollector, rels []string, rule string) int {
	found := 0
	for _, rel := range rels {
		kc := u.codecs[rel]
		if kc == nil {
			continue
		}
		info := kc.Pkg.TypesInfo
		type pair struct {
			field *types.Var
			owner *types.Named
			fam   string
			where token.Pos
		}
		pairs := map[string]*pair{}
		for _, fi := range p.AllDecls() {
			if fi.Pkg != kc.Pkg || fi.Decl.Body == nil || fi.Decl.Recv == nil {
				continue
			}
			owner := core.RecvNamed(fi.Obj)
			if owner == nil {
				continue
			}
			var stored []*types.Var
			var fams []string
			ast.Inspect(fi.Decl.Body, func(n ast.Node) bool {
				switch x := n.(type) {
				case *ast.AssignStmt:
					for _, l := range x.Lhs {
						// recv.M[k] = v   or   recv.M = append(recv.M, ...)
						var sel *ast.SelectorExpr
						if ix, ok := l.(*ast.IndexExpr); ok {
							sel, _ = ix.X.(*ast.SelectorExpr)
						} else {
							sel, _ = l.(*ast.SelectorExpr)
						}
						var recvObj types.Object
						if fi.Decl.Recv != nil && len(fi.Decl.Recv.List) > 0 && len(fi.Decl.Recv.List[0].Names) > 0 {
							recvObj = info.Defs[fi.Decl.Recv.List[0].Names[0]]
						}
						if sel != nil && recvObj != nil && defOrUse(info, sel.X) == recvObj {
							if s := info.Selections[sel]; s != nil {
								if fv, ok := s.Obj().(*types.Var); ok && fv.IsField() {
									switch fv.Type().Underlying().(type) {
									case *types.Map, *types.Slice:
										stored = append(stored, fv)
									}
								}
							}
						}
					}
				case *ast.CallExpr:
					if op, _, ai := kvOp(info, x); op == "Set" {
						fams = append(fams, u.famsOf(fi, fi.Decl.Body, x.Args[ai])...)
					}
				}
				return true
			})
			for _, fv := range stored {
				for _, f := range fams {
					k := core.TypeKey(owner) + "." + fv.Name() + "↔" + f
					if pairs[k] == nil {
						pairs[k] = &pair{field: fv, owner: owner, fam: f, where: fi.Decl.Pos()}
					}
				}
			}
		}
		var keys []string
		for k := range pairs {
			keys = append(keys, k)
		}
		sort.Strings(keys)
		for _, k := range keys {
			pr := pairs[k]
			found++
			// constructors: functions of the package (not methods) whose result type is the owner
			ctors := 0
			for _, fi := range p.AllDecls() {
				if fi.Pkg != kc.Pkg || fi.Decl.Body == nil || fi.Decl.Recv != nil {
					continue
				}
				sig := fi.Obj.Type().(*types.Signature)
				isCtor := false
				for i := 0; i < sig.Results().Len(); i++ {
					t := sig.Results().At(i).Type()
					if pt, ok := t.(*types.Pointer); ok {
						t = pt.Elem()
					}
					if types.Identical(t, pr.owner) {
						isCtor = true
					}
				}
				if !isCtor {
					continue
				}
				ctors++
				res.Fn(core.FuncKey(fi.Obj))
				key := k + "|" + core.FuncKey(fi.Obj)
				// the constructor (or a method it calls on the new value) must read family F
				reads := readsFamily(p, u, fi, pr.fam, 0, map[*types.Func]bool{})
				if reads {
					res.OK(rule, key, p.Pos(fi.Decl.Pos()), fmt.Sprintf("constructor reads key family %s to rebuild %s.%s", pr.fam, pr.owner.Obj().Name(), pr.field.Name()))
				} else {
					res.Bad(rule, key, p.Pos(fi.Decl.Pos()), fmt.Sprintf("%s.%s mirrors the persisted key family %s (updated together in a method at %s) but constructor %s never reads that family: after a restart the in-memory registry is empty while the store still holds the entries, so later operations behave as if nothing was registered",
						pr.owner.Obj().Name(), pr.field.Name(), pr.fam, p.Pos(pr.where), fi.Obj.Name()))
				}
			}
			if ctors == 0 {
				res.Unres(rule, k, p.Pos(pr.where), "no constructor found for "+core.TypeKey(pr.owner))
			}
			// R2b: every method keeps the mirror and the family in step — whoever removes the
			// persisted entry removes the in-memory one and vice versa, likewise for additions
			for _, fi := range p.AllDecls() {
				if fi.Pkg != kc.Pkg || fi.Decl.Body == nil || fi.Decl.Recv == nil || core.RecvNamed(fi.Obj) != pr.owner {
					continue
				}
				var recvObj types.Object
				if len(fi.Decl.Recv.List) > 0 && len(fi.Decl.Recv.List[0].Names) > 0 {
					recvObj = info.Defs[fi.Decl.Recv.List[0].Names[0]]
				}
				isMirror := func(e ast.Expr) bool {
					sel, ok := ast.Unparen(e).(*ast.SelectorExpr)
					if !ok || recvObj == nil || defOrUse(info, sel.X) != recvObj {
						return false
					}
					sl := info.Selections[sel]
					return sl != nil && sl.Obj() == pr.field
				}
				mAdd, mDel, sSet, sDel := false, false, false, false
				ast.Inspect(fi.Decl.Body, func(n ast.Node) bool {
					switch x := n.(type) {
					case *ast.AssignStmt:
						for _, l := range x.Lhs {
							if ix, ok := ast.Unparen(l).(*ast.IndexExpr); ok && isMirror(ix.X) {
								mAdd = true
							} else if isMirror(l) {
								mAdd = true
							}
						}
					case *ast.CallExpr:
						if isBuiltin2(info, x, "delete") && len(x.Args) == 2 && isMirror(x.Args[0]) {
							mDel = true
						}
						if op, _, ai := kvOp(info, x); op == "Set" || op == "Delete" {
							for _, f := range u.famsOf(fi, fi.Decl.Body, x.Args[ai]) {
								if f == pr.fam {
									if op == "Set" {
										sSet = true
									} else {
										sDel = true
									}
								}
							}
						}
					}
					return true
				})
				if !(mAdd || mDel || sSet || sDel) {
					continue
				}
				key := k + "|in step|" + core.FuncKey(fi.Obj)
				res.Fn(core.FuncKey(fi.Obj))
				var bad []string
				if sDel != mDel {
					bad = append(bad, fmt.Sprintf("removes the persisted entry: %v, removes the in-memory entry: %v", sDel, mDel))
				}
				if sSet != mAdd {
					bad = append(bad, fmt.Sprintf("writes the persisted entry: %v, adds the in-memory entry: %v", sSet, mAdd))
				}
				if len(bad) > 0 {
					res.Bad("R2b", key, p.Pos(fi.Decl.Pos()), fmt.Sprintf("%s updates only one side of the pair %s.%s ↔ key family %s (%s): the running process and a process started later from the same store disagree about what is registered", core.FuncKey(fi.Obj), pr.owner.Obj().Name(), pr.field.Name(), pr.fam, strings.Join(bad, "; ")))
				} else {
					res.OK("R2b", key, p.Pos(fi.Decl.Pos()), "updates the in-memory mirror and the persisted family together")
				}
			}
		}
	}
	return found
}

// readsFamily: the call tree of fi (same codec packages) contains a Seek/Get on family fam.
func readsFamily(p *core.Prog, u *unitCollector, fi *core.FuncInfo, fam string, depth int, seen map[*types.Func]bool) bool {
	if fi == nil || fi.Decl.Body == nil || seen[fi.Obj] || depth > 4 {
		return false
	}
	seen[fi.Obj] = true
	info := fi.Pkg.TypesInfo
	found := false
	ast.Inspect(fi.Decl.Body, func(n ast.Node) bool {
		call, ok := n.(*ast.CallExpr)
		if !ok || found {
			return !found
		}
		if op, _, ai := kvOp(info, call); op == "Seek" || op == "Get" || op == "SeekReverse" {
			for _, f := range u.famsOf(fi, fi.Decl.Body, call.Args[ai]) {
				if f == fam {
					found = true
				}
			}
			return true
		}
		if fn := core.CalleeFunc(info, call); fn != nil {
			if cfi := p.Info(fn); cfi != nil && u.codecs[core.RelPkg(cfi.Pkg.PkgPath)] != nil {
				if readsFamily(p, u, cfi, fam, depth+1, seen) {
					found = true
				}
			}
		}
		return true
	})
	return found
}

func newUnitCollector(p *core.Prog, rels ...string) *unitCollector {
	u := &unitCollector{p: p, codecs: map[string]*keyCodec{}, resolvers: map[string]*originResolver{}, sync: kvSyncInvoker(p)}
	for _, rel := range rels {
		if kc := extractCodec(p, rel); kc != nil {
			u.codecs[rel] = kc
			u.resolvers[rel] = newOriginResolver(p, kc)
		}
	}
	return u
}

func c04(p *core.Prog, res *core.Result) {
	res.Explanation = "C04 (structural clauses): R1 one atomic unit per request — for every mutating operation of the embedded driver the store writes that touch the mutually-constrained key families " +
		"(vertex/edge records v,e; adjacency s,d; label-index entries i,t) are all issued inside a single BulkWrite/Update callback (each top-level kv.Set/Delete/DeletePrefix is its own atomic write — the property's crash model). " +
		"R2b every method of the owner that adds/removes an entry of such a mirror also writes/deletes the persisted entry, and vice versa; R2 persisted registries are rebuilt at open — every in-memory map/slice field that some method updates together with a store write of key family F is rebuilt from family F by every constructor of its struct. " +
		"R3 AddGraph registers the label-index fields before it writes the graph key (a crash in between must not leave a visible graph without its label index)."
	res.NotDecided = []string{"equality of the observable graph across reopen (value-level)", "atomicity inside a driver's Update/BulkWrite (C10)", "durability of acknowledged writes inside the storage engines"}
	res.Assumptions = []string{"each top-level KVInterface.Set/Delete/DeletePrefix and each Update/BulkWrite callback is atomic in the underlying store (the property's crash model)"}
	res.Rule("R1", "writes to mutually-constrained key families of one request happen in one atomic unit", 6)
	res.Rule("R2", "every in-memory mirror of a persisted key family is rebuilt by every constructor", 1)
	res.Rule("R2b", "methods update a mirror and its persisted family together", 2)
	res.Rule("R3", "AddGraph: index-field registration precedes the graph key write on every path", 1)

	u := newUnitCollector(p, "kvgraph", "kvindex")
	if u.codecs["kvgraph"] == nil || u.codecs["kvindex"] == nil {
		res.Fail("kvgraph/kvindex key codecs not found")
		return
	}
	for _, name := range []string{"KVInterfaceGDB.AddVertex", "KVInterfaceGDB.AddEdge", "KVInterfaceGDB.BulkAdd", "KVInterfaceGDB.DelVertex", "KVInterfaceGDB.DelEdge", "KVGraph.AddGraph", "KVGraph.DeleteGraph"} {
		fi := p.Func("kvgraph", name)
		if fi == nil {
			res.Fail("kvgraph.%s not found", name)
			continue
		}
		c04atomic(p, res, u, fi, "R1")
	}
	if n := c04mirrors(p, res, u, []string{"kvindex", "kvgraph"}, "R2"); n == 0 {
		res.Fail("no in-memory mirror of a persisted key family discovered (expected KVIndex.Fields ↔ family f)")
	}
	// R3
	if fi := p.Func("kvgraph", "KVGraph.AddGraph"); fi != nil {
		info := fi.Pkg.TypesInfo
		fl := &core.Flow{Prog: p, Info: info, Body: fi.Decl.Body}
		fl.Events = func(n ast.Node, st *core.State) ([]string, bool) {
			for _, c := range core.CallsIn(n) {
				if fn := core.CalleeFunc(info, c); fn != nil {
					if cfi := p.Info(fn); cfi != nil {
						var units []*writeUnit
						u.collect(cfi, cfi.Decl.Body, nil, 0, map[*types.Func]bool{}, &units)
						for _, w := range units {
							if w.Fams["kvindex:f"] {
								return []string{"fields-registered"}, true
							}
						}
					}
				}
			}
			return nil, false
		}
		fl.Run()
		checked := 0
		fl.Walk(func(n ast.Node, st *core.State, b *cfg.Block) {
			for _, c := range core.CallsIn(n) {
				if op, _, ai := kvOp(info, c); op == "Set" {
					for _, f := range u.famsOf(fi, fi.Decl.Body, c.Args[ai]) {
						if f == "kvgraph:g" {
							checked++
							if st.Held["fields-registered"] {
								res.OK("R3", "kvgraph.KVGraph.AddGraph", p.Pos(c.Pos()), "graph key written only after the label-index fields were registered (checked)")
							} else {
								res.Bad("R3", "kvgraph.KVGraph.AddGraph", p.Pos(c.Pos()), "AddGraph writes the graph key before (or without) registering the label-index fields: a crash in between leaves a visible graph whose vertices are never label-indexed", fl.TraceTo(b)...)
							}
						}
					}
				}
			}
		})
		if checked == 0 {
			res.Unres("R3", "kvgraph.KVGraph.AddGraph", p.Pos(fi.Decl.Pos()), "no write of the graph key found")
		}
	}
}

func c04selftest(st *core.Prog, res *core.Result) {
	rel := core.SelfMod + "/c04"
	u := newUnitCollector(st, rel)
	if u.codecs[rel] == nil {
		res.Fail("C04 self-test package did not load")
		return
	}
	saved := c04Constrained
	c04Constrained = map[string]bool{rel + ":a": true, rel + ":b": true}
	defer func() { c04Constrained = saved }()
	for _, fi := range st.AllDecls() {
		if fi.Pkg != u.codecs[rel].Pkg || fi.Decl.Recv == nil {
			continue
		}
		name := fi.Obj.Name()
		want := core.Discharged
		if strings.HasPrefix(name, "Bad") {
			want = core.Violated
		} else if !strings.HasPrefix(name, "Ok") {
			continue
		}
		tmp := core.NewResult("C04", "self")
		c04atomic(st, tmp, u, fi, "R1")
		got := core.Discharged
		for _, o := range tmp.Obls {
			if o.Status != core.Discharged {
				got = o.Status
			}
		}
		if got != want {
			res.Fail("self-test %s: atomic-unit rule gave %s, expected %s", name, got, want)
		} else {
			res.OKTrivial("SELF", "selftest|c04."+name, "-", "atomic-unit rule gives "+string(got)+" as expected")
		}
	}
	tmp := core.NewResult("C04", "self")
	c04mirrors(st, tmp, u, []string{rel}, "R2")
	gotBad, gotOK := false, false
	for _, o := range tmp.Obls {
		if strings.Contains(o.Key, "NewForgetful") && o.Status == core.Violated {
			gotBad = true
		}
		if strings.Contains(o.Key, "NewReloading") && o.Status == core.Discharged {
			gotOK = true
		}
	}
	if !gotBad || !gotOK {
		res.Fail("self-test mirrors: forgetful constructor flagged=%v, reloading constructor accepted=%v", gotBad, gotOK)
	} else {
		res.OKTrivial("SELF", "selftest|c04.mirrors", "-", "mirror rule flags the forgetful constructor and accepts the reloading one")
	}
}
