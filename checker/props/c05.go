package props

import (
	"fmt"
	"go/ast"
	"go/constant"
	"go/token"
	"go/types"
	"sort"
	"strings"

	"gripverif/core"

	"golang.org/x/tools/go/cfg"
)

func init() {
	Registry["C05"] = c05
	SelfTests["C05"] = c05selftest
}

// rpcMethod is one method of a registered gRPC service.
type rpcMethod struct {
	Service, Name string
	Full          string
	ServerStream  bool
	ClientStream  bool
	Pos           token.Pos
	ReqType       types.Type // request message type (pointer), from the server interface
}

func (m rpcMethod) unary() bool { return !m.ServerStream && !m.ClientStream }

// grpcServices extracts the method tables from every grpc.ServiceDesc
// composite literal of package rel.
func grpcServices(p *core.Prog, rel string) []rpcMethod {
	pk := p.Pkg(rel)
	if pk == nil {
		return nil
	}
	var out []rpcMethod
	strOf := func(e ast.Expr) string {
		if tv, ok := pk.TypesInfo.Types[e]; ok && tv.Value != nil && tv.Value.Kind() == constant.String {
			return constant.StringVal(tv.Value)
		}
		return ""
	}
	boolOf := func(e ast.Expr) bool {
		if tv, ok := pk.TypesInfo.Types[e]; ok && tv.Value != nil && tv.Value.Kind() == constant.Bool {
			return constant.BoolVal(tv.Value)
		}
		return false
	}
	for _, f := range pk.Syntax {
		ast.Inspect(f, func(n ast.Node) bool {
			cl, ok := n.(*ast.CompositeLit)
			if !ok {
				return true
			}
			t := pk.TypesInfo.TypeOf(cl)
			named, _ := t.(*types.Named)
			if named == nil || named.Obj().Name() != "ServiceDesc" || named.Obj().Pkg() == nil || named.Obj().Pkg().Path() != "google.golang.org/grpc" {
				return true
			}
			svc := ""
			var iface *types.Interface
			var methods, streams *ast.CompositeLit
			for _, el := range cl.Elts {
				kv, ok := el.(*ast.KeyValueExpr)
				if !ok {
					continue
				}
				switch kv.Key.(*ast.Ident).Name {
				case "ServiceName":
					svc = strOf(kv.Value)
				case "Methods":
					methods, _ = kv.Value.(*ast.CompositeLit)
				case "Streams":
					streams, _ = kv.Value.(*ast.CompositeLit)
				case "HandlerType":
					// (*QueryServer)(nil)
					if tt := pk.TypesInfo.TypeOf(kv.Value); tt != nil {
						if pt, ok := tt.(*types.Pointer); ok {
							iface, _ = pt.Elem().Underlying().(*types.Interface)
						}
					}
				}
			}
			reqType := func(name string) types.Type {
				if iface == nil {
					return nil
				}
				for i := 0; i < iface.NumMethods(); i++ {
					m := iface.Method(i)
					if m.Name() != name {
						continue
					}
					sig := m.Type().(*types.Signature)
					for j := 0; j < sig.Params().Len(); j++ {
						pt := sig.Params().At(j).Type()
						if ptr, ok := pt.(*types.Pointer); ok {
							if nn, ok := ptr.Elem().(*types.Named); ok && nn.Obj().Pkg() == pk.Types {
								return pt
							}
						}
					}
				}
				return nil
			}
			collect := func(list *ast.CompositeLit, nameKey string) {
				if list == nil {
					return
				}
				for _, el := range list.Elts {
					mc, ok := el.(*ast.CompositeLit)
					if !ok {
						continue
					}
					m := rpcMethod{Service: svc, Pos: mc.Pos()}
					for _, fe := range mc.Elts {
						kv, ok := fe.(*ast.KeyValueExpr)
						if !ok {
							continue
						}
						switch kv.Key.(*ast.Ident).Name {
						case nameKey:
							m.Name = strOf(kv.Value)
						case "ServerStreams":
							m.ServerStream = boolOf(kv.Value)
						case "ClientStreams":
							m.ClientStream = boolOf(kv.Value)
						}
					}
					m.Full = "/" + svc + "/" + m.Name
					m.ReqType = reqType(m.Name)
					out = append(out, m)
				}
			}
			collect(methods, "MethodName")
			collect(streams, "StreamName")
			return true
		})
	}
	sort.Slice(out, func(i, j int) bool { return out[i].Full < out[j].Full })
	return out
}

// constStringMap reads a package-level `var X = map[string]T{...}` whose keys
// are constant strings and whose values are constants.
func constStringMap(p *core.Prog, rel, name string) (map[string]constant.Value, token.Pos) {
	pk := p.Pkg(rel)
	if pk == nil {
		return nil, token.NoPos
	}
	obj := pk.Types.Scope().Lookup(name)
	if obj == nil {
		return nil, token.NoPos
	}
	for _, f := range pk.Syntax {
		for _, d := range f.Decls {
			gd, ok := d.(*ast.GenDecl)
			if !ok {
				continue
			}
			for _, sp := range gd.Specs {
				vs, ok := sp.(*ast.ValueSpec)
				if !ok {
					continue
				}
				for i, id := range vs.Names {
					if pk.TypesInfo.Defs[id] != obj || i >= len(vs.Values) {
						continue
					}
					cl, ok := vs.Values[i].(*ast.CompositeLit)
					if !ok {
						return nil, id.Pos()
					}
					out := map[string]constant.Value{}
					for _, el := range cl.Elts {
						kv, ok := el.(*ast.KeyValueExpr)
						if !ok {
							return nil, id.Pos()
						}
						k := pk.TypesInfo.Types[kv.Key].Value
						v := pk.TypesInfo.Types[kv.Value].Value
						if k == nil || v == nil || k.Kind() != constant.String {
							return nil, id.Pos()
						}
						out[constant.StringVal(k)] = v
					}
					return out, id.Pos()
				}
			}
		}
	}
	return nil, token.NoPos
}

// returnedClosure finds the function literal returned by fi.
func returnedClosure(fi *core.FuncInfo) *ast.FuncLit {
	var lit *ast.FuncLit
	if fi == nil || fi.Decl.Body == nil {
		return nil
	}
	for _, s := range fi.Decl.Body.List {
		if r, ok := s.(*ast.ReturnStmt); ok && len(r.Results) == 1 {
			if fl, ok := r.Results[0].(*ast.FuncLit); ok {
				lit = fl
			}
		}
	}
	return lit
}

// interceptorSpec describes one auth interceptor closure to analyse.
type interceptorSpec struct {
	name    string
	pkg     *core.FuncInfo
	lit     *ast.FuncLit
	info    *types.Info
	stream  bool
	table   map[string]constant.Value // MethodMap
	tableOb types.Object
}

// checkInterceptor specialises the interceptor closure for method m and checks
// that every reachable handler call is preceded by a checked Validate and a
// checked Enforce(user, <request graph>, MethodMap[m]), and that some handler
// call is reachable.  Results are recorded under rule R2 with key prefix kp.
func checkInterceptor(p *core.Prog, res *core.Result, is *interceptorSpec, m rpcMethod, rule, kp string, c05 *c05ctx) {
	info := is.info
	lit := is.lit
	var infoParam, handlerParam types.Object
	for _, fld := range lit.Type.Params.List {
		for _, nm := range fld.Names {
			o := info.Defs[nm]
			t := o.Type().String()
			switch {
			case strings.HasSuffix(t, "grpc.UnaryServerInfo"), strings.HasSuffix(t, "grpc.StreamServerInfo"):
				infoParam = o
			case strings.HasSuffix(t, "grpc.UnaryHandler"), strings.HasSuffix(t, "grpc.StreamHandler"):
				handlerParam = o
			}
		}
	}
	if infoParam == nil || handlerParam == nil {
		res.Unres(rule, kp+m.Full, p.Pos(lit.Pos()), "interceptor closure has no info/handler parameter of the grpc types")
		return
	}
	wantOp, inTable := is.table[m.Full]
	userVars := map[types.Object]bool{}
	graphVars := map[types.Object]string{} // var -> how it was derived from the request
	wrapVars := map[types.Object]types.Type{}
	var enforceNotes []string

	fl := &core.Flow{Prog: p, Info: info, Body: lit.Body}
	fl.Const = func(e ast.Expr, st *core.State) (constant.Value, bool) {
		if sel, ok := e.(*ast.SelectorExpr); ok {
			if id, ok := sel.X.(*ast.Ident); ok && info.Uses[id] == infoParam {
				switch sel.Sel.Name {
				case "FullMethod":
					return constant.MakeString(m.Full), true
				case "IsServerStream":
					return constant.MakeBool(m.ServerStream), true
				case "IsClientStream":
					return constant.MakeBool(m.ClientStream), true
				}
			}
		}
		return nil, false
	}
	isTable := func(e ast.Expr) (ast.Expr, bool) {
		ix, ok := ast.Unparen(e).(*ast.IndexExpr)
		if !ok {
			return nil, false
		}
		if id, ok := ix.X.(*ast.Ident); ok && info.Uses[id] == is.tableOb {
			return ix.Index, true
		}
		if sel, ok := ix.X.(*ast.SelectorExpr); ok && info.Uses[sel.Sel] == is.tableOb {
			return ix.Index, true
		}
		return nil, false
	}
	fl.CommaOk = func(rhs ast.Expr, st *core.State) (constant.Value, bool, bool, bool) {
		if k, ok := isTable(rhs); ok {
			if kv, ok := fl.Eval(k, st); ok && kv.Kind() == constant.String {
				v, present := is.table[constant.StringVal(kv)]
				return v, present, present, true
			}
		}
		return nil, false, false, false
	}
	fl.Events = func(n ast.Node, st *core.State) ([]string, bool) {
		as, _ := n.(*ast.AssignStmt)
		for _, call := range core.CallsIn(n) {
			fn := core.CalleeFunc(info, call)
			if fn == nil {
				continue
			}
			switch {
			case fn.Name() == "Validate" && c05.isIfaceMethod(fn, "Authenticate"):
				if as != nil && len(as.Lhs) == 2 {
					if o := defOrUse(info, as.Lhs[0]); o != nil {
						userVars[o] = true
					}
				}
				return []string{"validate"}, true
			case fn.Name() == "getUnaryRequestGraph" || c05.graphExtractors[fn]:
				if as != nil && len(as.Lhs) == 2 && len(call.Args) == 2 {
					if o := defOrUse(info, as.Lhs[0]); o != nil {
						graphVars[o] = "result of " + fn.Name()
					}
				}
			case fn.Name() == "NewStreamOutWrapper" && core.InRepo(fn):
				if as != nil && len(as.Lhs) == 2 {
					if o := defOrUse(info, as.Lhs[0]); o != nil {
						if pt, ok := o.Type().(*types.Pointer); ok {
							if nn, ok := pt.Elem().(*types.Named); ok && nn.TypeArgs().Len() == 1 {
								wrapVars[o] = nn.TypeArgs().At(0)
							}
						}
					}
				}
				return []string{"wrapped"}, true
			case fn.Name() == "Enforce" && c05.isIfaceMethod(fn, "Access"):
				if len(call.Args) != 3 {
					continue
				}
				okUser := false
				if o := defOrUse(info, call.Args[0]); o != nil && userVars[o] {
					okUser = true
				}
				okGraph := false
				if o := defOrUse(info, call.Args[1]); o != nil && graphVars[o] != "" {
					okGraph = true
				} else if sel, ok := ast.Unparen(call.Args[1]).(*ast.SelectorExpr); ok && sel.Sel.Name == "Graph" {
					if s2, ok := sel.X.(*ast.SelectorExpr); ok && s2.Sel.Name == "Request" {
						if o := defOrUse(info, s2.X); o != nil && wrapVars[o] != nil {
							okGraph = true
						}
					}
				}
				if !okGraph && !reqHasGraph(m.ReqType) {
					// a request without a graph field is authorised against the wildcard graph
					if gv, ok := fl.Eval(call.Args[1], st); ok && gv.Kind() == constant.String && constant.StringVal(gv) == "*" {
						okGraph = true
					}
				}
				opv, opKnown := fl.Eval(call.Args[2], st)
				okOp := opKnown && inTable && constant.Compare(opv, token.EQL, wantOp)
				if okUser && okGraph && okOp {
					return []string{"enforce"}, true
				}
				enforceNotes = append(enforceNotes, fmt.Sprintf("Enforce at %s not credited: user-from-Validate=%v graph-from-request=%v op==MethodMap[%s]=%v",
					p.Pos(call.Pos()), okUser, okGraph, m.Full, okOp))
			}
		}
		return nil, false
	}
	fl.Run()
	handlerCalls := 0
	bad := false
	fl.Walk(func(n ast.Node, st *core.State, b *cfg.Block) {
		for _, call := range core.CallsIn(n) {
			id, ok := ast.Unparen(call.Fun).(*ast.Ident)
			if !ok || info.Uses[id] != handlerParam {
				continue
			}
			handlerCalls++
			res.CallSites++
			missing := []string{}
			if !st.Held["validate"] {
				missing = append(missing, "checked Authenticate.Validate")
			}
			filtered := false
			if is.stream && len(call.Args) == 2 {
				if u, ok := ast.Unparen(call.Args[1]).(*ast.UnaryExpr); ok && u.Op == token.AND {
					if cl, ok := u.X.(*ast.CompositeLit); ok {
						if nn, ok := info.TypeOf(cl).(*types.Named); ok && c05.filterOK[nn.Obj()] {
							filtered = true
						}
					}
				}
				// wrapped request type must be the method's request type
				if o := defOrUse(info, call.Args[1]); o != nil && wrapVars[o] != nil && m.ReqType != nil {
					if pt, ok := m.ReqType.(*types.Pointer); ok && !types.Identical(pt.Elem(), wrapVars[o]) {
						missing = append(missing, fmt.Sprintf("stream wrapper carries %s but the method's request type is %s", wrapVars[o], pt.Elem()))
					}
				}
			}
			if !st.Held["enforce"] && !filtered {
				missing = append(missing, "checked Access.Enforce(user, request graph, MethodMap[method])")
			}
			if len(missing) > 0 {
				bad = true
				note := fmt.Sprintf("method %s reaches its handler at %s without %s", m.Full, p.Pos(call.Pos()), strings.Join(missing, " and "))
				if len(enforceNotes) > 0 {
					note += "; " + strings.Join(enforceNotes, "; ")
				}
				res.Bad(rule, kp+m.Full, p.Pos(call.Pos()), note, fl.TraceTo(b)...)
			}
		}
	})
	if handlerCalls == 0 {
		note := fmt.Sprintf("method %s can never reach its handler through %s (uncallable even with no accounts configured)", m.Full, is.name)
		if !inTable && !is.stream {
			note += "; it is not a key of accounts.MethodMap"
		}
		res.Bad(rule, kp+m.Full, p.Pos(lit.Pos()), note)
		return
	}
	if !bad {
		res.OK(rule, kp+m.Full, p.Pos(lit.Pos()), fmt.Sprintf("%d handler call(s) reachable, each after Validate and Enforce", handlerCalls))
	}
}

// reqHasGraph reports whether the request message type has a Graph field.
func reqHasGraph(t types.Type) bool {
	if t == nil {
		return true // unknown: demand a request-derived graph
	}
	if pt, ok := t.(*types.Pointer); ok {
		t = pt.Elem()
	}
	st, ok := t.Underlying().(*types.Struct)
	if !ok {
		return true
	}
	for i := 0; i < st.NumFields(); i++ {
		if st.Field(i).Name() == "Graph" {
			return true
		}
	}
	return false
}

func defOrUse(info *types.Info, e ast.Expr) types.Object {
	id, ok := ast.Unparen(e).(*ast.Ident)
	if !ok {
		return nil
	}
	if o := info.Defs[id]; o != nil {
		return o
	}
	return info.Uses[id]
}

type c05ctx struct {
	p               *core.Prog
	accounts        string
	filterOK        map[types.Object]bool
	graphExtractors map[*types.Func]bool
}

func (c *c05ctx) isIfaceMethod(fn *types.Func, iface string) bool {
	sig := fn.Type().(*types.Signature)
	if sig.Recv() == nil {
		return false
	}
	it := c.p.Iface(c.accounts, iface)
	if it == nil {
		return false
	}
	rt := sig.Recv().Type()
	if types.IsInterface(rt) {
		n, _ := rt.(*types.Named)
		return n != nil && n.Obj().Name() == iface && core.InRepo(n.Obj())
	}
	return types.Implements(rt, it) || types.Implements(types.NewPointer(rt), it)
}

// checkExtractor verifies getUnaryRequestGraph for method m: there is a case
// for m whose type assertion (if any) is the method's request type, and the
// returned graph is either a field of the asserted request or a constant.
func checkExtractor(p *core.Prog, res *core.Result, fi *core.FuncInfo, m rpcMethod, rule string) {
	info := fi.Pkg.TypesInfo
	var reqParam types.Object
	if fi.Decl.Type.Params != nil && len(fi.Decl.Type.Params.List) > 0 && len(fi.Decl.Type.Params.List[0].Names) > 0 {
		reqParam = info.Defs[fi.Decl.Type.Params.List[0].Names[0]]
	}
	found := false
	ast.Inspect(fi.Decl.Body, func(n ast.Node) bool {
		sw, ok := n.(*ast.SwitchStmt)
		if !ok || sw.Tag == nil {
			return true
		}
		for _, c := range sw.Body.List {
			cc := c.(*ast.CaseClause)
			match := false
			for _, e := range cc.List {
				if tv, ok := info.Types[e]; ok && tv.Value != nil && tv.Value.Kind() == constant.String && constant.StringVal(tv.Value) == m.Full {
					match = true
				}
			}
			if !match {
				continue
			}
			found = true
			okAssert := true
			var note string
			asserted := map[types.Object]bool{}
			for _, s := range cc.Body {
				if as, ok := s.(*ast.AssignStmt); ok && len(as.Lhs) == 1 && len(as.Rhs) == 1 {
					if ta, ok := as.Rhs[0].(*ast.TypeAssertExpr); ok && defOrUse(info, ta.X) == reqParam {
						if o := defOrUse(info, as.Lhs[0]); o != nil {
							asserted[o] = true
						}
					}
				}
				if ret, ok := s.(*ast.ReturnStmt); ok && len(ret.Results) == 2 {
					g := ast.Unparen(ret.Results[0])
					fromReq := false
					if sel, ok := g.(*ast.SelectorExpr); ok && sel.Sel.Name == "Graph" {
						if o := defOrUse(info, sel.X); o != nil && asserted[o] {
							fromReq = true
						}
					}
					tv := info.Types[g]
					isStar := tv.Value != nil && tv.Value.Kind() == constant.String && constant.StringVal(tv.Value) == "*"
					if reqHasGraph(m.ReqType) && !fromReq {
						okAssert = false
						note = fmt.Sprintf("case for %s does not return the Graph field of its request (%s has one): authorisation would be decided for another graph than the one the handler uses", m.Full, m.ReqType)
					} else if !reqHasGraph(m.ReqType) && !isStar {
						okAssert = false
						note = fmt.Sprintf("case for %s (request without a graph) must authorise against the wildcard graph \"*\"", m.Full)
					}
				}
			}
			for _, s := range cc.Body {
				ast.Inspect(s, func(x ast.Node) bool {
					ta, ok := x.(*ast.TypeAssertExpr)
					if !ok || ta.Type == nil {
						return true
					}
					if o := defOrUse(info, ta.X); o == nil || o != reqParam {
						return true
					}
					at := info.TypeOf(ta.Type)
					if m.ReqType != nil && !types.Identical(at, m.ReqType) {
						okAssert = false
						note = fmt.Sprintf("case for %s asserts the request to %s but the method's request type is %s (panics on every call)", m.Full, at, m.ReqType)
					}
					return true
				})
			}
			if okAssert {
				res.OK(rule, "extract|"+m.Full, p.Pos(cc.Pos()), "case present; asserted type equals the request type; returns the request's graph (or \"*\" for graph-less requests)")
			} else {
				res.Bad(rule, "extract|"+m.Full, p.Pos(cc.Pos()), note)
			}
		}
		return true
	})
	if !found {
		res.Bad(rule, "extract|"+m.Full, p.Pos(fi.Decl.Pos()), fmt.Sprintf("getUnaryRequestGraph has no case for unary method %s: the call fails with 'unknown op' for every user", m.Full))
	}
}

// checkRecvFilter verifies that a stream filter's RecvMsg returns a nil error
// only after a checked Enforce(_, <received element>.Graph, wantOp).
func checkRecvFilter(p *core.Prog, res *core.Result, fi *core.FuncInfo, wantOp constant.Value, c *c05ctx, rule, key string) bool {
	info := fi.Pkg.TypesInfo
	fl := &core.Flow{Prog: p, Info: info, Body: fi.Decl.Body}
	recvVars := map[types.Object]bool{}
	fl.Events = func(n ast.Node, st *core.State) ([]string, bool) {
		for _, call := range core.CallsIn(n) {
			fn := core.CalleeFunc(info, call)
			if fn == nil {
				continue
			}
			if fn.Name() == "RecvMsg" && len(call.Args) == 1 {
				if u, ok := ast.Unparen(call.Args[0]).(*ast.UnaryExpr); ok && u.Op == token.AND {
					if o := defOrUse(info, u.X); o != nil {
						recvVars[o] = true
					}
				}
			}
			if fn.Name() == "Enforce" && c.isIfaceMethod(fn, "Access") && len(call.Args) == 3 {
				okGraph := false
				if sel, ok := ast.Unparen(call.Args[1]).(*ast.SelectorExpr); ok && sel.Sel.Name == "Graph" {
					if o := defOrUse(info, sel.X); o != nil && recvVars[o] {
						okGraph = true
					}
				}
				opv, known := fl.Eval(call.Args[2], st)
				if okGraph && known && wantOp != nil && constant.Compare(opv, token.EQL, wantOp) {
					return []string{"enforce"}, true
				}
			}
		}
		return nil, false
	}
	fl.Run()
	sig := fi.Obj.Type().(*types.Signature)
	ok := true
	n := 0
	fl.ExitStates(func(ret *ast.ReturnStmt, st *core.State, b *cfg.Block) {
		n++
		if fl.ErrResultNil(ret, st, sig) == core.No {
			return
		}
		// `return err` straight after the underlying RecvMsg failed is an error return
		if ret != nil && len(ret.Results) == 1 {
			if o := defOrUse(info, ret.Results[0]); o != nil && st.NonNil[o] {
				return
			}
		}
		if !st.Held["enforce"] {
			ok = false
			pos := fi.Decl.End()
			if ret != nil {
				pos = ret.Pos()
			}
			res.Bad(rule, key, p.Pos(pos), "stream filter delivers an element (returns a possibly-nil error) on a path without a checked Access.Enforce on the received element's graph", fl.TraceTo(b)...)
		}
	})
	// the delivered element must be the received one
	delivered := false
	ast.Inspect(fi.Decl.Body, func(x ast.Node) bool {
		as, isAs := x.(*ast.AssignStmt)
		if !isAs || len(as.Lhs) != 1 || len(as.Rhs) != 1 {
			return true
		}
		if st, isStar := as.Lhs[0].(*ast.StarExpr); isStar {
			_ = st
			if o := defOrUse(info, as.Rhs[0]); o != nil && recvVars[o] {
				delivered = true
			} else {
				ok = false
				res.Bad(rule, key, p.Pos(as.Pos()), "stream filter delivers a value other than the element it enforced")
			}
		}
		return true
	})
	if ok && n > 0 && delivered {
		res.OK(rule, key, p.Pos(fi.Decl.Pos()), fmt.Sprintf("%d exits; nil-error exits all follow a checked Enforce on the received element", n))
	}
	return ok && n > 0 && delivered
}

func c05(p *core.Prog, res *core.Result) {
	res.Explanation = "C05 (structural clause): every method of every registered gRPC service is mediated. " +
		"R1 table totality: each unary method is a MethodMap key and has a request-graph extractor case of the right request type. " +
		"R2 per-method specialisation of both auth interceptor closures (info.FullMethod/IsServerStream/IsClientStream fixed, infeasible branches pruned; forward must-dataflow over go/cfg): " +
		"every reachable handler call follows a checked Validate and a checked Enforce(user-from-Validate, graph-from-request, MethodMap[method]) and at least one handler call is reachable. " +
		"R3 the bulk write filter returns nil only after a checked Enforce(Write) on the element it delivers. " +
		"R4 the auth interceptors are members of the chains given to grpc.NewServer and are passed to every direct client built on the real server; no Register*HandlerServer. " +
		"R5 every generated direct-client shim, when an interceptor is set, routes through it with the right FullMethod and stream flags and never calls the server directly."
	res.NotDecided = []string{"correctness of the policy engine (casbin) and of credential parsing", "what each handler does with the graph name after the check",
		"grpc-go's interceptor chaining semantics (trusted)"}
	res.Assumptions = []string{"grpc-go calls the configured interceptor chain for every RPC of a registered service", "grpc_middleware.Chain*Server invokes its members in order, each able to stop the call"}
	res.Rule("R1", "every unary RPC is a key of accounts.MethodMap and has an extractor case asserting its own request type", 40)
	res.Rule("R2", "per method: Validate and Enforce(MethodMap[m]) dominate every reachable handler call; a handler call is reachable", 25)
	res.Rule("R3", "BulkWriteFilter.RecvMsg returns nil only after a checked Enforce(Write) on the delivered element", 1)
	res.Rule("R4", "auth interceptors installed on grpc.NewServer and on every direct client of the real server; no HandlerServer registration", 7)
	res.Rule("R5", "generated direct-client shims route through the interceptor with the method's FullMethod and stream flags", 25)
	res.Rule("SELF", "rule self-test on tiny positive/negative interceptors", 4)
	res.Rule("R6", "look-up keys built from several request strings are unambiguous", 0)
	n6 := 0
	for _, fi := range p.AllDecls() {
		if rel := core.RelPkg(fi.Pkg.PkgPath); fi.Decl.Body == nil || rel != "accounts" || strings.HasSuffix(p.Fset.Position(fi.Decl.Pos()).Filename, "_test.go") {
			continue
		}
		n6 += ambiguousKeys(p, res, fi, "R6")
	}
	if n6 == 0 {
		res.OKTrivial("R6", "accounts|no composite key", "-", "no map or sync.Map in the access-control code is keyed by a concatenation of request strings")
	}

	c := &c05ctx{p: p, accounts: "accounts", filterOK: map[types.Object]bool{}, graphExtractors: map[*types.Func]bool{}}
	methods := grpcServices(p, "gripql")
	if len(methods) < 20 {
		res.Fail("only %d gRPC methods found in gripql ServiceDesc literals", len(methods))
		return
	}
	// registered services: Register<Svc>Server called from package server
	registered := map[string]bool{}
	if sp := p.Pkg("server"); sp != nil {
		for _, f := range sp.Syntax {
			ast.Inspect(f, func(n ast.Node) bool {
				if call, ok := n.(*ast.CallExpr); ok {
					if fn := core.CalleeFunc(sp.TypesInfo, call); fn != nil && core.InRepo(fn) &&
						strings.HasPrefix(fn.Name(), "Register") && strings.HasSuffix(fn.Name(), "Server") && !strings.HasSuffix(fn.Name(), "HandlerServer") {
						registered["gripql."+strings.TrimSuffix(strings.TrimPrefix(fn.Name(), "Register"), "Server")] = true
					}
				}
				return true
			})
		}
	}
	var regMethods []rpcMethod
	for _, m := range methods {
		if registered[m.Service] {
			regMethods = append(regMethods, m)
		}
	}
	res.Extra["rpc_methods"] = len(regMethods)
	if len(regMethods) < 20 {
		res.Fail("only %d methods of registered services found", len(regMethods))
		return
	}
	table, tpos := constStringMap(p, "accounts", "MethodMap")
	if table == nil {
		res.Fail("accounts.MethodMap is not a constant map literal any more")
		return
	}
	tableObj := p.Pkg("accounts").Types.Scope().Lookup("MethodMap")

	// R3 first (R2 relies on it)
	writeOp := table["/gripql.Edit/BulkAdd"]
	if bf := p.Func("accounts", "BulkWriteFilter.RecvMsg"); bf != nil {
		res.Fn(core.FuncKey(bf.Obj))
		if checkRecvFilter(p, res, bf, writeOp, c, "R3", "accounts.BulkWriteFilter.RecvMsg") {
			c.filterOK[p.Named("accounts", "BulkWriteFilter").Obj()] = true
		}
	} else {
		res.Fail("accounts.BulkWriteFilter.RecvMsg not found")
	}

	// R1
	ext := p.Func("accounts", "getUnaryRequestGraph")
	if ext == nil {
		res.Fail("accounts.getUnaryRequestGraph not found")
		return
	}
	res.Fn(core.FuncKey(ext.Obj))
	for _, m := range regMethods {
		if !m.unary() {
			continue
		}
		if _, ok := table[m.Full]; ok {
			res.OKTrivial("R1", "methodmap|"+m.Full, p.Pos(tpos), "key present")
		} else {
			res.Bad("R1", "methodmap|"+m.Full, p.Pos(tpos), fmt.Sprintf("unary method %s is not a key of accounts.MethodMap: the interceptor answers 'Unknown method' to every caller, also with no accounts configured", m.Full))
		}
		checkExtractor(p, res, ext, m, "R1")
	}
	// stale rows (informational, not a violation): keys naming no method
	var stale []string
	full := map[string]bool{}
	for _, m := range methods {
		full[m.Full] = true
	}
	for k := range table {
		if !full[k] {
			stale = append(stale, k)
		}
	}
	sort.Strings(stale)
	res.Extra["methodmap_rows_naming_no_method"] = stale

	// R2
	ufi := p.Func("accounts", "unaryAuthInterceptor")
	sfi := p.Func("accounts", "streamAuthInterceptor")
	if ufi == nil || sfi == nil || returnedClosure(ufi) == nil || returnedClosure(sfi) == nil {
		res.Fail("accounts.unaryAuthInterceptor/streamAuthInterceptor closures not found")
		return
	}
	res.Fn(core.FuncKey(ufi.Obj))
	res.Fn(core.FuncKey(sfi.Obj))
	uis := &interceptorSpec{name: "unaryAuthInterceptor", pkg: ufi, lit: returnedClosure(ufi), info: ufi.Pkg.TypesInfo, table: table, tableOb: tableObj}
	sis := &interceptorSpec{name: "streamAuthInterceptor", pkg: sfi, lit: returnedClosure(sfi), info: sfi.Pkg.TypesInfo, stream: true, table: table, tableOb: tableObj}
	for _, m := range regMethods {
		if m.unary() {
			checkInterceptor(p, res, uis, m, "R2", "unary|", c)
		} else {
			checkInterceptor(p, res, sis, m, "R2", "stream|", c)
		}
	}

	c05install(p, res, c)
	c05shims(p, res, methods)
}

// reachesCall reports whether expression e (following single-assignment local
// definitions and the wrapper calls listed) contains a call to target.
func reachesCall(info *types.Info, defs map[types.Object]ast.Expr, e ast.Expr, target func(*types.Func) bool, depth int) bool {
	if depth > 8 || e == nil {
		return false
	}
	switch x := ast.Unparen(e).(type) {
	case *ast.Ident:
		if o := info.Uses[x]; o != nil {
			if d, ok := defs[o]; ok {
				return reachesCall(info, defs, d, target, depth+1)
			}
		}
	case *ast.CallExpr:
		if fn := core.CalleeFunc(info, x); fn != nil {
			if target(fn) {
				return true
			}
			// wrappers whose result contains their arguments
			switch fn.Name() {
			case "UnaryInterceptor", "StreamInterceptor", "ChainUnaryServer", "ChainStreamServer",
				"ChainUnaryInterceptor", "ChainStreamInterceptor", "DirectUnaryInterceptor", "DirectStreamInterceptor":
				for _, a := range x.Args {
					if reachesCall(info, defs, a, target, depth+1) {
						return true
					}
				}
			}
		}
	}
	return false
}

// localDefs maps every local variable of body that is assigned exactly once to
// its defining expression.
func localDefs(info *types.Info, body ast.Node) map[types.Object]ast.Expr {
	defs := map[types.Object]ast.Expr{}
	count := map[types.Object]int{}
	ast.Inspect(body, func(n ast.Node) bool {
		if as, ok := n.(*ast.AssignStmt); ok {
			for i, l := range as.Lhs {
				o := defOrUse(info, l)
				if o == nil {
					continue
				}
				count[o]++
				if len(as.Lhs) == len(as.Rhs) {
					defs[o] = as.Rhs[i]
				} else {
					defs[o] = nil
				}
			}
		}
		return true
	})
	for o, n := range count {
		if n != 1 || defs[o] == nil {
			delete(defs, o)
		}
	}
	return defs
}

func c05install(p *core.Prog, res *core.Result, c *c05ctx) {
	cfgT := p.Named("accounts", "Config")
	isCfgMethod := func(name string) func(*types.Func) bool {
		return func(fn *types.Func) bool {
			if fn.Name() != name {
				return false
			}
			sig := fn.Type().(*types.Signature)
			if sig.Recv() == nil || cfgT == nil {
				return false
			}
			rt := sig.Recv().Type()
			if pt, ok := rt.(*types.Pointer); ok {
				rt = pt.Elem()
			}
			return types.Identical(rt, cfgT)
		}
	}
	gripServer := p.Named("server", "GripServer")
	newServers, directs := 0, 0
	for _, pk := range p.Pkgs {
		for _, f := range pk.Syntax {
			for _, d := range f.Decls {
				fd, ok := d.(*ast.FuncDecl)
				if !ok || fd.Body == nil {
					continue
				}
				info := pk.TypesInfo
				var defs map[types.Object]ast.Expr
				fkey := core.FuncKey(info.Defs[fd.Name].(*types.Func))
				ast.Inspect(fd.Body, func(n ast.Node) bool {
					call, ok := n.(*ast.CallExpr)
					if !ok {
						return true
					}
					fn := core.CalleeFunc(info, call)
					if fn == nil || fn.Pkg() == nil {
						return true
					}
					if defs == nil {
						defs = localDefs(info, fd.Body)
					}
					switch {
					case fn.Pkg().Path() == "google.golang.org/grpc" && fn.Name() == "NewServer" && core.RelPkg(pk.PkgPath) == "server":
						newServers++
						res.CallSites++
						res.Fn(fkey)
						hasU, hasS := false, false
						for _, a := range call.Args {
							if reachesCall(info, defs, a, isCfgMethod("UnaryInterceptor"), 0) {
								hasU = true
							}
							if reachesCall(info, defs, a, isCfgMethod("StreamInterceptor"), 0) {
								hasS = true
							}
						}
						key := "grpc.NewServer|" + fkey
						if hasU && hasS {
							res.OK("R4", key, p.Pos(call.Pos()), "both auth interceptors are members of the server's chains")
						} else {
							res.Bad("R4", key, p.Pos(call.Pos()), fmt.Sprintf("grpc.NewServer options: unary auth interceptor installed=%v, stream auth interceptor installed=%v", hasU, hasS))
						}
					case core.InRepo(fn) && strings.HasPrefix(fn.Name(), "New") && strings.HasSuffix(fn.Name(), "DirectClient") && len(call.Args) >= 1:
						if strings.HasSuffix(p.Fset.Position(call.Pos()).Filename, "_test.go") {
							return true
						}
						directs++
						res.CallSites++
						res.Fn(fkey)
						key := fmt.Sprintf("%s|%s#%d", fn.Name(), fkey, directs)
						st := info.TypeOf(call.Args[0])
						base := st
						if pt, ok := base.(*types.Pointer); ok {
							base = pt.Elem()
						}
						if gripServer != nil && types.Identical(base, gripServer) {
							hasU, hasS := false, false
							for _, a := range call.Args[1:] {
								if reachesCall(info, defs, a, isCfgMethod("UnaryInterceptor"), 0) {
									hasU = true
								}
								if reachesCall(info, defs, a, isCfgMethod("StreamInterceptor"), 0) {
									hasS = true
								}
							}
							// order-insensitive key: service + enclosing function + ordinal among same-service calls
							if hasU && hasS {
								res.OK("R4", key, p.Pos(call.Pos()), "direct client of the real server carries both auth interceptors")
							} else {
								res.Bad("R4", key, p.Pos(call.Pos()), fmt.Sprintf("direct (HTTP gateway) client of the real server built with unary auth=%v stream auth=%v: requests through it bypass authorisation", hasU, hasS))
							}
						} else if nn, ok := base.(*types.Named); ok && dataFreeServer(nn) {
							res.OK("R4", key, p.Pos(call.Pos()), "server type "+nn.Obj().Name()+" has no data fields (serves no graph data): exempt")
						} else {
							res.Unres("R4", key, p.Pos(call.Pos()), fmt.Sprintf("direct client built on %s, which is neither the real server nor a data-free stub", st))
						}
					case core.InRepo(fn) && strings.HasPrefix(fn.Name(), "Register") && strings.HasSuffix(fn.Name(), "HandlerServer"):
						res.Bad("R4", "HandlerServer|"+fkey+"|"+fn.Name(), p.Pos(call.Pos()), fn.Name()+" wires the HTTP gateway straight to the server implementation, bypassing every gRPC interceptor")
					}
					return true
				})
			}
		}
	}
	if newServers == 0 {
		res.Fail("no grpc.NewServer call found in package server")
	}
}

// dataFreeServer reports whether the struct has only embedded Unimplemented* fields.
func dataFreeServer(n *types.Named) bool {
	st, ok := n.Underlying().(*types.Struct)
	if !ok {
		return false
	}
	for i := 0; i < st.NumFields(); i++ {
		f := st.Field(i)
		if !f.Embedded() || !strings.HasPrefix(f.Name(), "Unimplemented") {
			return false
		}
	}
	return true
}

// c05shims checks the generated direct-client shims (R5).
func c05shims(p *core.Prog, res *core.Result, methods []rpcMethod) {
	pk := p.Pkg("gripql")
	info := pk.TypesInfo
	bySvc := map[string]map[string]rpcMethod{}
	for _, m := range methods {
		s := strings.TrimPrefix(m.Service, "gripql.")
		if bySvc[s] == nil {
			bySvc[s] = map[string]rpcMethod{}
		}
		bySvc[s][m.Name] = m
	}
	for svc, ms := range bySvc {
		named := p.Named("gripql", svc+"DirectClient")
		if named == nil {
			res.Unres("R5", "shim-type|"+svc, "-", "no "+svc+"DirectClient type")
			continue
		}
		var names []string
		for n := range ms {
			names = append(names, n)
		}
		sort.Strings(names)
		for _, mn := range names {
			m := ms[mn]
			fi := p.Method(named, mn)
			key := "shim|" + svc + "." + mn
			if fi == nil {
				res.Bad("R5", key, p.Pos(named.Obj().Pos()), "direct client has no shim for "+m.Full)
				continue
			}
			res.Fn(core.FuncKey(fi.Obj))
			var recv types.Object
			if fi.Decl.Recv != nil && len(fi.Decl.Recv.List) > 0 && len(fi.Decl.Recv.List[0].Names) > 0 {
				recv = info.Defs[fi.Decl.Recv.List[0].Names[0]]
			}
			isField := func(e ast.Expr, names ...string) bool {
				sel, ok := ast.Unparen(e).(*ast.SelectorExpr)
				if !ok {
					return false
				}
				if o := defOrUse(info, sel.X); o == nil || o != recv {
					return false
				}
				for _, n := range names {
					if sel.Sel.Name == n {
						return true
					}
				}
				return false
			}
			intField := "unaryServerInt"
			if !m.unary() {
				intField = "streamServerInt"
			}
			// specialise: interceptor field is set
			var problems []string
			intCalls, directCalls := 0, 0
			var visitBody func(body *ast.BlockStmt)
			visitBody = func(body *ast.BlockStmt) {
				fl := &core.Flow{Prog: p, Info: info, Body: body}
				fl.Const = func(e ast.Expr, st *core.State) (constant.Value, bool) {
					if be, ok := e.(*ast.BinaryExpr); ok && (be.Op == token.NEQ || be.Op == token.EQL) {
						var other ast.Expr
						if isField(be.X, intField) {
							other = be.Y
						} else if isField(be.Y, intField) {
							other = be.X
						}
						if other != nil {
							if id, ok := ast.Unparen(other).(*ast.Ident); ok && id.Name == "nil" {
								return constant.MakeBool(be.Op == token.NEQ), true
							}
						}
					}
					return nil, false
				}
				fl.Run()
				fl.Walk(func(n ast.Node, st *core.State, b *cfg.Block) {
					// nested closures executed by go/defer/immediately
					ast.Inspect(n, func(x ast.Node) bool {
						switch y := x.(type) {
						case *ast.GoStmt:
							if l, ok := y.Call.Fun.(*ast.FuncLit); ok {
								visitBody(l.Body)
							}
						case *ast.DeferStmt:
							if l, ok := y.Call.Fun.(*ast.FuncLit); ok {
								visitBody(l.Body)
							}
						case *ast.FuncLit:
							return false
						}
						return true
					})
					var calls []*ast.CallExpr
					ast.Inspect(n, func(x ast.Node) bool {
						if _, ok := x.(*ast.FuncLit); ok {
							return false
						}
						if c, ok := x.(*ast.CallExpr); ok {
							calls = append(calls, c)
						}
						return true
					})
					for _, call := range calls {
						if isField(call.Fun, intField) {
							intCalls++
							res.CallSites++
							// third argument: &info
							if len(call.Args) == 4 {
								if u, ok := ast.Unparen(call.Args[2]).(*ast.UnaryExpr); ok && u.Op == token.AND {
									if o := defOrUse(info, u.X); o != nil {
										if !shimInfoOK(info, fi.Decl.Body, o, m, &problems) {
											// problems filled
										}
									}
								}
							}
						} else if sel, ok := ast.Unparen(call.Fun).(*ast.SelectorExpr); ok && isField(sel.X, "server") {
							directCalls++
							problems = append(problems, fmt.Sprintf("calls shim.server.%s directly at %s although an interceptor is set", sel.Sel.Name, p.Pos(call.Pos())))
						}
					}
				})
			}
			visitBody(fi.Decl.Body)
			if intCalls == 0 {
				problems = append(problems, "never invokes shim."+intField+" when it is set")
			}
			if len(problems) == 0 {
				res.OK("R5", key, p.Pos(fi.Decl.Pos()), "routes through "+intField+" with FullMethod "+m.Full)
			} else {
				res.Bad("R5", key, p.Pos(fi.Decl.Pos()), "HTTP-gateway shim for "+m.Full+": "+strings.Join(problems, "; "))
			}
		}
	}
}

// shimInfoOK checks the composite literal that defines the info variable.
func shimInfoOK(info *types.Info, body *ast.BlockStmt, infoVar types.Object, m rpcMethod, problems *[]string) bool {
	ok := false
	ast.Inspect(body, func(n ast.Node) bool {
		as, isAs := n.(*ast.AssignStmt)
		if !isAs || len(as.Lhs) != 1 || len(as.Rhs) != 1 || defOrUse(info, as.Lhs[0]) != infoVar {
			return true
		}
		cl, isCl := as.Rhs[0].(*ast.CompositeLit)
		if !isCl {
			return true
		}
		full := ""
		ss, cs := false, false
		for _, el := range cl.Elts {
			kv, isKv := el.(*ast.KeyValueExpr)
			if !isKv {
				continue
			}
			v := info.Types[kv.Value].Value
			if v == nil {
				continue
			}
			switch kv.Key.(*ast.Ident).Name {
			case "FullMethod":
				if v.Kind() == constant.String {
					full = constant.StringVal(v)
				}
			case "IsServerStream":
				ss = constant.BoolVal(v)
			case "IsClientStream":
				cs = constant.BoolVal(v)
			}
		}
		if full != m.Full {
			*problems = append(*problems, fmt.Sprintf("passes FullMethod %q (authorised as that method, not as %s)", full, m.Full))
		} else if ss != m.ServerStream || cs != m.ClientStream {
			*problems = append(*problems, fmt.Sprintf("passes IsServerStream=%v IsClientStream=%v but the service descriptor says %v/%v", ss, cs, m.ServerStream, m.ClientStream))
		} else {
			ok = true
		}
		return true
	})
	if !ok && len(*problems) == 0 {
		*problems = append(*problems, "info literal for the interceptor call not found")
	}
	return ok
}

// ---- self test ----------------------------------------------------------


func c05selftest(p *core.Prog, res *core.Result) {
	c := &c05ctx{p: p, accounts: "accounts", filterOK: map[types.Object]bool{}, graphExtractors: map[*types.Func]bool{}}
	rel := core.SelfMod + "/c05"
	fi := p.Func(rel, "Interceptor")
	tbl, _ := constStringMap(p, rel, "Table")
	if fi == nil || tbl == nil || returnedClosure(fi) == nil {
		res.Fail("C05 self-test package did not load")
		return
	}
	is := &interceptorSpec{name: "selftest", pkg: fi, lit: returnedClosure(fi), info: fi.Pkg.TypesInfo, stream: true, table: tbl,
		tableOb: p.Pkg(rel).Types.Scope().Lookup("Table")}
	expect := map[string]core.Status{"/t.S/Good": core.Discharged, "/t.S/Early": core.Violated, "/t.S/Unchecked": core.Violated,
		"/t.S/WrongOp": core.Violated, "/t.S/Missing": core.Violated}
	reqT := types.NewPointer(p.Named("gripql", "GraphQuery"))
	names := []string{"/t.S/Good", "/t.S/Early", "/t.S/Unchecked", "/t.S/WrongOp", "/t.S/Missing"}
	for _, full := range names {
		tmp := core.NewResult("C05", "self")
		checkInterceptor(p, tmp, is, rpcMethod{Full: full, ServerStream: true, ReqType: reqT}, "R2", "self|", c)
		got := core.Discharged
		for _, o := range tmp.Obls {
			if o.Status == core.Violated {
				got = core.Violated
			} else if o.Status == core.Unresolved && got != core.Violated {
				got = core.Unresolved
			}
		}
		if got != expect[full] {
			res.Fail("self-test %s: rule R2 gave %s, expected %s", full, got, expect[full])
		} else {
			res.OKTrivial("SELF", "selftest|"+full, "-", "rule R2 gives "+string(got)+" as expected")
		}
	}
	for name, want := range map[string]core.Status{"OkKeySeparated": core.Discharged, "BadKeyConcatenated": core.Violated} {
		kf := p.Func(rel, name)
		if kf == nil {
			res.Fail("self-test function %s missing", name)
			continue
		}
		tmp := core.NewResult("C05", "self")
		ambiguousKeys(p, tmp, kf, "R6")
		got := core.Unresolved
		for _, o := range tmp.Obls {
			if o.Status == core.Violated {
				got = core.Violated
			} else if got != core.Violated {
				got = o.Status
			}
		}
		if got != want {
			res.Fail("self-test %s: rule R6 gave %s, expected %s", name, got, want)
		} else {
			res.OKTrivial("SELF", "selftest|"+name, "-", "rule R6 gives "+string(got)+" as expected")
		}
	}
}


// ambiguousKeys (R6): a map / sync.Map key that concatenates two or more
// run-time strings with nothing constant between them is the same for different
// tuples ("ab"+"c" = "a"+"bc"); a decision cached or looked up under it is
// shared between different (user, graph, operation) triples.
func ambiguousKeys(p *core.Prog, res *core.Result, fi *core.FuncInfo, rule string) int {
	info := fi.Pkg.TypesInfo
	fkey := core.FuncKey(fi.Obj)
	defs := localDefs(info, fi.Decl.Body)
	n := 0
	seen := map[string]bool{}
	check := func(k ast.Expr, at token.Pos, what string) {
		e := ast.Unparen(k)
		if id, ok := e.(*ast.Ident); ok {
			if d, ok := defs[info.Uses[id]]; ok && d != nil {
				e = ast.Unparen(d)
			}
		}
		if be, ok := e.(*ast.BinaryExpr); !ok || be.Op != token.ADD {
			return
		}
		if t := info.TypeOf(e); t == nil || !types.Identical(t.Underlying(), types.Typ[types.String]) {
			return
		}
		var ops []ast.Expr
		var flat func(x ast.Expr)
		flat = func(x ast.Expr) {
			x = ast.Unparen(x)
			if b, ok := x.(*ast.BinaryExpr); ok && b.Op == token.ADD {
				flat(b.X)
				flat(b.Y)
				return
			}
			ops = append(ops, x)
		}
		flat(e)
		dyn, adjacent := 0, false
		prevDyn := false
		for _, o := range ops {
			tv, isConst := info.Types[o]
			if isConst && tv.Value != nil {
				if constant.StringVal(tv.Value) != "" {
					prevDyn = false
				}
				continue
			}
			dyn++
			if prevDyn {
				adjacent = true
			}
			prevDyn = true
		}
		if dyn < 2 {
			return
		}
		key := fmt.Sprintf("%s|key %s", fkey, types.ExprString(e))
		if seen[key] {
			return
		}
		seen[key] = true
		n++
		res.Fn(fkey)
		if adjacent {
			res.Bad(rule, key, p.Pos(at), fmt.Sprintf("%s uses %s as a %s key: the run-time parts are joined with nothing between them, so different (user, graph, operation) tuples that concatenate to the same string share one entry — a decision taken for one request is applied to another", fkey, types.ExprString(e), what))
		} else {
			res.OK(rule, key, p.Pos(at), "run-time parts are separated by constants")
		}
	}
	ast.Inspect(fi.Decl.Body, func(x ast.Node) bool {
		switch y := x.(type) {
		case *ast.IndexExpr:
			if _, ok := info.TypeOf(y.X).Underlying().(*types.Map); ok {
				check(y.Index, y.Pos(), "map")
			}
		case *ast.CallExpr:
			if sel, ok := y.Fun.(*ast.SelectorExpr); ok && len(y.Args) >= 1 {
				switch sel.Sel.Name {
				case "Load", "Store", "LoadOrStore", "LoadAndDelete", "Delete":
					if t := info.TypeOf(sel.X); t != nil && strings.HasSuffix(strings.TrimPrefix(t.String(), "*"), "sync.Map") {
						check(y.Args[0], y.Pos(), "sync.Map")
					}
				}
			}
		}
		return true
	})
	return n
}
