package props

import (
	"fmt"
	"go/ast"
	"go/constant"
	"go/token"
	"go/types"
	"sort"
	"strings"

	"gripverif/core"

	"golang.org/x/tools/go/cfg"
	"golang.org/x/tools/go/ssa"
)

func init() {
	Registry["C06"] = c06
	SelfTests["C06"] = c06selftest
}

// c06Scope: packages whose request-reachable code is analysed.
var c06Quick = []string{"engine", "engine/core", "engine/logic", "engine/pipeline", "engine/inspect", "engine/queue", "jsonpath", "gdbi", "server",
	"kvgraph", "kvindex", "accounts", "jobstorage", "util", "gripql", "timestamp", "util/protoutil", "util/copy"}
var c06Thorough = []string{"kvi", "kvi/badgerdb", "kvi/boltdb", "kvi/leveldb", "kvi/pebbledb"}

func generatedFile(name string) bool {
	return strings.HasSuffix(name, ".pb.go") || strings.HasSuffix(name, ".pb.gw.go") || strings.HasSuffix(name, ".pb.dgw.go") || strings.HasSuffix(name, ".gw.client.go")
}

type c06ctx struct {
	p      *core.Prog
	res    *core.Result
	fns    []*ssa.Function
	invokeM map[string][]*ssa.Function
	scope   map[string]bool // package paths in the tier's scope (nil: everything)
	derefM map[*ssa.Function]map[int]bool // function -> parameter indices dereferenced without a nil guard
	self   bool
}

func jsonKind(t types.Type) bool {
	switch u := t.Underlying().(type) {
	case *types.Basic:
		return u.Kind() == types.String || u.Kind() == types.Float64 || u.Kind() == types.Bool || u.Kind() == types.Int || u.Kind() == types.Int64
	case *types.Slice:
		it, ok := u.Elem().Underlying().(*types.Interface)
		return ok && it.Empty()
	case *types.Map:
		it, ok := u.Elem().Underlying().(*types.Interface)
		return ok && it.Empty()
	}
	return false
}

// ---- P1: unchecked assertions on dynamic JSON ---------------------------------

func (c *c06ctx) p1(f *ssa.Function) {
	fkey := core.SSAKey(f)
	ord := map[string]int{}
	for _, b := range f.Blocks {
		for _, in := range b.Instrs {
			ta, ok := in.(*ssa.TypeAssert)
			if !ok || ta.CommaOk {
				continue
			}
			it, ok := ta.X.Type().Underlying().(*types.Interface)
			if !ok || !it.Empty() || !jsonKind(ta.AssertedType) {
				continue
			}
			at := types.TypeString(ta.AssertedType, func(*types.Package) string { return "" })
			ord[at]++
			key := fmt.Sprintf("%s|.(%s)#%d", fkey, at, ord[at])
			c.res.CallSites++
			// copy.DeepCopy(x).(T) with x of static type T returns its argument's dynamic type
			if call, ok := ta.X.(*ssa.Call); ok {
				if sc := call.Common().StaticCallee(); sc != nil && sc.Name() == "DeepCopy" && len(call.Common().Args) == 1 {
					arg := call.Common().Args[0]
					if mi, ok := arg.(*ssa.MakeInterface); ok && types.Identical(mi.X.Type(), ta.AssertedType) {
						c.res.OK("P1", key, c.p.Pos(ta.Pos()), "DeepCopy of a value whose static type is the asserted type")
						continue
					}
				}
			}
			// only values that derive from request JSON are in scope of this rule
			src := clientJSON(ta.X, 0, map[ssa.Value]bool{})
			if src == "" {
				c.res.OKTrivial("P1", key, c.p.Pos(ta.Pos()), "operand is not derived from request JSON (typed by the server's own encoders)")
				continue
			}
			c.res.Bad("P1", key, c.p.Pos(ta.Pos()), fmt.Sprintf("%s asserts a value derived from %s to %s without the comma-ok form at %s: a request carrying another JSON kind there panics the serving goroutine (the process exits)",
				fkey, src, at, c.p.Pos(ta.Pos())))
		}
	}
}

// p1b: x == y on two empty-interface operands that both derive from request
// JSON compares dynamic values; when both hold a list or an object the
// comparison panics ("comparing uncomparable type []interface {}").
func (c *c06ctx) p1b(f *ssa.Function) {
	fkey := core.SSAKey(f)
	n := 0
	for _, b := range f.Blocks {
		for _, in := range b.Instrs {
			bo, ok := in.(*ssa.BinOp)
			if !ok || (bo.Op != token.EQL && bo.Op != token.NEQ) {
				continue
			}
			ix, ok1 := bo.X.Type().Underlying().(*types.Interface)
			iy, ok2 := bo.Y.Type().Underlying().(*types.Interface)
			if !ok1 || !ok2 || !ix.Empty() || !iy.Empty() || isNilConst(bo.X) || isNilConst(bo.Y) {
				continue
			}
			sx := clientJSON(bo.X, 0, map[ssa.Value]bool{})
			sy := clientJSON(bo.Y, 0, map[ssa.Value]bool{})
			if sx == "" || sy == "" {
				continue
			}
			n++
			c.res.CallSites++
			key := fmt.Sprintf("%s|iface%s#%d", fkey, bo.Op, n)
			c.res.Bad("P1", key, c.p.Pos(bo.Pos()), fmt.Sprintf("%s compares two interface values derived from request JSON (%s and %s) with %s at %s: when both hold a list or an object the comparison panics (comparing uncomparable type); reflect.DeepEqual is the total comparison", fkey, sx, sy, bo.Op, c.p.Pos(bo.Pos())))
		}
	}
}

// p1c: a request-JSON value used as the key of a map[interface{}]… is hashed
// at run time; a list or an object is unhashable and the access panics.  The
// access must be dominated by tests that exclude both kinds
// (reflect Kind != Slice and != Map, or a type switch / assertion to a scalar).
func (c *c06ctx) p1c(f *ssa.Function) {
	fkey := core.SSAKey(f)
	n := 0
	kindConst := func(v ssa.Value) (int64, bool) {
		k, ok := v.(*ssa.Const)
		if !ok || k.Value == nil {
			return 0, false
		}
		if nn, ok := k.Type().(*types.Named); !ok || nn.Obj().Pkg() == nil || nn.Obj().Pkg().Path() != "reflect" || nn.Obj().Name() != "Kind" {
			return 0, false
		}
		i, ok := constant.Int64Val(k.Value)
		return i, ok
	}
	const kindMap, kindSlice = 21, 23 // reflect.Map, reflect.Slice
	for _, b := range f.Blocks {
		for _, in := range b.Instrs {
			var key ssa.Value
			var pos token.Pos
			switch x := in.(type) {
			case *ssa.MapUpdate:
				key, pos = x.Key, x.Pos()
			case *ssa.Lookup:
				if _, isMap := x.X.Type().Underlying().(*types.Map); isMap {
					key, pos = x.Index, x.Pos()
				}
			}
			if key == nil {
				continue
			}
			it, ok := key.Type().Underlying().(*types.Interface)
			if !ok || !it.Empty() {
				continue
			}
			// a scalar boxed on the spot is hashable
			if mi, ok := key.(*ssa.MakeInterface); ok {
				if _, basic := mi.X.Type().Underlying().(*types.Basic); basic {
					continue
				}
			}
			src := clientJSON(key, 0, map[ssa.Value]bool{})
			if src == "" {
				continue
			}
			n++
			c.res.CallSites++
			k := fmt.Sprintf("%s|mapkey#%d", fkey, n)
			noMap, noSlice := false, false
			for _, fct := range domFacts(b) {
				bo, ok := fct.Cond.(*ssa.BinOp)
				if !ok {
					continue
				}
				for _, side := range []ssa.Value{bo.X, bo.Y} {
					kv, isK := kindConst(side)
					if !isK {
						continue
					}
					excluded := (bo.Op == token.NEQ && fct.Truth) || (bo.Op == token.EQL && !fct.Truth)
					if excluded && kv == kindMap {
						noMap = true
					}
					if excluded && kv == kindSlice {
						noSlice = true
					}
				}
			}
			if noMap && noSlice {
				c.res.OK("P1", k, c.p.Pos(pos), "map key derived from request JSON is used only after its kind was tested not to be a list or an object")
			} else {
				c.res.Bad("P1", k, c.p.Pos(pos), fmt.Sprintf("%s uses a value derived from %s as the key of a map with interface keys at %s without excluding lists and objects (excluded: list %v, object %v): such a value is unhashable and the access panics (hash of unhashable type), which ends the process", fkey, src, c.p.Pos(pos), noSlice, noMap))
			}
		}
	}
}

// clientJSON traces an interface{} value back to a source of request JSON
// ("" = none found): structpb accessors, the jsonpath lookups, element data.
func clientJSON(v ssa.Value, depth int, seen map[ssa.Value]bool) string {
	if v == nil || depth > 10 || seen[v] {
		return ""
	}
	seen[v] = true
	switch x := v.(type) {
	case *ssa.Call:
		switch calleeName(x.Common()) {
		case "AsInterface", "AsMap", "AsSlice", "TravelerPathLookup", "RenderTraveler", "JsonPathLookup", "GetDataMap":
			return calleeName(x.Common()) + "()"
		}
	case *ssa.Extract:
		return clientJSON(x.Tuple, depth+1, seen)
	case *ssa.Parameter:
		// an interface{} parameter of an unexported helper: look at its static callers
		fn := x.Parent()
		if obj, ok := fn.Object().(*types.Func); ok && obj != nil && !obj.Exported() && fn.Pkg != nil {
			idx := -1
			for i, p := range fn.Params {
				if p == x {
					idx = i
				}
			}
			for _, mem := range fn.Pkg.Members {
				caller, ok := mem.(*ssa.Function)
				if !ok {
					continue
				}
				fs := append([]*ssa.Function{caller}, caller.AnonFuncs...)
				for _, cf := range fs {
					for _, blk := range cf.Blocks {
						for _, in := range blk.Instrs {
							if ci, ok := in.(ssa.CallInstruction); ok && ci.Common().StaticCallee() == fn && idx >= 0 && idx < len(ci.Common().Args) {
								if s := clientJSON(ci.Common().Args[idx], depth+1, seen); s != "" {
									return s
								}
							}
						}
					}
				}
			}
		}
	case *ssa.TypeAssert:
		return clientJSON(x.X, depth+1, seen)
	case *ssa.Lookup:
		return clientJSON(x.X, depth+1, seen)
	case *ssa.Index:
		return clientJSON(x.X, depth+1, seen)
	case *ssa.Next:
		return clientJSON(x.Iter, depth+1, seen)
	case *ssa.Range:
		return clientJSON(x.X, depth+1, seen)
	case *ssa.Slice:
		return clientJSON(x.X, depth+1, seen)
	case *ssa.MakeInterface:
		return clientJSON(x.X, depth+1, seen)
	case *ssa.Phi:
		for _, e := range x.Edges {
			if s := clientJSON(e, depth+1, seen); s != "" {
				return s
			}
		}
	case *ssa.UnOp:
		if x.Op == token.MUL {
			switch a := x.X.(type) {
			case *ssa.IndexAddr:
				return clientJSON(a.X, depth+1, seen)
			case *ssa.FieldAddr:
				tn, fn := structFieldName(a.X.Type(), a.Field)
				if (tn == "DataElement" && fn == "Data") || (tn == "BaseTraveler" && fn == "Render") {
					return tn + "." + fn
				}
			case *ssa.Alloc:
				for _, r := range *a.Referrers() {
					if st, ok := r.(*ssa.Store); ok && st.Addr == a {
						if s := clientJSON(st.Val, depth+1, seen); s != "" {
							return s
						}
					}
				}
			}
		}
	}
	return ""
}

// ---- P2: nullable element dereference ----------------------------------------------

func isDataElementPtr(t types.Type) bool {
	pt, ok := types.Unalias(t).(*types.Pointer)
	if !ok {
		return false
	}
	n, ok := types.Unalias(pt.Elem()).(*types.Named)
	return ok && n.Obj().Name() == "DataElement" && n.Obj().Pkg() != nil && strings.HasSuffix(n.Obj().Pkg().Path(), "/gdbi")
}

func structFieldName(t types.Type, idx int) (string, string) {
	t = types.Unalias(t)
	if pt, ok := t.(*types.Pointer); ok {
		t = types.Unalias(pt.Elem())
	}
	n, _ := t.(*types.Named)
	st, _ := t.Underlying().(*types.Struct)
	if n == nil || st == nil || idx >= st.NumFields() {
		return "", ""
	}
	return n.Obj().Name(), st.Field(idx).Name()
}

// nullable describes why v may be nil ("" = not a known nullable source) and
// the traveler it was read from (for IsNull guards).
func nullable(v ssa.Value, depth int) (string, ssa.Value) {
	if depth > 6 || !isDataElementPtr(v.Type()) {
		return "", nil
	}
	switch x := v.(type) {
	case *ssa.Call:
		name := calleeName(x.Common())
		switch name {
		case "GetCurrent", "GetMark":
			if name == "GetCurrent" && travelerHasCurrent(recvOf(x.Common()), 0) {
				return "", nil
			}
			return name + "()", recvOf(x.Common())
		case "GetVertex", "GetEdge":
			if recvOf(x.Common()) != nil {
				return name + "()", nil
			}
		}
	case *ssa.UnOp:
		if x.Op == token.MUL {
			if fa, ok := x.X.(*ssa.FieldAddr); ok {
				tn, fn := structFieldName(fa.X.Type(), fa.Field)
				if tn == "ElementLookup" && (fn == "Vertex" || fn == "Edge") {
					// the struct may live in a local slot filled from the channel receive
					if al, ok := fa.X.(*ssa.Alloc); ok {
						var stored []ssa.Value
						for _, r := range *al.Referrers() {
							if st, ok := r.(*ssa.Store); ok && st.Addr == al {
								stored = append(stored, st.Val)
							}
						}
						if len(stored) == 1 && lookupNeverNull(stored[0]) {
							return "", nil
						}
					}
					return tn + "." + fn, nil
				}
				if (tn == "BaseTraveler" && fn == "Current") || (tn == "GraphElement" && (fn == "Vertex" || fn == "Edge")) {
					return tn + "." + fn, nil
				}
			}
		}
	case *ssa.Field:
		tn, fn := structFieldName(x.X.Type(), x.Field)
		if tn == "ElementLookup" && (fn == "Vertex" || fn == "Edge") && !lookupNeverNull(x.X) {
			return tn + "." + fn, nil
		}
	case *ssa.Lookup:
		if marksMap(x.X) {
			return "Marks[…]", nil
		}
	case *ssa.Extract:
		switch t := x.Tuple.(type) {
		case *ssa.Lookup:
			if x.Index == 0 && marksMap(t.X) {
				return "Marks[…]", nil
			}
		case *ssa.Next:
			if rg, ok := t.Iter.(*ssa.Range); ok && x.Index == 2 && marksMap(rg.X) {
				return "range over Marks", nil
			}
		}
	}
	return "", nil
}

// c06NullExceptions: dereferences justified by an invariant the rule cannot see.
var c06NullExceptions = map[string]string{
	"engine/core.LookupVertsIndex.Process#2|ElementLookup.Vertex": "LookupVertsIndex is produced only by the start optimiser as the first step: its input is the seed traveler (never a signal), every lookup it sends carries an id, and the driver answers a lookup only when the vertex was found",
}

// lookupNeverNull: the ElementLookup comes from a Get*Channel call made with
// emitNull == false on a request channel that only ever receives lookups
// carrying an ID and no traveler reference (so no signal lookup, no null row).
func lookupNeverNull(base ssa.Value) bool {
	var src ssa.Value
	switch b := base.(type) {
	case *ssa.Extract:
		src = b.Tuple
	case *ssa.UnOp:
		src = b
	default:
		return false
	}
	var ch ssa.Value
	switch s := src.(type) {
	case *ssa.UnOp:
		if s.Op == token.ARROW {
			ch = s.X
		}
	case *ssa.Next:
		if r, ok := s.Iter.(*ssa.Range); ok {
			ch = r.X
		}
	}
	call, ok := ch.(*ssa.Call)
	if !ok || !strings.HasSuffix(calleeName(call.Common()), "Channel") {
		return false
	}
	args := call.Common().Args
	if !call.Common().IsInvoke() && len(args) > 0 {
		args = args[1:]
	}
	if len(args) >= 4 {
		if c, ok := args[3].(*ssa.Const); !ok || c.Value == nil || c.Value.Kind() != constant.Bool || constant.BoolVal(c.Value) {
			return false
		}
	}
	if len(args) < 2 {
		return false
	}
	mk, ok := args[1].(*ssa.MakeChan)
	if !ok {
		return false
	}
	sends := 0
	for _, r := range *mk.Referrers() {
		snd, ok := r.(*ssa.Send)
		if !ok {
			if _, isCall := r.(*ssa.Call); isCall {
				continue
			}
			continue
		}
		sends++
		ld, ok := snd.X.(*ssa.UnOp)
		if !ok {
			return false
		}
		al, ok := ld.X.(*ssa.Alloc)
		if !ok {
			return false
		}
		hasID, hasRef := false, false
		for _, ar := range *al.Referrers() {
			if fa, ok := ar.(*ssa.FieldAddr); ok {
				_, fn := structFieldName(fa.X.Type(), fa.Field)
				if fn == "ID" {
					hasID = true
				}
				if fn == "Ref" {
					hasRef = true
				}
			}
		}
		if !hasID || hasRef {
			return false
		}
	}
	return sends > 0
}

// travelerHasCurrent: the traveler was built in this function by
// AddCurrent(<fresh element>) (AddMark keeps the current element).
func travelerHasCurrent(t ssa.Value, depth int) bool {
	return travHasCur(t, depth, map[ssa.Value]bool{})
}

func travHasCur(t ssa.Value, depth int, visiting map[ssa.Value]bool) bool {
	if t == nil || depth > 8 {
		return false
	}
	if visiting[t] {
		return true // loop-carried value: holds if every other incoming value holds
	}
	visiting[t] = true
	defer delete(visiting, t)
	switch x := t.(type) {
	case *ssa.Call:
		switch calleeName(x.Common()) {
		case "AddCurrent":
			args := x.Common().Args
			if len(args) == 0 {
				return false
			}
			_, fresh := args[len(args)-1].(*ssa.Alloc)
			return fresh
		case "AddMark":
			return travHasCur(recvOf(x.Common()), depth+1, visiting)
		}
	case *ssa.Phi:
		for _, e := range x.Edges {
			if !travHasCur(e, depth+1, visiting) {
				return false
			}
		}
		return len(x.Edges) > 0
	case *ssa.MakeInterface:
		return travHasCur(x.X, depth+1, visiting)
	case *ssa.ChangeInterface:
		return travHasCur(x.X, depth+1, visiting)
	}
	return false
}

func marksMap(m ssa.Value) bool {
	if u, ok := m.(*ssa.UnOp); ok && u.Op == token.MUL {
		if fa, ok := u.X.(*ssa.FieldAddr); ok {
			tn, fn := structFieldName(fa.X.Type(), fa.Field)
			return tn == "BaseTraveler" && fn == "Marks"
		}
	}
	return false
}

// guarded: v is known non-nil in block b (nil test on v, or !IsNull() on its traveler).
func guarded(b *ssa.BasicBlock, v ssa.Value, trav ssa.Value) bool {
	if knownNonNil(b, v) {
		return true
	}
	if ph, ok := v.(*ssa.Phi); ok {
		_ = ph
	}
	if trav != nil {
		for _, f := range domFacts(b) {
			if travNotNull(f.Cond, f.Truth, trav, 0) {
				return true
			}
		}
	}
	return false
}

func travNotNull(cond ssa.Value, truth bool, trav ssa.Value, depth int) bool {
	if depth > 4 {
		return false
	}
	switch c := cond.(type) {
	case *ssa.Call:
		if calleeName(c.Common()) == "IsNull" {
			if r := recvOf(c.Common()); r != nil && sameValue(r, trav) {
				return !truth
			}
		}
	case *ssa.UnOp:
		if c.Op == token.NOT {
			return travNotNull(c.X, !truth, trav, depth+1)
		}
	}
	return false
}

func (c *c06ctx) inScopePkg(path string) bool {
	return c.scope == nil || c.scope[path]
}

// p2siblings (P2S): every implementation of gdbi.Traveler must agree with the
// reference one on null handling — IsNull() is "current element == nil", and
// AddCurrent/AddMark accept a nil element (null travelers are built by passing nil).
func (c *c06ctx) p2siblings() {
	iface := c.p.Iface("gdbi", "Traveler")
	if iface == nil {
		c.res.Fail("gdbi.Traveler not found")
		return
	}
	for _, named := range c.p.Implementers(iface) {
		tkey := core.TypeKey(named)
		for _, mn := range []string{"IsNull", "AddCurrent", "AddMark"} {
			fi := c.p.Method(named, mn)
			if fi == nil {
				continue
			}
			f := c.p.SSAFunc(fi.Obj)
			key := tkey + "." + mn
			if f == nil || f.Blocks == nil {
				c.res.Unres("P2S", key, c.p.Pos(fi.Decl.Pos()), "no SSA body")
				continue
			}
			c.res.Fn(core.SSAKey(f))
			if mn == "IsNull" {
				verdict := ""
				for _, b := range f.Blocks {
					for _, in := range b.Instrs {
						if r, ok := in.(*ssa.Return); ok && len(r.Results) == 1 {
							if bo, ok := r.Results[0].(*ssa.BinOp); ok && (isNilConst(bo.X) || isNilConst(bo.Y)) {
								if bo.Op == token.EQL {
									verdict = "eq"
								} else if bo.Op == token.NEQ {
									verdict = "neq"
								}
							}
						}
					}
				}
				switch verdict {
				case "eq":
					c.res.OK("P2S", key, c.p.Pos(fi.Decl.Pos()), "returns <current element> == nil")
				case "neq":
					c.res.Bad("P2S", key, c.p.Pos(fi.Decl.Pos()), fmt.Sprintf("%s returns <current element> != nil: it reports ordinary travelers as null and null travelers as ordinary, so every IsNull() guard of the engine is defeated for this traveler type (steps skip all rows, and a real null traveler reaches the dereference the guard protects)", key))
				default:
					c.res.Unres("P2S", key, c.p.Pos(fi.Decl.Pos()), "IsNull does not return a nil comparison")
				}
				continue
			}
			dp := c.derefParams(f, 0)
			bad := false
			for i, par := range f.Params {
				if dp[i] && isDataElementPtr(par.Type()) {
					bad = true
				}
			}
			if bad {
				c.res.Bad("P2S", key, c.p.Pos(fi.Decl.Pos()), fmt.Sprintf("%s dereferences its element argument without a nil test (directly or in a callee); the engine builds null travelers by calling it with nil (outNull/inNull, select of an undefined mark, missing elements), which gdbi.BaseTraveler accepts", key))
			} else {
				c.res.OK("P2S", key, c.p.Pos(fi.Decl.Pos()), "accepts a nil element")
			}
		}
	}
}

// callersGuarantee: trav is a parameter of the unexported function f, and at
// every call site of f in the repository (static calls only, at least one)
// the argument bound to it is a traveler known not to be null there.
func (c *c06ctx) callersGuarantee(f *ssa.Function, trav ssa.Value) bool {
	par, ok := trav.(*ssa.Parameter)
	if !ok || f.Object() == nil || f.Object().Exported() {
		return false
	}
	idx := -1
	for i, p := range f.Params {
		if p == par {
			idx = i
		}
	}
	if idx < 0 {
		return false
	}
	node := c.p.CallGraph().Nodes[f]
	if node == nil || len(node.In) == 0 {
		return false
	}
	for _, e := range node.In {
		if e.Site == nil {
			return false
		}
		cc := e.Site.Common()
		if cc.IsInvoke() || cc.StaticCallee() != f || idx >= len(cc.Args) {
			return false
		}
		arg := cc.Args[idx]
		okSite := false
		for _, fct := range domFacts(e.Site.Block()) {
			if travNotNull(fct.Cond, fct.Truth, arg, 0) {
				okSite = true
			}
		}
		if !okSite {
			return false
		}
	}
	return true
}

// invokeTargets: the repository methods an interface method call may dispatch to.
func (c *c06ctx) invokeTargets(cc *ssa.CallCommon) []*ssa.Function {
	iface, ok := cc.Value.Type().Underlying().(*types.Interface)
	if !ok {
		return nil
	}
	key := cc.Value.Type().String() + "." + cc.Method.Name()
	if t, ok := c.invokeM[key]; ok {
		return t
	}
	var out []*ssa.Function
	for _, named := range c.p.Implementers(iface) {
		if !c.inScopePkg(named.Obj().Pkg().Path()) {
			continue // implementations outside the tier's scope are judged by the sibling rule P2S
		}
		for _, t := range []types.Type{named, types.NewPointer(named)} {
			ms := c.p.SSA.MethodSets.MethodSet(t)
			if sel := ms.Lookup(cc.Method.Pkg(), cc.Method.Name()); sel != nil {
				if f := c.p.SSA.MethodValue(sel); f != nil && f.Blocks != nil {
					dup := false
					for _, o := range out {
						if o == f {
							dup = true
						}
					}
					if !dup && f.Synthetic == "" {
						out = append(out, f)
					}
				}
			}
		}
	}
	if c.invokeM == nil {
		c.invokeM = map[string][]*ssa.Function{}
	}
	c.invokeM[key] = out
	return out
}

// derefParams: which *DataElement parameters f dereferences without a nil guard.
func (c *c06ctx) derefParams(f *ssa.Function, depth int) map[int]bool {
	if m, ok := c.derefM[f]; ok {
		return m
	}
	m := map[int]bool{}
	c.derefM[f] = m
	if f.Blocks == nil || depth > 3 {
		return m
	}
	for i, par := range f.Params {
		if !isDataElementPtr(par.Type()) {
			continue
		}
		for _, ref := range *par.Referrers() {
			switch r := ref.(type) {
			case *ssa.FieldAddr:
				if r.X == par && !knownNonNil(r.Block(), par) {
					m[i] = true
				}
			case *ssa.Call:
				if sc := r.Common().StaticCallee(); sc != nil && sc.Blocks != nil {
					for k, a := range r.Common().Args {
						if a == par && c.derefParams(sc, depth+1)[k] && !knownNonNil(r.Block(), par) {
							m[i] = true
						}
					}
				}
			}
		}
	}
	return m
}

func (c *c06ctx) p2(f *ssa.Function) {
	fkey := core.SSAKey(f)
	seen := map[string]bool{}
	var report func(pos token.Pos, b *ssa.BasicBlock, v ssa.Value, what string, depth int)
	report = func(pos token.Pos, b *ssa.BasicBlock, v ssa.Value, what string, depth int) {
		if ph, ok := v.(*ssa.Phi); ok && depth < 4 {
			// a reassigned variable: each incoming value is judged where it flows in, unless the
			// merged value itself is tested afterwards
			if knownNonNil(b, v) {
				return
			}
			for i, e := range ph.Edges {
				pred := ph.Block().Preds[i]
				// the value may be tested on the very edge that leads into the merge point
				if iff, ok := pred.Instrs[len(pred.Instrs)-1].(*ssa.If); ok && pred.Succs[0] != pred.Succs[1] {
					if factNonNil(iff.Cond, pred.Succs[0] == ph.Block(), e, 0) {
						continue
					}
				}
				report(pos, pred, e, what, depth+1)
			}
			return
		}
		why, trav := nullable(v, 0)
		if why == "" {
			return
		}
		key := fmt.Sprintf("%s|%s", fkey, why)
		c.res.CallSites++
		if guarded(b, v, trav) {
			c.res.OK("P2", key, c.p.Pos(pos), "dereference dominated by a nil / IsNull test")
			return
		}
		if trav != nil && c.callersGuarantee(f, trav) {
			c.res.OK("P2", key, c.p.Pos(pos), "the traveler is a parameter of an unexported helper and every call site passes a traveler that was tested with IsNull()")
			return
		}
		if seen[key] {
			return
		}
		if ex, ok := c06NullExceptions[key]; ok {
			seen[key] = true
			c.res.OKTrivial("P2", key, c.p.Pos(pos), "exception: "+ex)
			return
		}
		seen[key] = true
		c.res.Bad("P2", key, c.p.Pos(pos), fmt.Sprintf("%s dereferences the result of %s%s at %s with no nil test on the path: null-producing steps (outNull/inNull/outENull, count, select of an undefined mark) or a missing element make it nil and the goroutine panics (the process exits)",
			fkey, why, what, c.p.Pos(pos)))
	}
	for _, b := range f.Blocks {
		for _, in := range b.Instrs {
			switch x := in.(type) {
			case *ssa.FieldAddr:
				if isDataElementPtr(x.X.Type()) {
					_, fn := structFieldName(x.X.Type(), x.Field)
					report(x.Pos(), b, x.X, "."+fn, 0)
				}
			case *ssa.Call:
				cc := x.Common()
				name := calleeName(cc)
				// t.GetCurrentID() dereferences Current
				if name == "GetCurrentID" {
					if trav := recvOf(cc); trav != nil {
						key := fmt.Sprintf("%s|GetCurrentID()", fkey)
						if seen[key] {
							continue
						}
						c.res.CallSites++
						ok := false
						for _, fct := range domFacts(b) {
							if travNotNull(fct.Cond, fct.Truth, trav, 0) {
								ok = true
							}
						}
						if ok {
							c.res.OK("P2", key, c.p.Pos(x.Pos()), "GetCurrentID() dominated by !IsNull()")
						} else {
							seen[key] = true
							c.res.Bad("P2", key, c.p.Pos(x.Pos()), fmt.Sprintf("%s calls GetCurrentID() (which dereferences the current element) at %s without an IsNull() test: a null traveler produced by outNull/inNull/count/select panics the goroutine", fkey, c.p.Pos(x.Pos())))
						}
					}
					continue
				}
				if sc := cc.StaticCallee(); sc != nil && sc.Blocks != nil {
					dp := c.derefParams(sc, 0)
					for k, a := range cc.Args {
						if dp[k] && isDataElementPtr(a.Type()) {
							report(x.Pos(), b, a, " passed to "+sc.Name()+" (which dereferences it)", 0)
						}
					}
				} else if cc.IsInvoke() {
					// interface call: every implementation in the repository may be the callee
					for _, tgt := range c.invokeTargets(cc) {
						dp := c.derefParams(tgt, 0)
						for k, a := range cc.Args {
							if dp[k+1] && isDataElementPtr(a.Type()) {
								report(x.Pos(), b, a, " passed to "+core.SSAKey(tgt)+" (which dereferences it)", 0)
							}
						}
					}
				}
			}
		}
	}
}

// ---- P3: constant index without a sufficient length guard ---------------------------

func (c *c06ctx) p3(f *ssa.Function, exempt map[string]string) {
	fkey := core.SSAKey(f)
	if why, ok := exempt[fkey]; ok {
		c.res.OKTrivial("P3", fkey+"|codec parser", c.p.Pos(f.Pos()), why)
		return
	}
	ord := map[string]int{}
	for _, b := range f.Blocks {
		for _, in := range b.Instrs {
			var x ssa.Value
			var idx ssa.Value
			var pos token.Pos
			switch ia := in.(type) {
			case *ssa.IndexAddr:
				x, idx, pos = ia.X, ia.Index, ia.Pos()
			case *ssa.Index:
				x, idx, pos = ia.X, ia.Index, ia.Pos()
			default:
				continue
			}
			if _, isSl := x.Type().Underlying().(*types.Slice); !isSl {
				if bt, ok := x.Type().Underlying().(*types.Basic); !ok || bt.Kind() != types.String {
					continue
				}
			}
			need := int64(-1)
			desc := ""
			if cst, ok := idx.(*ssa.Const); ok && cst.Value != nil {
				n, _ := constant.Int64Val(constant.ToInt(cst.Value))
				need, desc = n+1, fmt.Sprintf("[%d]", n)
			} else if bo, ok := idx.(*ssa.BinOp); ok && bo.Op == token.SUB {
				// x[len(x)-k]
				if l, ok := lenOf(bo.X); ok && sameValue(l, x) {
					if kc, ok := bo.Y.(*ssa.Const); ok && kc.Value != nil {
						k, _ := constant.Int64Val(constant.ToInt(kc.Value))
						need, desc = k, fmt.Sprintf("[len-%d]", k)
					}
				}
			}
			if need < 0 {
				continue
			}
			if pos == token.NoPos {
				continue // synthetic (variadic argument arrays)
			}
			name := x.Name()
			if r, ok := x.(*ssa.UnOp); ok {
				if fa, ok := r.X.(*ssa.FieldAddr); ok {
					_, name = structFieldName(fa.X.Type(), fa.Field)
				}
			}
			ord[desc]++
			key := fmt.Sprintf("%s|%s%s#%d", fkey, "index", desc, ord[desc])
			c.res.CallSites++
			have := lenLowerBound(b, x)
			if p := producerMinLen(x); p > have {
				have = p
			}
			if g := flagGuardedLen(b, x); g > have {
				have = g
			}
			if why, ok := c06IndexExceptions[fkey+"|"+name+desc]; ok && have < need {
				c.res.OKTrivial("P3", key, c.p.Pos(pos), "exception: "+why)
				continue
			}
			if have >= need {
				c.res.OK("P3", key, c.p.Pos(pos), fmt.Sprintf("length >= %d established before the access", have))
			} else {
				c.res.Bad("P3", key, c.p.Pos(pos), fmt.Sprintf("%s reads %s%s at %s but no dominating test or producer guarantees %d element(s) (known lower bound %d): an empty or short value panics with index out of range",
					fkey, name, desc, c.p.Pos(pos), need, have))
			}
		}
	}
}

// c06IndexExceptions: accesses justified by an invariant of the callers, with the reason.
var c06IndexExceptions = map[string]string{
	"kvindex.mapDig|path[0]": "path is a value of KVIndex.Fields, always strings.Split(fieldName, \".\") (>= 1 element); the recursive call passes path[1:] only when len(path) > 1",
}

// flagGuardedLen: the access is dominated by `flag == true` where flag is a
// boolean that is set to true only in blocks where len(x) >= k was established.
func flagGuardedLen(b *ssa.BasicBlock, x ssa.Value) int64 {
	best := int64(0)
	for _, f := range domFacts(b) {
		if !f.Truth {
			continue
		}
		ph, ok := f.Cond.(*ssa.Phi)
		if !ok {
			continue
		}
		min := int64(-1)
		valid := true
		var visit func(p *ssa.Phi, depth int)
		visit = func(p *ssa.Phi, depth int) {
			for i, e := range p.Edges {
				switch ev := e.(type) {
				case *ssa.Const:
					if ev.Value != nil && ev.Value.Kind() == constant.Bool {
						if constant.BoolVal(ev.Value) {
							lb := lenLowerBound(p.Block().Preds[i], x)
							if min < 0 || lb < min {
								min = lb
							}
						}
						continue
					}
					valid = false
				case *ssa.Phi:
					if depth < 3 {
						visit(ev, depth+1)
					} else {
						valid = false
					}
				default:
					valid = false
				}
			}
		}
		visit(ph, 0)
		if valid && min > best {
			best = min
		}
	}
	return best
}

// ---- P4: channel typestate (close / send on a possibly closed channel) --------------------

func c06chanState(p *core.Prog, res *core.Result, fi *core.FuncInfo, rule string) int {
	info := fi.Pkg.TypesInfo
	chans := funcChans(info, fi.Decl.Type, fi.Decl.Body)
	n := 0
	var objs []types.Object
	for o, ci := range chans {
		hasClose := false
		for _, u := range ci.Uses {
			if (u.Kind == "close") && u.Async == nil {
				hasClose = true
			}
		}
		if hasClose && !ci.Param {
			objs = append(objs, o)
		}
	}
	sort.Slice(objs, func(i, j int) bool { return objs[i].Pos() < objs[j].Pos() })
	fkey := core.FuncKey(fi.Obj)
	for _, o := range objs {
		n++
		res.Fn(fkey)
		// facts: "notclosed" (the variable does not hold a closed channel); that it holds a
		// channel at all is Flow's own non-nil fact (set by make, by `ch != nil` branches)
		fl := &core.Flow{Prog: p, Info: info, Body: fi.Decl.Body, Init: []string{"notclosed"}}
		fl.Events = func(nd ast.Node, st *core.State) ([]string, bool) {
			switch s := nd.(type) {
			case *ast.AssignStmt:
				for i, l := range s.Lhs {
					if defOrUse(info, l) == o && i < len(s.Rhs) {
						r := ast.Unparen(s.Rhs[i])
						if c, ok := r.(*ast.CallExpr); ok && isBuiltin2(info, c, "make") {
							return []string{"notclosed"}, false
						}
						if id, ok := r.(*ast.Ident); ok && id.Name == "nil" {
							return []string{"notclosed"}, false
						}
						return []string{"-notclosed"}, false
					}
				}
			case *ast.ExprStmt:
				if c, ok := s.X.(*ast.CallExpr); ok && isBuiltin2(info, c, "close") && len(c.Args) == 1 && defOrUse(info, c.Args[0]) == o {
					return []string{"-notclosed"}, false
				}
			}
			return nil, false
		}
		fl.Run()
		bad := 0
		ord := map[string]int{}
		fl.Walk(func(nd ast.Node, st *core.State, b *cfg.Block) {
			what := ""
			switch s := nd.(type) {
			case *ast.ExprStmt:
				if c, ok := s.X.(*ast.CallExpr); ok && isBuiltin2(info, c, "close") && len(c.Args) == 1 && defOrUse(info, c.Args[0]) == o {
					what = "close"
				}
			case *ast.SendStmt:
				if defOrUse(info, s.Chan) == o {
					what = "send"
				}
			}
			if what == "" || (st.Held["notclosed"] && st.NonNil[o]) {
				return
			}
			ord[what]++
			bad++
			res.Bad(rule, fmt.Sprintf("%s|%s(%s)#%d", fkey, what, o.Name(), ord[what]), p.Pos(nd.Pos()),
				fmt.Sprintf("%s: %s on channel %s at %s can execute while the variable holds a closed channel (close without re-make, e.g. a `continue` taken after the close) or no channel at all: close of closed/nil channel and send on closed channel panic the handler",
					fkey, what, o.Name(), p.Pos(nd.Pos())), fl.TraceTo(b)...)
		})
		if bad == 0 {
			res.OK(rule, fmt.Sprintf("%s|%s", fkey, o.Name()), p.Pos(o.Pos()), "every close/send on the channel happens while it is certainly open")
		}
	}
	return n
}

// ---- P5: vacuous guards --------------------------------------------------------------------

// vacuousMapGuards: a local map created empty, looked up in a condition, and never written.
func vacuousGuards(p *core.Prog, res *core.Result, fi *core.FuncInfo, rule string) int {
	info := fi.Pkg.TypesInfo
	fkey := core.FuncKey(fi.Obj)
	made := map[types.Object]token.Pos{}
	written := map[types.Object]bool{}
	lookedUp := map[types.Object]token.Pos{}
	escapes := map[types.Object]bool{}
	ast.Inspect(fi.Decl.Body, func(n ast.Node) bool {
		switch s := n.(type) {
		case *ast.AssignStmt:
			for i, l := range s.Lhs {
				if ix, ok := l.(*ast.IndexExpr); ok {
					if o := defOrUse(info, ix.X); o != nil {
						written[o] = true
					}
				}
				if i < len(s.Rhs) && len(s.Lhs) == len(s.Rhs) {
					if o := defOrUse(info, l); o != nil {
						if _, isMap := o.Type().Underlying().(*types.Map); isMap {
							switch r := ast.Unparen(s.Rhs[i]).(type) {
							case *ast.CallExpr:
								if isBuiltin2(info, r, "make") {
									made[o] = s.Pos()
								} else {
									escapes[o] = true
								}
							case *ast.CompositeLit:
								if len(r.Elts) == 0 {
									made[o] = s.Pos()
								} else {
									written[o] = true
								}
							default:
								escapes[o] = true
							}
						}
					}
				}
			}
			// v, ok := m[k]
			if len(s.Rhs) == 1 {
				if ix, ok := ast.Unparen(s.Rhs[0]).(*ast.IndexExpr); ok {
					if o := defOrUse(info, ix.X); o != nil {
						lookedUp[o] = ix.Pos()
					}
				}
			}
		case *ast.CallExpr:
			for _, a := range s.Args {
				if o := defOrUse(info, a); o != nil {
					if isBuiltin2(info, s, "len") || isBuiltin2(info, s, "delete") {
						continue
					}
					escapes[o] = true
				}
			}
		case *ast.ReturnStmt:
			for _, r := range s.Results {
				if o := defOrUse(info, r); o != nil {
					escapes[o] = true
				}
			}
		case *ast.UnaryExpr:
			if s.Op == token.AND {
				if o := defOrUse(info, s.X); o != nil {
					escapes[o] = true
				}
			}
		case *ast.KeyValueExpr:
			if o := defOrUse(info, s.Value); o != nil {
				escapes[o] = true
			}
		}
		return true
	})
	n := 0
	for o, pos := range lookedUp {
		if _, ok := made[o]; !ok || escapes[o] {
			continue
		}
		n++
		res.Fn(fkey)
		key := fmt.Sprintf("%s|%s", fkey, o.Name())
		if written[o] {
			res.OK(rule, key, p.Pos(pos), "map is written before/while it is consulted")
		} else {
			res.Bad(rule, key, p.Pos(pos), fmt.Sprintf("%s consults the local map %s (created empty at %s) in a guard but never stores into it: the check can never fire, so the condition it is meant to reject (e.g. duplicate names) is accepted", fkey, o.Name(), p.Pos(made[o])))
		}
	}
	return n
}

// ---- driver ------------------------------------------------------------------------------------

func c06(p *core.Prog, res *core.Result) {
	res.Explanation = "C06 (structural clause): on every function of the engine, server and embedded driver that is reachable (VTA call graph) from an RPC handler, the following panic constructs are absent: " +
		"P1 single-result type assertions to a JSON kind on dynamically typed values; P2 dereference of a nullable element (Traveler.GetCurrent/GetMark, GraphInterface.GetVertex/GetEdge, ElementLookup.Vertex/Edge, mark map values) not dominated by a nil / IsNull test (SSA dominator facts, one level of callee summaries); " +
		"P3 constant-index or len-k access to a slice/string not dominated by a sufficient length test and not justified by its producer; P4 close/send on a channel variable that may already be closed (typestate over go/cfg); " +
		"P2S every implementation of gdbi.Traveler returns `current == nil` from IsNull and tolerates a nil element in AddCurrent/AddMark (sibling agreement with gdbi.BaseTraveler); P5 guards that can never fire (a local map consulted but never written); P6 explicit panic / log.Fatal / os.Exit calls."
	res.NotDecided = []string{"panics inside third-party code (jsonpath set on nil map, tdigest, storage engines)", "integer/slice arithmetic outside the enumerated shapes", "resource exhaustion",
		"external-database drivers (mongo, elastic, psql, existing-sql): not analysed, their panics cannot be triaged without those databases"}
	res.Assumptions = []string{"a panic in a pipeline goroutine or a gRPC handler terminates the process (grpc-go installs no recovery; pipeline goroutines have none)"}
	res.Rule("P1", "no unchecked assertion of dynamic JSON to a concrete kind", 4)
	res.Rule("P2", "no unguarded dereference of a nullable element", 15)
	res.Rule("P3", "no constant-index access without a sufficient length guard", 20)
	res.Rule("P4", "no close/send on a possibly closed channel", 3)
	res.Rule("P5", "no guard that can never fire", 1)
	res.Rule("P6", "no explicit process-terminating call on request-reachable code", 1)

	scope := map[string]bool{}
	for _, r := range c06Quick {
		scope[core.ModPath+"/"+r] = true
	}
	if res.Tier == "thorough" {
		for _, r := range c06Thorough {
			scope[core.ModPath+"/"+r] = true
		}
	}
	roots := handlerRoots(p)
	if len(roots) < 20 {
		res.Fail("only %d RPC handler roots found", len(roots))
		return
	}
	reach := reachableFrom(p, roots)
	c := &c06ctx{p: p, res: res, derefM: map[*ssa.Function]map[int]bool{}, scope: scope}
	res.Rule("P2S", "traveler implementations agree on null handling (IsNull polarity, nil-tolerant constructors)", 3)
	c.p2siblings()
	for f := range reach {
		if f.Blocks == nil || !scope[ssaRootPkg(f)] || f.Synthetic != "" {
			continue
		}
		if generatedFile(p.Fset.Position(f.Pos()).Filename) {
			continue
		}
		c.fns = append(c.fns, f)
	}
	sort.Slice(c.fns, func(i, j int) bool { return core.SSAKey(c.fns[i]) < core.SSAKey(c.fns[j]) })
	res.Extra["request_reachable_functions_in_scope"] = len(c.fns)
	if len(c.fns) < 250 {
		res.Fail("only %d request-reachable functions in scope (call graph lost its roots?)", len(c.fns))
	}
	// codec parsers are justified by the builder/parser agreement (C16)
	exempt := map[string]string{}
	for _, rel := range []string{"kvgraph", "kvindex"} {
		if kc := extractCodec(p, rel); kc != nil {
			for fn, kp := range kc.Parsers {
				var kb *keyBuilder
				for bf, b := range kc.Builders {
					if bf.Name() == strings.TrimSuffix(fn.Name(), "Parse") {
						kb = b
					}
				}
				if kb != nil && kp.MaxIdx < len(kb.Comps) {
					exempt[core.FuncKey(fn)] = "key parser: indices justified by the builder/parser arity agreement and the separator obligations (C16)"
				}
			}
		}
	}
	declSeen := map[*types.Func]bool{}
	for _, f := range c.fns {
		res.Fn(core.SSAKey(f))
		c.p1(f)
		c.p1b(f)
		c.p1c(f)
		c.p2(f)
		c.p3(f, exempt)
		for _, b := range f.Blocks {
			for _, in := range b.Instrs {
				switch x := in.(type) {
				case *ssa.Panic:
					if x.Pos() != token.NoPos {
						res.Bad("P6", core.SSAKey(f)+"|panic", p.Pos(x.Pos()), "explicit panic on request-reachable code at "+p.Pos(x.Pos()))
					}
				case *ssa.Call:
					if sc := x.Common().StaticCallee(); sc != nil && sc.Pkg != nil {
						n := sc.Pkg.Pkg.Path() + "." + sc.Name()
						if n == "os.Exit" || strings.HasPrefix(n, "log.Fatal") || strings.HasPrefix(n, "log.Panic") || strings.HasSuffix(n, "/log.Fatal") || strings.HasSuffix(n, "/log.Fatalf") {
							res.Bad("P6", core.SSAKey(f)+"|"+sc.Name(), p.Pos(x.Pos()), n+" on request-reachable code at "+p.Pos(x.Pos())+" terminates the server")
						}
					}
				}
			}
		}
		// AST-level rules once per declared function
		root := f
		for root.Parent() != nil {
			root = root.Parent()
		}
		if obj, ok := root.Object().(*types.Func); ok && obj != nil && !declSeen[obj] {
			declSeen[obj] = true
			if fi := p.Info(obj); fi != nil && fi.Decl.Body != nil {
				c06chanState(p, res, fi, "P4")
				vacuousGuards(p, res, fi, "P5")
			}
		}
	}
	res.OKTrivial("P6", "scan", "-", fmt.Sprintf("%d functions scanned for explicit panic/fatal/exit calls", len(c.fns)))
}

func c06selftest(st *core.Prog, res *core.Result) {
	rel := core.SelfMod + "/c06"
	pk := st.Pkg(rel)
	if pk == nil {
		res.Fail("C06 self-test package did not load")
		return
	}
	st.BuildSSA()
	c := &c06ctx{p: st, derefM: map[*ssa.Function]map[int]bool{}, self: true}
	var fns []*ssa.Function
	for f := range st.AllFuncs() {
		if ssaRootPkg(f) == pk.PkgPath && f.Blocks != nil && f.Synthetic == "" {
			fns = append(fns, f)
		}
	}
	sort.Slice(fns, func(i, j int) bool { return core.SSAKey(fns[i]) < core.SSAKey(fns[j]) })
	for _, f := range fns {
		root := f
		for root.Parent() != nil {
			root = root.Parent()
		}
		name := strings.ToLower(root.Name())
		var want core.Status
		switch {
		case strings.HasPrefix(name, "ok"):
			want = core.Discharged
		case strings.HasPrefix(name, "bad"):
			want = core.Violated
		default:
			continue
		}
		tmp := core.NewResult("C06", "self")
		c.res = tmp
		c.p1(f)
		c.p1b(f)
		c.p1c(f)
		c.p2(f)
		c.p3(f, nil)
		if f.Parent() == nil {
			if obj, ok := f.Object().(*types.Func); ok {
				if fi := st.Info(obj); fi != nil {
					c06chanState(st, tmp, fi, "P4")
					vacuousGuards(st, tmp, fi, "P5")
				}
			}
		}
		got := core.Discharged
		for _, o := range tmp.Obls {
			if o.Status == core.Violated {
				got = core.Violated
			}
		}
		// closures: a Bad function may hold its violation in the closure or in the parent
		if f.Parent() != nil || len(f.AnonFuncs) > 0 {
			if got == core.Discharged && want == core.Violated {
				continue // judged on the other half
			}
		}
		if got != want {
			res.Fail("self-test %s: crash rules gave %s, expected %s", core.SSAKey(f), got, want)
		} else {
			res.OKTrivial("SELF", "selftest|c06."+core.SSAKey(f), "-", "crash rules give "+string(got)+" as expected")
		}
	}
}
