package props

import (
	"fmt"
	"go/ast"
	"go/token"
	"go/types"
	"strings"

	"gripverif/core"

	"golang.org/x/tools/go/cfg"
)

func init() {
	Registry["C07"] = c07
	SelfTests["C07"] = c07selftest
}

// feedThenDrain (A5c): inside one process, a loop sends on channels of family A
// and only after that loop ends are the channels of family B received, where a
// pair A[i], B[i] was handed to the same callee as its input/output.  With
// bounded A and B the callee blocks on its output once it exceeds the
// buffers, the feeder blocks on A, and nobody ever reads B.
func feedThenDrain(p *core.Prog, res *core.Result, fi *core.FuncInfo, rule string) int {
	info := fi.Pkg.TypesInfo
	fkey := core.FuncKey(fi.Obj)
	n := 0
	var lits []*ast.BlockStmt
	lits = append(lits, fi.Decl.Body)
	ast.Inspect(fi.Decl.Body, func(x ast.Node) bool {
		if l, ok := x.(*ast.FuncLit); ok {
			lits = append(lits, l.Body)
		}
		return true
	})
	// `for _, c := range chans` : c stands for chans[*]
	alias := map[types.Object]string{}
	ast.Inspect(fi.Decl.Body, func(x ast.Node) bool {
		if rs, ok := x.(*ast.RangeStmt); ok && rs.Value != nil {
			if sl, ok := info.TypeOf(rs.X).Underlying().(*types.Slice); ok && isChanType(sl.Elem()) {
				if o := defOrUse(info, rs.Value); o != nil {
					alias[o] = types.ExprString(rs.X) + "[*]"
				}
			}
		}
		return true
	})
	key := func(e ast.Expr) string {
		e = ast.Unparen(e)
		if ix, ok := e.(*ast.IndexExpr); ok {
			return types.ExprString(ix.X) + "[*]"
		}
		if o := defOrUse(info, e); o != nil {
			if a, ok := alias[o]; ok {
				return a
			}
		}
		return types.ExprString(e)
	}
	// pairs handed to one callee: f(..., A[i], B[i]) with both of channel type
	pairs := map[[2]string]token.Pos{}
	ast.Inspect(fi.Decl.Body, func(x ast.Node) bool {
		call, ok := x.(*ast.CallExpr)
		if !ok {
			return true
		}
		var chs []string
		for _, a := range call.Args {
			if isChanType(info.TypeOf(a)) {
				chs = append(chs, key(a))
			}
		}
		for i := 0; i < len(chs); i++ {
			for j := 0; j < len(chs); j++ {
				if i != j {
					pairs[[2]string{chs[i], chs[j]}] = call.Pos()
				}
			}
		}
		return true
	})
	if len(pairs) == 0 {
		return 0
	}
	for _, body := range lits {
		// top-level statements of the process, in order
		type use struct {
			sends, recvs map[string]token.Pos
		}
		var seq []use
		for _, st := range body.List {
			u := use{map[string]token.Pos{}, map[string]token.Pos{}}
			isLoop := false
			switch st.(type) {
			case *ast.ForStmt, *ast.RangeStmt:
				isLoop = true
			}
			ast.Inspect(st, func(x ast.Node) bool {
				switch s := x.(type) {
				case *ast.FuncLit:
					return false
				case *ast.SendStmt:
					if isLoop {
						u.sends[key(s.Chan)] = s.Pos()
					}
				case *ast.RangeStmt:
					if isChanType(info.TypeOf(s.X)) {
						u.recvs[key(s.X)] = s.Pos()
					}
				case *ast.UnaryExpr:
					if s.Op == token.ARROW {
						u.recvs[key(s.X)] = s.Pos()
					}
				}
				return true
			})
			seq = append(seq, u)
		}
		for i, a := range seq {
			for ak, apos := range a.sends {
				if _, alsoRecvHere := a.recvs[ak]; alsoRecvHere {
					continue
				}
				for j := i + 1; j < len(seq); j++ {
					for bk, bpos := range seq[j].recvs {
						if _, ok := pairs[[2]string{ak, bk}]; !ok {
							continue
						}
						// is B drained anywhere at or before the feeding loop (concurrently)?
						drainedEarlier := false
						for k := 0; k <= i; k++ {
							if _, ok := seq[k].recvs[bk]; ok {
								drainedEarlier = true
							}
						}
						if drainedEarlier {
							continue
						}
						n++
						res.Fn(fkey)
						res.Bad(rule, fmt.Sprintf("%s|%s→%s", fkey, ak, bk), p.Pos(apos),
							fmt.Sprintf("%s feeds %s in a loop (at %s) and starts receiving from %s only after that loop has ended (at %s); both were handed to the same callee (at %s) as its input and output. Once the callee's output exceeds the channel capacities it blocks, the feeder blocks on %s, and %s is never read: the step never finishes for large fan-out",
								fkey, ak, p.Pos(apos), bk, p.Pos(bpos), p.Pos(pairs[[2]string{ak, bk}]), ak, bk))
					}
				}
			}
		}
	}
	return n
}

// scanPollsCtx (T4): a goroutine that walks a store iterator (for it.Seek…;
// it.Valid…; it.Next()) and sends on a channel must look at ctx inside the loop.
func scanPollsCtx(p *core.Prog, res *core.Result, fi *core.FuncInfo, rule string) int {
	info := fi.Pkg.TypesInfo
	fkey := core.FuncKey(fi.Obj)
	hasCtx := false
	sig := fi.Obj.Type().(*types.Signature)
	for i := 0; i < sig.Params().Len(); i++ {
		if strings.HasSuffix(sig.Params().At(i).Type().String(), "context.Context") {
			hasCtx = true
		}
	}
	if !hasCtx {
		return 0
	}
	n := 0
	// scans nested in `for req := range reqChan` are bounded per request; only whole-range scans are armed
	var perRequest []*ast.RangeStmt
	ast.Inspect(fi.Decl.Body, func(x ast.Node) bool {
		if rs, ok := x.(*ast.RangeStmt); ok && isChanType(info.TypeOf(rs.X)) {
			perRequest = append(perRequest, rs)
		}
		return true
	})
	ast.Inspect(fi.Decl.Body, func(x ast.Node) bool {
		fs, ok := x.(*ast.ForStmt)
		if !ok || fs.Init == nil {
			return true
		}
		for _, rs := range perRequest {
			if fs.Pos() >= rs.Pos() && fs.End() <= rs.End() {
				return true
			}
		}
		isScan := false
		for _, c := range core.CallsIn(fs.Init) {
			if fn := core.CalleeFunc(info, c); fn != nil && (fn.Name() == "Seek" || fn.Name() == "SeekReverse") {
				isScan = true
			}
		}
		if !isScan {
			return true
		}
		sends := false
		polls := false
		ast.Inspect(fs.Body, func(y ast.Node) bool {
			switch s := y.(type) {
			case *ast.SendStmt:
				sends = true
			case *ast.CallExpr:
				if sel, ok := s.Fun.(*ast.SelectorExpr); ok && (sel.Sel.Name == "Done" || sel.Sel.Name == "Err") {
					if strings.HasSuffix(info.TypeOf(sel.X).String(), "context.Context") {
						polls = true
					}
				}
			}
			return true
		})
		if !sends {
			return true
		}
		n++
		res.Fn(fkey)
		key := fmt.Sprintf("%s|scan#%d", fkey, n)
		if polls {
			res.OK(rule, key, p.Pos(fs.Pos()), "the scan loop consults ctx on every row")
		} else {
			res.Bad(rule, key, p.Pos(fs.Pos()), fmt.Sprintf("%s scans the store and sends every row on a channel without consulting ctx inside the loop: after limit() or a client cancel the scan keeps running to the end of the key range", fkey))
		}
		return true
	})
	return n
}

// cancelOnLimit (T5): Limit/Range derive a context, return it, and call its
// cancel function inside the input loop.
func cancelOnLimit(p *core.Prog, res *core.Result, fi *core.FuncInfo, rule string) {
	info := fi.Pkg.TypesInfo
	fkey := core.FuncKey(fi.Obj)
	res.Fn(fkey)
	var newCtx, cancel types.Object
	ast.Inspect(fi.Decl.Body, func(x ast.Node) bool {
		if as, ok := x.(*ast.AssignStmt); ok && len(as.Lhs) == 2 && len(as.Rhs) == 1 {
			if c, ok := as.Rhs[0].(*ast.CallExpr); ok {
				if fn := core.CalleeFunc(info, c); fn != nil && fn.Pkg() != nil && fn.Pkg().Path() == "context" && strings.HasPrefix(fn.Name(), "With") {
					newCtx, cancel = defOrUse(info, as.Lhs[0]), defOrUse(info, as.Lhs[1])
				}
			}
		}
		return true
	})
	if newCtx == nil || cancel == nil {
		res.Bad(rule, fkey, p.Pos(fi.Decl.Pos()), fkey+" derives no cancellable context: upstream steps keep producing after the bound is reached")
		return
	}
	returned := false
	ast.Inspect(fi.Decl.Body, func(x ast.Node) bool {
		if _, ok := x.(*ast.FuncLit); ok {
			return false
		}
		if r, ok := x.(*ast.ReturnStmt); ok && len(r.Results) == 1 && defOrUse(info, r.Results[0]) == newCtx {
			returned = true
		}
		return true
	})
	cancelInLoop := false
	ast.Inspect(fi.Decl.Body, func(x ast.Node) bool {
		rs, ok := x.(*ast.RangeStmt)
		if !ok || !isChanType(info.TypeOf(rs.X)) {
			return true
		}
		for _, c := range core.CallsIn(rs.Body) {
			if defOrUse(info, c.Fun) == cancel {
				cancelInLoop = true
			}
		}
		return true
	})
	switch {
	case !returned:
		res.Bad(rule, fkey, p.Pos(fi.Decl.Pos()), fkey+" does not return the context it derived: the steps upstream never see the cancellation")
	case !cancelInLoop:
		res.Bad(rule, fkey, p.Pos(fi.Decl.Pos()), fkey+" never calls cancel() inside its input loop: the upstream scan runs to the end although the bound was reached")
	default:
		res.OK(rule, fkey, p.Pos(fi.Decl.Pos()), "derives a cancellable context, returns it, and cancels it inside the input loop")
	}
}

// managerCleanup (T6): a manager made by engine.NewManager reaches Cleanup() on
// every exit of the function/goroutine that created it.
func managerCleanup(p *core.Prog, res *core.Result, rule string) int {
	n := 0
	for _, fi := range p.AllDecls() {
		if fi.Decl.Body == nil || strings.HasSuffix(p.Fset.Position(fi.Decl.Pos()).Filename, "_test.go") {
			continue
		}
		info := fi.Pkg.TypesInfo
		var bodies []*ast.BlockStmt
		bodies = append(bodies, fi.Decl.Body)
		ast.Inspect(fi.Decl.Body, func(x ast.Node) bool {
			if l, ok := x.(*ast.FuncLit); ok {
				bodies = append(bodies, l.Body)
			}
			return true
		})
		for bi, body := range bodies {
			var man types.Object
			var mpos token.Pos
			for _, st := range body.List {
				if as, ok := st.(*ast.AssignStmt); ok && len(as.Rhs) == 1 && len(as.Lhs) == 1 {
					if c, ok := as.Rhs[0].(*ast.CallExpr); ok {
						if fn := core.CalleeFunc(info, c); fn != nil && fn.Name() == "NewManager" && core.InRepo(fn) {
							man, mpos = defOrUse(info, as.Lhs[0]), c.Pos()
						}
					}
				}
			}
			if man == nil {
				continue
			}
			n++
			fkey := core.FuncKey(fi.Obj)
			res.Fn(fkey)
			key := fmt.Sprintf("%s|manager", fkey)
			if bi > 0 {
				key = fmt.Sprintf("%s#%d|manager", fkey, bi)
			}
			fl := &core.Flow{Prog: p, Info: info, Body: body}
			fl.Events = func(nd ast.Node, st *core.State) ([]string, bool) {
				var calls []*ast.CallExpr
				if d, ok := nd.(*ast.DeferStmt); ok {
					calls = []*ast.CallExpr{d.Call}
				} else {
					calls = core.CallsIn(nd)
				}
				for _, c := range calls {
					if sel, ok := c.Fun.(*ast.SelectorExpr); ok && sel.Sel.Name == "Cleanup" && defOrUse(info, sel.X) == man {
						return []string{"cleanup"}, false
					}
				}
				return nil, false
			}
			fl.Run()
			ok := true
			var trace []string
			fl.ExitStates(func(ret *ast.ReturnStmt, st *core.State, b *cfg.Block) {
				if !st.Held["cleanup"] {
					ok = false
					trace = fl.TraceTo(b)
				}
			})
			if !ok {
				// ownership handed to a goroutine started here that cleans up on every exit
				ast.Inspect(body, func(x ast.Node) bool {
					g, isGo := x.(*ast.GoStmt)
					if !isGo {
						return true
					}
					lit, isLit := g.Call.Fun.(*ast.FuncLit)
					if !isLit {
						return true
					}
					gfl := &core.Flow{Prog: p, Info: info, Body: lit.Body, Events: fl.Events}
					gfl.Run()
					all, n := true, 0
					gfl.ExitStates(func(ret *ast.ReturnStmt, st *core.State, b *cfg.Block) {
						n++
						if !st.Held["cleanup"] {
							all = false
						}
					})
					if all && n > 0 {
						ok = true
					}
					return true
				})
			}
			if ok {
				res.OK(rule, key, p.Pos(mpos), "the manager's Cleanup() is reached on every exit (of the function or of the goroutine it is handed to)")
			} else {
				res.Bad(rule, key, p.Pos(mpos), fmt.Sprintf("%s creates a resource manager at %s and can finish without calling Cleanup(): every temporary key-value store the steps opened (distinct) stays open and on disk", fkey, p.Pos(mpos)), trace...)
			}
		}
	}
	return n
}

func c07(p *core.Prog, res *core.Result) {
	res.Explanation = "C07 (liveness structure): T1 every step (gdbi.Processor.Process) and every channel-returning lookup of the embedded driver closes its output exactly once on every exit of its (joined) producers and reads its input to exhaustion in exactly one process (process-network view, must-close dataflow); " +
		"T2 no feed-then-drain on bounded fan-out; T3 no synchronous producer of a returned channel; T4 every store scan that feeds a channel consults ctx inside the loop; " +
		"T4b no stop condition compares ctx.Err() with context.Canceled alone (a passed deadline must stop the work too); T7 every loop over the channel returned by pipeline.Start/Run/Resume reads it until it is closed (no return/break out of the loop); T5 limit/range derive a cancellable context, return it and cancel inside their input loop; T6 every resource manager reaches Cleanup() on every exit."
	res.NotDecided = []string{"absence of deadlock in general (needs a model of buffer occupancy)", "that goroutines are released promptly", "cycles introduced by mark/jump (C12)"}
	res.Rule("T1", "steps and lookups: output closed on every exit by its joined producers; input drained by one process", 40)
	res.Rule("T2", "no feed-then-drain on bounded fan-out", 0)
	res.Rule("T3", "no synchronous producer of a returned channel", 8)
	res.Rule("T4", "store scans feeding a channel consult ctx inside the loop", 3)
	res.Rule("T5", "limit/range cancel upstream", 2)
	res.Rule("T6", "resource managers reach Cleanup()", 2)

	proc := p.Iface("gdbi", "Processor")
	if proc == nil {
		res.Fail("gdbi.Processor not found")
		return
	}
	inScope := func(rel string) bool {
		if rel == "engine/core" || rel == "engine/logic" || rel == "kvgraph" || rel == "kvindex" {
			return true
		}
		// thorough: the other embedded driver and the shared lookup helpers; the external-database
		// and plugin drivers are not analysed (their idioms were not confirmed by reading)
		return res.Tier == "thorough" && (rel == "grids" || rel == "gdbi")
	}
	// processors that are constructed somewhere (dead implementations are not steps)
	constructed := map[*types.TypeName]bool{}
	for _, pk := range p.Pkgs {
		for _, f := range pk.Syntax {
			ast.Inspect(f, func(x ast.Node) bool {
				if cl, ok := x.(*ast.CompositeLit); ok {
					t := pk.TypesInfo.TypeOf(cl)
					if pt, ok := t.(*types.Pointer); ok {
						t = pt.Elem()
					}
					if nn, ok := t.(*types.Named); ok {
						constructed[nn.Obj()] = true
					}
				}
				return true
			})
		}
	}
	nProc := 0
	for _, impl := range p.Implementers(proc) {
		rel := core.RelPkg(impl.Obj().Pkg().Path())
		if !inScope(rel) || !constructed[impl.Obj()] {
			continue
		}
		fi := p.Method(impl, "Process")
		if fi == nil || fi.Decl.Body == nil {
			continue
		}
		nProc++
		// parameter names of in/out
		inName, outName := "in", "out"
		if pl := fi.Decl.Type.Params.List; len(pl) >= 3 {
			names := []string{}
			for _, f := range pl {
				for _, nm := range f.Names {
					names = append(names, nm.Name)
				}
			}
			if len(names) == 4 {
				inName, outName = names[2], names[3]
			}
		}
		checkNet(p, res, buildProcNet(p, fi), "T1", []string{outName}, []string{inName})
		feedThenDrain(p, res, fi, "T2")
	}
	res.Extra["process_methods"] = nProc
	// channel-returning functions of the embedded driver and index
	for _, fi := range p.AllDecls() {
		rel := core.RelPkg(fi.Pkg.PkgPath)
		if fi.Decl.Body == nil || !(rel == "kvgraph" || rel == "kvindex" || (res.Tier == "thorough" && (rel == "grids" || rel == "gdbi"))) {
			continue
		}
		sig := fi.Obj.Type().(*types.Signature)
		retChan := false
		for i := 0; i < sig.Results().Len(); i++ {
			if isChanType(sig.Results().At(i).Type()) {
				retChan = true
			}
		}
		if !retChan {
			continue
		}
		producerRules(p, res, fi, "T3", "T1")
		net := buildProcNet(p, fi)
		var outs []string
		for k := range net.Ret {
			outs = append(outs, k)
		}
		var ins []string
		for i := 0; i < sig.Params().Len(); i++ {
			if isChanType(sig.Params().At(i).Type()) {
				ins = append(ins, sig.Params().At(i).Name())
			}
		}
		checkNet(p, res, net, "T1", outs, ins)
		scanPollsCtx(p, res, fi, "T4")
	}
	for _, name := range []string{"Limit.Process", "Range.Process"} {
		if fi := p.Func("engine/core", name); fi != nil {
			cancelOnLimit(p, res, fi, "T5")
		} else {
			res.Fail("engine/core.%s not found", name)
		}
	}
	managerCleanup(p, res, "T6")
	res.Rule("T4b", "cancellation tests cover every way a context ends", 0)
	nb := 0
	for _, fi := range p.AllDecls() {
		rel := core.RelPkg(fi.Pkg.PkgPath)
		if fi.Decl.Body == nil || !(rel == "engine/pipeline" || rel == "engine/core" || rel == "engine/logic" || rel == "jobstorage" || rel == "kvgraph" || rel == "kvindex" || rel == "server") || strings.HasSuffix(p.Fset.Position(fi.Decl.Pos()).Filename, "_test.go") {
			continue
		}
		nb += canceledOnly(p, res, fi, "T4b")
	}
	if nb == 0 {
		res.OKTrivial("T4b", "engine+drivers|no Canceled-only test", "-", "no stop condition compares ctx.Err() with context.Canceled alone")
	}
	res.Rule("T7", "consumers of a running pipeline read its output to the end", 4)
	for _, fi := range p.AllDecls() {
		rel := core.RelPkg(fi.Pkg.PkgPath)
		if fi.Decl.Body == nil || !(rel == "engine/pipeline" || rel == "server" || rel == "gdbi/schema") || strings.HasSuffix(p.Fset.Position(fi.Decl.Pos()).Filename, "_test.go") {
			continue
		}
		pipelineConsumers(p, res, fi, "T7")
	}
}

// canceledOnly (T4b): `ctx.Err() == context.Canceled` as a stop condition is
// false when the context ended because its deadline passed (a client timeout is
// propagated as a deadline): the loop keeps running.
func canceledOnly(p *core.Prog, res *core.Result, fi *core.FuncInfo, rule string) int {
	info := fi.Pkg.TypesInfo
	fkey := core.FuncKey(fi.Obj)
	n := 0
	ast.Inspect(fi.Decl.Body, func(x ast.Node) bool {
		be, ok := x.(*ast.BinaryExpr)
		if !ok || be.Op != token.EQL {
			return true
		}
		isErrCall := func(e ast.Expr) bool {
			c, ok := ast.Unparen(e).(*ast.CallExpr)
			if !ok {
				return false
			}
			sel, ok := c.Fun.(*ast.SelectorExpr)
			return ok && sel.Sel.Name == "Err" && info.TypeOf(sel.X) != nil && strings.HasSuffix(info.TypeOf(sel.X).String(), "context.Context")
		}
		isCanceled := func(e ast.Expr) bool {
			sel, ok := ast.Unparen(e).(*ast.SelectorExpr)
			if !ok || sel.Sel.Name != "Canceled" {
				return false
			}
			o := info.Uses[sel.Sel]
			return o != nil && o.Pkg() != nil && o.Pkg().Path() == "context"
		}
		if !(isErrCall(be.X) && isCanceled(be.Y) || isErrCall(be.Y) && isCanceled(be.X)) {
			return true
		}
		n++
		res.Fn(fkey)
		res.Bad(rule, fmt.Sprintf("%s|Canceled#%d", fkey, n), p.Pos(be.Pos()), fmt.Sprintf("%s stops at %s only when ctx.Err() == context.Canceled: when the request ends because its deadline passed (client timeout) ctx.Err() is context.DeadlineExceeded, the test stays false and the loop runs to the end of its input", fkey, p.Pos(be.Pos())))
		return true
	})
	return n
}

// pipelineConsumers (T7): a loop over the channel returned by pipeline.Start /
// Run / Resume is the only consumer of the last step's output; every step
// goroutine upstream finishes only if that channel is read until it is closed.
func pipelineConsumers(p *core.Prog, res *core.Result, fi *core.FuncInfo, rule string) int {
	info := fi.Pkg.TypesInfo
	fkey := core.FuncKey(fi.Obj)
	isPipeCall := func(e ast.Expr) bool {
		c, ok := ast.Unparen(e).(*ast.CallExpr)
		if !ok {
			return false
		}
		fn := core.CalleeFunc(info, c)
		if fn == nil || fn.Pkg() == nil || !(strings.HasSuffix(fn.Pkg().Path(), "engine/pipeline") || strings.HasPrefix(fn.Pkg().Path(), core.SelfMod)) {
			return false
		}
		return fn.Name() == "Start" || fn.Name() == "Run" || fn.Name() == "Resume"
	}
	defs := localDefs(info, fi.Decl.Body)
	n := 0
	ast.Inspect(fi.Decl.Body, func(x ast.Node) bool {
		rs, ok := x.(*ast.RangeStmt)
		if !ok || !isChanType(info.TypeOf(rs.X)) {
			return true
		}
		src := rs.X
		if id, ok := ast.Unparen(src).(*ast.Ident); ok {
			if d, ok := defs[info.Uses[id]]; ok && d != nil {
				src = d
			}
		}
		if !isPipeCall(src) {
			return true
		}
		n++
		res.Fn(fkey)
		key := fmt.Sprintf("%s|consumer#%d", fkey, n)
		var leave token.Pos
		var scan func(node ast.Node, inner bool)
		scan = func(node ast.Node, inner bool) {
			ast.Inspect(node, func(y ast.Node) bool {
				if y == node {
					return true
				}
				switch z := y.(type) {
				case *ast.FuncLit:
					return false
				case *ast.ForStmt:
					scan(z.Body, true)
					return false
				case *ast.RangeStmt:
					scan(z.Body, true)
					return false
				case *ast.SwitchStmt, *ast.TypeSwitchStmt, *ast.SelectStmt:
					scan(z, true) // a break inside leaves the switch, not the loop
					return false
				case *ast.ReturnStmt:
					if leave == token.NoPos {
						leave = z.Pos()
					}
				case *ast.BranchStmt:
					if (z.Tok == token.BREAK && (!inner || z.Label != nil) || z.Tok == token.GOTO) && leave == token.NoPos {
						leave = z.Pos()
					}
				}
				return true
			})
		}
		scan(rs.Body, false)
		if leave != token.NoPos {
			res.Bad(rule, key, p.Pos(leave), fmt.Sprintf("%s leaves its loop over the pipeline's output at %s before the channel is closed: the last step blocks on its next send, so do all steps before it, and their goroutines (and the store iterators they hold) never finish", fkey, p.Pos(leave)))
		} else {
			res.OK(rule, key, p.Pos(rs.Pos()), "reads the pipeline's output until it is closed")
		}
		return true
	})
	return n
}

func c07selftest(st *core.Prog, res *core.Result) {
	rel := core.SelfMod + "/c07"
	pk := st.Pkg(rel)
	if pk == nil {
		res.Fail("C07 self-test package did not load")
		return
	}
	for _, fi := range st.AllDecls() {
		if fi.Pkg != pk {
			continue
		}
		name := fi.Obj.Name()
		var want core.Status
		switch {
		case strings.HasPrefix(name, "Ok"):
			want = core.Discharged
		case strings.HasPrefix(name, "Bad"):
			want = core.Violated
		default:
			continue
		}
		tmp := core.NewResult("C07", "self")
		feedThenDrain(st, tmp, fi, "T2")
		scanPollsCtx(st, tmp, fi, "T4")
		got := core.Discharged
		for _, o := range tmp.Obls {
			if o.Status == core.Violated {
				got = core.Violated
			}
		}
		if got != want {
			res.Fail("self-test %s: liveness rules gave %s, expected %s", name, got, want)
		} else {
			res.OKTrivial("SELF", "selftest|c07."+name, "-", "liveness rules give "+string(got)+" as expected")
		}
	}
}
