package props

import (
	"fmt"
	"go/ast"
	"go/constant"
	"go/token"
	"go/types"
	"sort"
	"strings"

	"gripverif/core"

	"golang.org/x/tools/go/cfg"
)

func init() {
	Registry["C08"] = c08
	SelfTests["C08"] = c08selftest
}

// c08documented: the documented meaning of the ordering conditions
// (gripql/has_operators.go doc comments and docs/queries), as predicates over
// value v, bound c, lower a, upper b.
var c08documented = map[string]struct {
	terms []string
	want  func(e ordEnv) bool
	doc   string
}{
	"GT":      {[]string{"v", "c"}, func(e ordEnv) bool { return e["v"] > e["c"] }, "value > bound"},
	"GTE":     {[]string{"v", "c"}, func(e ordEnv) bool { return e["v"] >= e["c"] }, "value >= bound"},
	"LT":      {[]string{"v", "c"}, func(e ordEnv) bool { return e["v"] < e["c"] }, "value < bound"},
	"LTE":     {[]string{"v", "c"}, func(e ordEnv) bool { return e["v"] <= e["c"] }, "value <= bound"},
	"INSIDE":  {[]string{"v", "a", "b"}, func(e ordEnv) bool { return e["v"] > e["a"] && e["v"] < e["b"] }, "lower < value < upper"},
	"OUTSIDE": {[]string{"v", "a", "b"}, func(e ordEnv) bool { return e["v"] < e["a"] || e["v"] > e["b"] }, "value < lower or value > upper"},
	"BETWEEN": {[]string{"v", "a", "b"}, func(e ordEnv) bool { return e["v"] >= e["a"] && e["v"] < e["b"] }, "lower <= value < upper"},
}

// conditionArms returns the arms of the switch over gripql.Condition in fi.
func conditionArms(fi *core.FuncInfo) (map[string]*ast.CaseClause, *ast.SwitchStmt, bool) {
	info := fi.Pkg.TypesInfo
	out := map[string]*ast.CaseClause{}
	var sw *ast.SwitchStmt
	hasDefault := false
	ast.Inspect(fi.Decl.Body, func(n ast.Node) bool {
		if s, ok := n.(*ast.SwitchStmt); ok && sw == nil && s.Tag != nil {
			if t := info.TypeOf(s.Tag); t != nil && strings.HasSuffix(t.String(), "gripql.Condition") {
				sw = s
			}
		}
		return true
	})
	if sw == nil {
		return out, nil, false
	}
	for _, c := range sw.Body.List {
		cc := c.(*ast.CaseClause)
		if cc.List == nil {
			hasDefault = true
		}
		for _, e := range cc.List {
			name := ""
			switch x := ast.Unparen(e).(type) {
			case *ast.SelectorExpr:
				name = x.Sel.Name
			case *ast.Ident:
				name = x.Name
			}
			out[strings.TrimPrefix(name, "Condition_")] = cc
		}
	}
	return out, sw, hasDefault
}

// c08origin: which role a numeric variable of an ordering arm plays, from the
// argument of the cast call that defines it: the looked-up value, the
// condition value, or element 0 / 1 of the condition's list.
// castHelper describes a repository helper that casts some of its parameters:
// result i is the float of parameter ParamOf[i]; Flag is the index of its
// Boolean success result (-1: none); Sound says that every return with a true
// flag comes after all casts were checked.
type castHelper struct {
	ParamOf map[int]int
	Flag    int
	Sound   bool
}

func c08castHelper(p *core.Prog, fn *types.Func) *castHelper {
	fi := p.Info(fn)
	if fi == nil || fi.Decl.Body == nil {
		return nil
	}
	info := fi.Pkg.TypesInfo
	sig := fn.Type().(*types.Signature)
	params := map[types.Object]int{}
	for i := 0; i < sig.Params().Len(); i++ {
		params[sig.Params().At(i)] = i
	}
	h := &castHelper{ParamOf: map[int]int{}, Flag: -1, Sound: true}
	for i := 0; i < sig.Results().Len(); i++ {
		if b, ok := sig.Results().At(i).Type().Underlying().(*types.Basic); ok && b.Kind() == types.Bool {
			h.Flag = i
		}
	}
	// local float <- param through ToFloat64E
	from := map[types.Object]int{}
	ast.Inspect(fi.Decl.Body, func(n ast.Node) bool {
		as, ok := n.(*ast.AssignStmt)
		if !ok || len(as.Rhs) != 1 {
			return true
		}
		c, ok := ast.Unparen(as.Rhs[0]).(*ast.CallExpr)
		if !ok || len(c.Args) != 1 {
			return true
		}
		if f := core.CalleeFunc(info, c); f == nil || f.Name() != "ToFloat64E" {
			return true
		}
		if o := defOrUse(info, c.Args[0]); o != nil {
			if pi, ok := params[o]; ok {
				if l := defOrUse(info, as.Lhs[0]); l != nil {
					from[l] = pi
				}
			}
		}
		return true
	})
	if len(from) == 0 {
		return nil
	}
	fl := &core.Flow{Prog: p, Info: info, Body: fi.Decl.Body}
	fl.Events = func(n ast.Node, st *core.State) ([]string, bool) {
		as, ok := n.(*ast.AssignStmt)
		if !ok || len(as.Rhs) != 1 || len(as.Lhs) != 2 {
			return nil, false
		}
		if c, ok := ast.Unparen(as.Rhs[0]).(*ast.CallExpr); ok {
			if f := core.CalleeFunc(info, c); f != nil && f.Name() == "ToFloat64E" {
				if o := defOrUse(info, as.Lhs[0]); o != nil {
					return []string{"num:" + o.Name()}, true
				}
			}
		}
		return nil, false
	}
	fl.Run()
	fl.Walk(func(n ast.Node, st *core.State, b *cfg.Block) {
		r, ok := n.(*ast.ReturnStmt)
		if !ok || len(r.Results) != sig.Results().Len() {
			if ok && len(r.Results) == 0 {
				h.Sound = false // naked return: not followed
			}
			return
		}
		flagTrue := h.Flag < 0
		if h.Flag >= 0 {
			if tv, ok := info.Types[r.Results[h.Flag]]; ok && tv.Value != nil && tv.Value.Kind() == constant.Bool {
				flagTrue = constant.BoolVal(tv.Value)
			} else {
				h.Sound = false
			}
		}
		for i, e := range r.Results {
			if o := defOrUse(info, e); o != nil {
				if pi, ok := from[o]; ok {
					h.ParamOf[i] = pi
					if flagTrue && !st.Held["num:"+o.Name()] {
						h.Sound = false
					}
				}
			}
		}
	})
	if len(h.ParamOf) == 0 {
		return nil
	}
	return h
}

func c08origins(p *core.Prog, info *types.Info, fn *ast.FuncDecl, cc *ast.CaseClause) (roles map[types.Object]string, casts map[types.Object]*ast.CallExpr, flags map[types.Object]map[types.Object]bool, unsound []string) {
	roles = map[types.Object]string{}
	casts = map[types.Object]*ast.CallExpr{}
	flags = map[types.Object]map[types.Object]bool{}
	// classify the function-level variables: value (from a path lookup) and condition value
	base := map[types.Object]string{}
	lists := map[types.Object]bool{}
	classify := func(body ast.Node) {
		ast.Inspect(body, func(n ast.Node) bool {
			as, ok := n.(*ast.AssignStmt)
			if !ok || len(as.Rhs) != 1 {
				return true
			}
			c, ok := ast.Unparen(as.Rhs[0]).(*ast.CallExpr)
			if !ok {
				return true
			}
			fnObj := core.CalleeFunc(info, c)
			if fnObj == nil {
				return true
			}
			lhs := defOrUse(info, as.Lhs[0])
			if lhs == nil {
				return true
			}
			// a repository helper that casts its arguments
			if p != nil && len(as.Lhs) >= 2 && fnObj.Name() != "ToFloat64E" && fnObj.Name() != "ToSliceE" {
				if h := c08castHelper(p, fnObj); h != nil {
					if !h.Sound {
						unsound = append(unsound, fnObj.Name())
					}
					var flagObj types.Object
					if h.Flag >= 0 && h.Flag < len(as.Lhs) {
						flagObj = defOrUse(info, as.Lhs[h.Flag])
					}
					for ri, pi := range h.ParamOf {
						if ri >= len(as.Lhs) || pi >= len(c.Args) {
							continue
						}
						l := defOrUse(info, as.Lhs[ri])
						if l == nil {
							continue
						}
						casts[l] = c
						if flagObj != nil {
							if flags[flagObj] == nil {
								flags[flagObj] = map[types.Object]bool{}
							}
							flags[flagObj][l] = true
						}
						switch a := ast.Unparen(c.Args[pi]).(type) {
						case *ast.Ident:
							if r := base[info.Uses[a]]; r != "" {
								roles[l] = r
							}
						case *ast.IndexExpr:
							if o := defOrUse(info, a.X); o != nil && lists[o] {
								if tv, ok := info.Types[a.Index]; ok && tv.Value != nil {
									if i, ok := constant.Int64Val(tv.Value); ok && i <= 1 {
										roles[l] = []string{"a", "b"}[i]
									}
								}
							}
						}
					}
					return true
				}
			}
			switch fnObj.Name() {
			case "TravelerPathLookup":
				base[lhs] = "v"
			case "AsInterface":
				base[lhs] = "c"
			case "ToSliceE":
				if len(c.Args) == 1 {
					if o := defOrUse(info, c.Args[0]); o != nil && base[o] == "c" {
						lists[lhs] = true
					}
				}
			case "ToFloat64E", "ToFloat64":
				if len(c.Args) != 1 {
					return true
				}
				casts[lhs] = c
				switch a := ast.Unparen(c.Args[0]).(type) {
				case *ast.Ident:
					if r := base[info.Uses[a]]; r != "" {
						roles[lhs] = r
					}
				case *ast.IndexExpr:
					if o := defOrUse(info, a.X); o != nil && lists[o] {
						if tv, ok := info.Types[a.Index]; ok && tv.Value != nil {
							if i, ok := constant.Int64Val(tv.Value); ok {
								roles[lhs] = []string{"a", "b"}[i&1]
								if i > 1 {
									roles[lhs] = "?"
								}
							}
						}
					}
				}
			}
			return true
		})
	}
	classify(fn.Body)
	return
}

// c08ordering checks one ordering arm: cast discipline and boundary semantics.
func c08ordering(p *core.Prog, res *core.Result, fi *core.FuncInfo, name string, cc *ast.CaseClause, prefix string) {
	info := fi.Pkg.TypesInfo
	doc := c08documented[name]
	roles, casts, flags, unsoundHelpers := c08origins(p, info, fi.Decl, cc)
	// operands produced by a cast helper are valid where its success flag is known true
	flagOf := map[types.Object]types.Object{}
	for fl, vars := range flags {
		for v := range vars {
			flagOf[v] = fl
		}
	}
	// B2: every numeric operand of the returned comparison comes from a checked ToFloat64E
	fl := &core.Flow{Prog: p, Info: info, Body: &ast.BlockStmt{List: cc.Body}}
	fl.Events = func(n ast.Node, st *core.State) ([]string, bool) {
		as, ok := n.(*ast.AssignStmt)
		if !ok || len(as.Rhs) != 1 || len(as.Lhs) != 2 {
			return nil, false
		}
		c, ok := ast.Unparen(as.Rhs[0]).(*ast.CallExpr)
		if !ok {
			return nil, false
		}
		if fn := core.CalleeFunc(info, c); fn != nil && (fn.Name() == "ToFloat64E" || fn.Name() == "ToSliceE") {
			if o := defOrUse(info, as.Lhs[0]); o != nil {
				return []string{"num:" + o.Name()}, true
			}
		}
		return nil, false
	}
	fl.Run()
	var cmp ast.Expr
	var problems []string
	keyB2 := prefix + "cast|" + name
	keyB3 := prefix + "boundary|" + name
	fl.Walk(func(n ast.Node, st *core.State, b *cfg.Block) {
		r, ok := n.(*ast.ReturnStmt)
		if !ok || len(r.Results) != 1 {
			return
		}
		e := ast.Unparen(r.Results[0])
		if tv, ok := info.Types[e]; ok && tv.Value != nil {
			return // constant result (false on a failed cast)
		}
		cmp = e
		ast.Inspect(e, func(x ast.Node) bool {
			id, ok := x.(*ast.Ident)
			if !ok {
				return true
			}
			o := info.Uses[id]
			if _, isVar := o.(*types.Var); !isVar {
				return true
			}
			if b, ok := o.Type().Underlying().(*types.Basic); !ok || b.Info()&types.IsNumeric == 0 {
				return true
			}
			if fo := flagOf[o]; fo != nil && conjunctFlag(info, e, fo) {
				return true // compared only under the helper's success flag
			}
			if !st.Held["num:"+id.Name] {
				problems = append(problems, fmt.Sprintf("operand %s of the comparison at %s is not the result of a cast.ToFloat64E call whose error was tested on this path", id.Name, p.Pos(r.Pos())))
			}
			return true
		})
	})
	// any unchecked ToFloat64 (panics never, but coerces errors to 0: a non-number would match)
	ast.Inspect(cc, func(x ast.Node) bool {
		if c, ok := x.(*ast.CallExpr); ok {
			if fn := core.CalleeFunc(info, c); fn != nil && fn.Pkg() != nil && strings.HasSuffix(fn.Pkg().Path(), "spf13/cast") && !strings.HasSuffix(fn.Name(), "E") {
				problems = append(problems, fmt.Sprintf("%s at %s converts without reporting failure: a value that is not a number becomes 0 and takes part in the ordering test", fn.Name(), p.Pos(c.Pos())))
			}
		}
		return true
	})
	// the error path must answer false
	fl.ExitStates(func(ret *ast.ReturnStmt, st *core.State, b *cfg.Block) {
		if ret == nil || len(ret.Results) != 1 {
			return
		}
		if tv, ok := info.Types[ast.Unparen(ret.Results[0])]; ok && tv.Value != nil && tv.Value.Kind() == constant.Bool && constant.BoolVal(tv.Value) {
			problems = append(problems, fmt.Sprintf("the arm returns the constant true at %s", p.Pos(ret.Pos())))
		}
	})
	for _, h := range unsoundHelpers {
		problems = append(problems, fmt.Sprintf("the cast helper %s can report success although one of its casts failed", h))
	}
	if cmp == nil {
		res.Unres("B3", keyB3, p.Pos(cc.Pos()), "no returned comparison found in this arm")
		return
	}
	if len(problems) > 0 {
		sort.Strings(problems)
		res.Bad("B2", keyB2, p.Pos(cc.Pos()), fmt.Sprintf("condition %s: %s — operands that are not numbers must never match an ordering test", name, strings.Join(problems, "; ")))
	} else {
		res.OK("B2", keyB2, p.Pos(cc.Pos()), fmt.Sprintf("%d cast(s), each tested before its result is compared; failure answers false", len(casts)))
	}
	alias := func(e ast.Expr) string {
		if id, ok := ast.Unparen(e).(*ast.Ident); ok {
			if r, ok := roles[info.Uses[id]]; ok {
				return r
			}
			if _, isFlag := flags[info.Uses[id]]; isFlag {
				return "#true" // the predicate is read under "all operands are numbers"
			}
		}
		return ""
	}
	bad, got, n, ok := ordCompare(info, cmp, doc.terms, alias, nil, doc.want)
	switch {
	case !ok:
		res.Unres("B3", keyB3, p.Pos(cmp.Pos()), "the returned expression is not a combination of comparisons of the value and the bound(s): "+types.ExprString(cmp))
	case bad != nil:
		res.Bad("B3", keyB3, p.Pos(cmp.Pos()), fmt.Sprintf("condition %s returns %s, which differs from the documented meaning (%s): for %v the code answers %v", name, types.ExprString(cmp), doc.doc, map[string]float64(bad), got))
	default:
		res.OK("B3", keyB3, p.Pos(cmp.Pos()), fmt.Sprintf("%s equals the documented predicate (%s) on all %d orderings", types.ExprString(cmp), doc.doc, n))
	}
}

// ---------------------------------------------------------------------------
// B4: the Boolean combinators, by abstract execution of the arm on every
// truth assignment of up to three sub-expressions.

type c08val struct {
	kind string // "bool", "bools", "handles", "handle", "node"
	b    bool
	bs   []bool
	hs   []int
	h    int
}

type c08interp struct {
	info  *types.Info
	self  *types.Func
	truth []bool
	env   map[types.Object]c08val
	steps int
	fail  string
	n     int // number of sub-expressions of the node under evaluation
}

type c08ctl int

const (
	ctlNext c08ctl = iota
	ctlReturn
	ctlBreak
	ctlContinue
)

func (in *c08interp) expr(e ast.Expr) (c08val, bool) {
	e = ast.Unparen(e)
	if tv, ok := in.info.Types[e]; ok && tv.Value != nil && tv.Value.Kind() == constant.Bool {
		return c08val{kind: "bool", b: constant.BoolVal(tv.Value)}, true
	}
	switch x := e.(type) {
	case *ast.Ident:
		if v, ok := in.env[in.info.Uses[x]]; ok {
			return v, true
		}
	case *ast.UnaryExpr:
		if x.Op == token.NOT {
			if v, ok := in.expr(x.X); ok && v.kind == "bool" {
				return c08val{kind: "bool", b: !v.b}, true
			}
		}
	case *ast.BinaryExpr:
		a, ok1 := in.expr(x.X)
		if !ok1 || a.kind != "bool" {
			break
		}
		if x.Op == token.LAND && !a.b {
			return a, true
		}
		if x.Op == token.LOR && a.b {
			return a, true
		}
		b, ok2 := in.expr(x.Y)
		if !ok2 || b.kind != "bool" {
			break
		}
		switch x.Op {
		case token.LAND:
			return c08val{kind: "bool", b: a.b && b.b}, true
		case token.LOR:
			return c08val{kind: "bool", b: a.b || b.b}, true
		case token.EQL:
			return c08val{kind: "bool", b: a.b == b.b}, true
		case token.NEQ:
			return c08val{kind: "bool", b: a.b != b.b}, true
		}
	case *ast.CompositeLit:
		if len(x.Elts) == 0 {
			return c08val{kind: "bools"}, true
		}
	case *ast.SelectorExpr:
		// <list node>.Expressions
		if v, ok := in.expr(x.X); ok && v.kind == "node" && x.Sel.Name == "Expressions" {
			hs := make([]int, in.n)
			for i := range hs {
				hs[i] = i
			}
			return c08val{kind: "handles", hs: hs}, true
		}
	case *ast.CallExpr:
		if isBuiltin2(in.info, x, "append") && len(x.Args) == 2 {
			l, ok1 := in.expr(x.Args[0])
			v, ok2 := in.expr(x.Args[1])
			if ok1 && ok2 && l.kind == "bools" && v.kind == "bool" {
				return c08val{kind: "bools", bs: append(append([]bool{}, l.bs...), v.b)}, true
			}
			break
		}
		if isBuiltin2(in.info, x, "len") && len(x.Args) == 1 {
			break
		}
		fn := core.CalleeFunc(in.info, x)
		if fn == nil {
			break
		}
		if fn == in.self && len(x.Args) >= 1 {
			if h, ok := in.expr(x.Args[len(x.Args)-1]); ok && h.kind == "handle" && h.h < len(in.truth) {
				return c08val{kind: "bool", b: in.truth[h.h]}, true
			}
			break
		}
		switch fn.Name() {
		case "GetAnd", "GetOr":
			return c08val{kind: "node"}, true
		case "GetNot":
			return c08val{kind: "handle", h: 0}, true
		case "GetExpressions":
			if sel, ok := x.Fun.(*ast.SelectorExpr); ok {
				if v, ok := in.expr(sel.X); ok && v.kind == "node" {
					hs := make([]int, in.n)
					for i := range hs {
						hs[i] = i
					}
					return c08val{kind: "handles", hs: hs}, true
				}
			}
		}
	}
	in.fail = "expression outside the interpreted subset: " + types.ExprString(e)
	return c08val{}, false
}

func (in *c08interp) block(list []ast.Stmt) (c08ctl, bool, bool) {
	for _, s := range list {
		c, v, ok := in.stmt(s)
		if !ok || c != ctlNext {
			return c, v, ok
		}
	}
	return ctlNext, false, true
}

func (in *c08interp) stmt(s ast.Stmt) (c08ctl, bool, bool) {
	in.steps++
	if in.steps > 5000 {
		in.fail = "step bound exceeded"
		return ctlNext, false, false
	}
	switch x := s.(type) {
	case *ast.AssignStmt:
		if len(x.Lhs) != len(x.Rhs) {
			in.fail = "tuple assignment"
			return ctlNext, false, false
		}
		for i, l := range x.Lhs {
			v, ok := in.expr(x.Rhs[i])
			if !ok {
				return ctlNext, false, false
			}
			if id, ok := ast.Unparen(l).(*ast.Ident); ok {
				if id.Name == "_" {
					continue
				}
				in.env[defOrUse(in.info, id)] = v
			} else {
				in.fail = "assignment to a non-variable"
				return ctlNext, false, false
			}
		}
	case *ast.DeclStmt:
		gd, ok := x.Decl.(*ast.GenDecl)
		if !ok {
			break
		}
		for _, sp := range gd.Specs {
			vs, ok := sp.(*ast.ValueSpec)
			if !ok {
				continue
			}
			for i, id := range vs.Names {
				v := c08val{kind: "bool"}
				if i < len(vs.Values) {
					var ok bool
					v, ok = in.expr(vs.Values[i])
					if !ok {
						return ctlNext, false, false
					}
				} else if _, isSlice := in.info.TypeOf(id).Underlying().(*types.Slice); isSlice {
					v = c08val{kind: "bools"}
				}
				in.env[in.info.Defs[id]] = v
			}
		}
	case *ast.ReturnStmt:
		if len(x.Results) != 1 {
			in.fail = "return without a single result"
			return ctlNext, false, false
		}
		v, ok := in.expr(x.Results[0])
		if !ok || v.kind != "bool" {
			if in.fail == "" {
				in.fail = "non-Boolean return"
			}
			return ctlNext, false, false
		}
		return ctlReturn, v.b, true
	case *ast.IfStmt:
		if x.Init != nil {
			if c, v, ok := in.stmt(x.Init); !ok || c != ctlNext {
				return c, v, ok
			}
		}
		cv, ok := in.expr(x.Cond)
		if !ok || cv.kind != "bool" {
			return ctlNext, false, false
		}
		if cv.b {
			return in.block(x.Body.List)
		}
		switch e := x.Else.(type) {
		case *ast.BlockStmt:
			return in.block(e.List)
		case *ast.IfStmt:
			return in.stmt(e)
		}
	case *ast.RangeStmt:
		lv, ok := in.expr(x.X)
		if !ok {
			return ctlNext, false, false
		}
		var n int
		switch lv.kind {
		case "bools":
			n = len(lv.bs)
		case "handles":
			n = len(lv.hs)
		default:
			in.fail = "range over a value that is neither the sub-expressions nor a result list"
			return ctlNext, false, false
		}
		for i := 0; i < n; i++ {
			if x.Value != nil {
				if id, ok := x.Value.(*ast.Ident); ok && id.Name != "_" {
					if lv.kind == "bools" {
						in.env[defOrUse(in.info, id)] = c08val{kind: "bool", b: lv.bs[i]}
					} else {
						in.env[defOrUse(in.info, id)] = c08val{kind: "handle", h: lv.hs[i]}
					}
				}
			}
			c, v, ok := in.block(x.Body.List)
			if !ok || c == ctlReturn {
				return c, v, ok
			}
			if c == ctlBreak {
				break
			}
		}
	case *ast.BranchStmt:
		switch x.Tok {
		case token.BREAK:
			return ctlBreak, false, true
		case token.CONTINUE:
			return ctlContinue, false, true
		}
		in.fail = "goto/fallthrough"
		return ctlNext, false, false
	case *ast.BlockStmt:
		return in.block(x.List)
	case *ast.ExprStmt:
		// logging calls have no effect on the result
		if c, ok := x.X.(*ast.CallExpr); ok {
			if fn := core.CalleeFunc(in.info, c); fn != nil && fn.Pkg() != nil && (strings.HasSuffix(fn.Pkg().Path(), "/log") || fn.Pkg().Path() == "fmt") {
				break
			}
		}
		in.fail = "statement outside the interpreted subset"
		return ctlNext, false, false
	case *ast.EmptyStmt:
	default:
		in.fail = fmt.Sprintf("statement kind %T outside the interpreted subset", s)
		return ctlNext, false, false
	}
	return ctlNext, false, true
}

// c08combinators checks the And/Or/Not arms of a has-expression evaluator.
func c08combinators(p *core.Prog, res *core.Result, fi *core.FuncInfo, prefix string) {
	info := fi.Pkg.TypesInfo
	arms, _, sw := typeSwitchCases(info, fi.Decl.Body, "isHasExpression_Expression")
	if sw == nil {
		res.Unres("B4", prefix+"combinator|switch", p.Pos(fi.Decl.Pos()), "type switch over the expression kinds not found")
		return
	}
	res.Fn(core.FuncKey(fi.Obj))
	spec := map[string]func(ts []bool) bool{
		"HasExpression_And": func(ts []bool) bool {
			for _, t := range ts {
				if !t {
					return false
				}
			}
			return true
		},
		"HasExpression_Or": func(ts []bool) bool {
			for _, t := range ts {
				if t {
					return true
				}
			}
			return false
		},
		"HasExpression_Not": func(ts []bool) bool { return !ts[0] },
	}
	for _, kind := range []string{"HasExpression_And", "HasExpression_Or", "HasExpression_Not"} {
		short := strings.TrimPrefix(kind, "HasExpression_")
		key := prefix + "combinator|" + short
		cc := arms[kind]
		if cc == nil {
			res.Bad("B1", prefix+"totality|"+short, p.Pos(sw.Pos()), "no arm for "+short+" expressions: they are evaluated as false (or fall through)")
			continue
		}
		sizes := []int{0, 1, 2, 3}
		if kind == "HasExpression_Not" {
			sizes = []int{1}
		}
		bad, unres := "", ""
		cases := 0
		for _, n := range sizes {
			for m := 0; m < 1<<n && bad == "" && unres == ""; m++ {
				ts := make([]bool, n)
				for i := range ts {
					ts[i] = m>>i&1 == 1
				}
				in := &c08interp{info: info, self: fi.Obj, truth: ts, env: map[types.Object]c08val{}, n: n}
				c, v, ok := in.block(cc.Body)
				cases++
				switch {
				case !ok:
					unres = in.fail
				case c != ctlReturn:
					unres = "the arm does not return on every path"
				case v != spec[kind](ts):
					bad = fmt.Sprintf("with sub-expression results %v the arm answers %v", ts, v)
				}
			}
		}
		switch {
		case bad != "":
			res.Bad("B4", key, p.Pos(cc.Pos()), fmt.Sprintf("the %s arm of %s does not compute the Boolean %s of its sub-expressions: %s", short, core.FuncKey(fi.Obj), strings.ToLower(short), bad))
		case unres != "":
			res.Unres("B4", key, p.Pos(cc.Pos()), "the arm could not be evaluated abstractly: "+unres)
		default:
			res.OK("B4", key, p.Pos(cc.Pos()), fmt.Sprintf("equals Boolean %s on all %d truth assignments of up to 3 sub-expressions", strings.ToLower(short), cases))
		}
	}
	if cc := arms["HasExpression_Condition"]; cc == nil {
		res.Bad("B1", prefix+"totality|Condition", p.Pos(sw.Pos()), "no arm for Condition expressions")
	} else {
		res.OK("B1", prefix+"totality|Condition", p.Pos(cc.Pos()), "arm present")
	}
}

func c08(p *core.Prog, res *core.Result) {
	res.Explanation = "C08 (structural clauses over engine/logic): B1 totality — MatchesCondition has an arm for every gripql.Condition except UNKNOWN_CONDITION and MatchesHasExpression for every HasExpression kind; " +
		"B2 cast discipline — in every ordering arm each numeric operand of the returned comparison is the result of cast.ToFloat64E whose error was tested on that path (must-dataflow), no error-swallowing cast is used, and failure answers false: the structural half of 'operands that are not numbers never match'; " +
		"B3 boundary semantics — for gt, gte, lt, lte, inside, outside, between the returned comparison, read as a predicate over all orderings of (value, bound[s]) with roles taken from the cast arguments, equals the documented predicate; " +
		"B4 combinators — the And, Or and Not arms, executed abstractly on every truth assignment of up to three sub-expression results, return all / any / negation (so De Morgan duals, double negation and reordering cannot change the kept set)."
	res.NotDecided = []string{"reflect.DeepEqual semantics behind eq/neq/within/without/contains (int vs float, nested values)", "which values cast.ToFloat64E accepts as numbers (numeric text, booleans)", "missing-field handling by the jsonpath library", "has() on the other back ends (mongo: C14; sql: not decided)"}
	res.Rule("B1", "every condition and expression kind has an arm", 13)
	res.Rule("B2", "ordering arms compare only successfully converted numbers", 7)
	res.Rule("B3", "boundary semantics equal the documented predicates on all orderings", 7)
	res.Rule("B4", "and/or/not compute all/any/negation", 3)
	mc := p.Func("engine/logic", "MatchesCondition")
	mh := p.Func("engine/logic", "MatchesHasExpression")
	if mc == nil || mh == nil {
		res.Fail("engine/logic.MatchesCondition / MatchesHasExpression not found")
		return
	}
	res.Fn(core.FuncKey(mc.Obj))
	arms, sw, _ := conditionArms(mc)
	if sw == nil {
		res.Fail("switch over gripql.Condition not found in MatchesCondition")
		return
	}
	if pk := p.Pkg("gripql"); pk != nil {
		for _, n := range pk.Types.Scope().Names() {
			c, ok := pk.Types.Scope().Lookup(n).(*types.Const)
			if !ok || !strings.HasPrefix(n, "Condition_") || !strings.HasSuffix(c.Type().String(), "gripql.Condition") {
				continue
			}
			cn := strings.TrimPrefix(n, "Condition_")
			if cn == "UNKNOWN_CONDITION" {
				continue
			}
			if cc, ok := arms[cn]; ok {
				res.OK("B1", "totality|"+cn, p.Pos(cc.Pos()), "arm present")
			} else {
				res.Bad("B1", "totality|"+cn, p.Pos(sw.Pos()), fmt.Sprintf("condition %s has no arm in MatchesCondition: has(%s(...)) keeps nothing", cn, strings.ToLower(cn)))
			}
		}
	}
	var names []string
	for n := range c08documented {
		names = append(names, n)
	}
	sort.Strings(names)
	for _, n := range names {
		if cc := arms[n]; cc != nil {
			c08ordering(p, res, mc, n, cc, "")
		}
	}
	c08combinators(p, res, mh, "")
}

func c08selftest(st *core.Prog, res *core.Result) {
	rel := core.SelfMod + "/c08"
	pk := st.Pkg(rel)
	if pk == nil {
		res.Fail("C08 self-test package did not load")
		return
	}
	for _, fi := range st.AllDecls() {
		if fi.Pkg != pk || fi.Decl.Recv != nil {
			continue
		}
		name := fi.Obj.Name()
		var want core.Status
		switch {
		case strings.HasPrefix(name, "Ok"):
			want = core.Discharged
		case strings.HasPrefix(name, "Bad"):
			want = core.Violated
		default:
			continue
		}
		tmp := core.NewResult("C08", "self")
		if strings.Contains(name, "Match") {
			c08combinators(st, tmp, fi, name+"|")
		} else {
			arms, _, _ := conditionArms(fi)
			for n, cc := range arms {
				if _, ok := c08documented[n]; ok {
					c08ordering(st, tmp, fi, n, cc, name+"|")
				}
			}
		}
		got := core.Discharged
		for _, o := range tmp.Obls {
			if o.Status == core.Violated {
				got = core.Violated
			} else if o.Status == core.Unresolved && got != core.Violated {
				got = core.Unresolved
			}
		}
		if got != want {
			res.Fail("self-test %s: got %s, expected %s", name, got, want)
		} else {
			res.OKTrivial("SELF", "selftest|c08."+name, "-", "rules give "+string(got)+" as expected")
		}
	}
}


// conjunctFlag: flag is a top-level conjunct of e (e = flag && …).
func conjunctFlag(info *types.Info, e ast.Expr, flag types.Object) bool {
	e = ast.Unparen(e)
	if id, ok := e.(*ast.Ident); ok {
		return info.Uses[id] == flag
	}
	if b, ok := e.(*ast.BinaryExpr); ok && b.Op == token.LAND {
		return conjunctFlag(info, b.X, flag) || conjunctFlag(info, b.Y, flag)
	}
	return false
}
