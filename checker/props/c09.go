package props

import (
	"go/ast"
	"go/constant"
	"go/types"
	"strings"

	"gripverif/core"
)

func init() {
	Registry["C09"] = c09
	SelfTests["C09"] = c09selftest
}

func c09(p *core.Prog, res *core.Result) {
	res.Explanation = "C09 (structural clauses only — the thinnest claim of the set): Q1 key builder/parser agreement for the index key families (field, term, entry, doc) and their prefix builders; " +
		"Q5 every store operation of the index receives a key of the right kind — Set/Delete/Get/HasKey a full key, DeletePrefix and prefix scans a separator-terminated prefix built by a prefix builder (a prefix without its terminator also matches the keys of every field whose name merely starts the same way); Q2 the fixed width the entry-key parser cuts for number terms equals the width the number encoder emits; " +
		"Q3 no index query returns a channel it has filled synchronously (a bounded buffer filled before anybody can read deadlocks once the answer exceeds the buffer); " +
		"Q4 every index query closes the channel it returns on every path of its producer goroutine."
	res.NotDecided = []string{"everything value-level: stale entries after replacement, lazy counts, sign-aware ordering of number terms, removal — index = scan equality is not decided"}
	res.Rule("Q1", "index key builder/parser agreement (kvindex)", 6)
	res.Rule("Q2", "number terms: parser's fixed width equals the encoder's output width", 1)
	res.Rule("Q3", "no synchronous producer of a returned channel (kvindex)", 4)
	res.Rule("Q4", "returned channels are closed on every path of their only producer (kvindex)", 4)
	ki := extractCodec(p, "kvindex")
	if ki == nil {
		res.Fail("kvindex codec not found")
		return
	}
	codecAgreement(p, res, ki, "Q1")
	res.Rule("Q5", "key-kind typing: exact-key operations take full keys, prefix operations take separator-terminated prefixes (kvindex)", 15)
	keyKindTyping(p, res, ki, "Q5")
	c09width(p, res)
	n := 0
	for _, fi := range p.AllDecls() {
		if fi.Pkg != ki.Pkg || fi.Decl.Body == nil {
			continue
		}
		n += producerRules(p, res, fi, "Q3", "Q4")
	}
	res.Extra["channel_producers"] = n
}

// c09width compares make([]byte, N) in the float64 arm of GetTermBytes with
// the slice bounds EntryKeyParse applies to number terms.
func c09width(p *core.Prog, res *core.Result) {
	enc := p.Func("kvindex", "GetTermBytes")
	dec := p.Func("kvindex", "EntryKeyParse")
	if enc == nil || dec == nil {
		res.Fail("kvindex.GetTermBytes / EntryKeyParse not found")
		return
	}
	info := enc.Pkg.TypesInfo
	width := int64(-1)
	ast.Inspect(enc.Decl.Body, func(n ast.Node) bool {
		cc, ok := n.(*ast.CaseClause)
		if !ok {
			return true
		}
		isFloat := false
		for _, e := range cc.List {
			if t := info.TypeOf(e); t != nil && types.Identical(t, types.Typ[types.Float64]) {
				isFloat = true
			}
		}
		if !isFloat {
			return true
		}
		for _, s := range cc.Body {
			ast.Inspect(s, func(m ast.Node) bool {
				if c, ok := m.(*ast.CallExpr); ok && isBuiltin2(info, c, "make") && len(c.Args) == 2 {
					if tv := info.Types[c.Args[1]]; tv.Value != nil {
						width, _ = constant.Int64Val(tv.Value)
					}
				}
				return true
			})
		}
		return true
	})
	var cuts []int64
	ast.Inspect(dec.Decl.Body, func(n ast.Node) bool {
		if se, ok := n.(*ast.SliceExpr); ok {
			for _, b := range []ast.Expr{se.Low, se.High} {
				if b != nil {
					if tv := info.Types[b]; tv.Value != nil {
						v, _ := constant.Int64Val(tv.Value)
						if v != 0 {
							cuts = append(cuts, v)
						}
					}
				}
			}
		}
		return true
	})
	res.Fn(core.FuncKey(enc.Obj))
	res.Fn(core.FuncKey(dec.Obj))
	key := "kvindex.GetTermBytes↔EntryKeyParse"
	if width < 0 || len(cuts) == 0 {
		res.Unres("Q2", key, p.Pos(dec.Decl.Pos()), "fixed-width idiom not recognised (make([]byte, N) in the float64 arm / constant slice bounds in the parser)")
		return
	}
	for _, c := range cuts {
		if c != width {
			res.Bad("Q2", key, p.Pos(dec.Decl.Pos()), "EntryKeyParse cuts number terms at byte "+strings.TrimSpace(constant.MakeInt64(c).String())+" but GetTermBytes emits "+constant.MakeInt64(width).String()+" bytes: every numeric index entry is parsed into a wrong term and a wrong document id")
			return
		}
	}
	res.OK("Q2", key, p.Pos(dec.Decl.Pos()), "encoder emits and parser cuts "+constant.MakeInt64(width).String()+" bytes")
}

func c09selftest(st *core.Prog, res *core.Result) {
	rel := core.SelfMod + "/chans"
	pk := st.Pkg(rel)
	if pk == nil {
		res.Fail("channel self-test package did not load")
		return
	}
	for _, fi := range st.AllDecls() {
		if fi.Pkg != pk || fi.Decl.Body == nil {
			continue
		}
		name := fi.Obj.Name()
		var want core.Status
		switch {
		case strings.HasPrefix(name, "Ok"):
			want = core.Discharged
		case strings.HasPrefix(name, "Bad"):
			want = core.Violated
		default:
			continue
		}
		tmp := core.NewResult("C09", "self")
		producerRules(st, tmp, fi, "S", "C")
		got := core.Discharged
		for _, o := range tmp.Obls {
			if o.Status == core.Violated {
				got = core.Violated
			}
		}
		if got != want {
			res.Fail("self-test %s: producer rules gave %s, expected %s", name, got, want)
		} else {
			res.OKTrivial("SELF", "selftest|chans."+name, "-", "producer rules give "+string(got)+" as expected")
		}
	}
}
