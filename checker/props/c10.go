package props

import (
	"fmt"
	"go/ast"
	"go/constant"
	"go/token"
	"go/types"
	"sort"
	"strings"

	"gripverif/core"

	"golang.org/x/tools/go/cfg"
	"golang.org/x/tools/go/ssa"
)

func init() {
	Registry["C10"] = c10
	SelfTests["C10"] = c10selftest
}

// ---------------------------------------------------------------------------
// S1: outcome evaluation (A11).  A tiny abstract interpreter over go/ssa with
// the domain {nil, non-nil, true, false, unknown}.  The library lookup call of
// each driver is given its two outcomes (found / absent) from a table; the
// interpreter then computes what HasKey / Get return in each, and records a
// method call on a nil interface value (a certain panic).

type aval int

const (
	avUnknown aval = iota
	avNil
	avNonNil
	avTrue
	avFalse
)

func (a aval) String() string {
	return [...]string{"unknown", "nil", "non-nil", "true", "false"}[a]
}

type lookupSpec struct{ found, absent []aval }

// c10Lookups: the "is it there?" call of each store library and its outcomes.
// Keys are <package name>.<receiver type>.<method>.
var c10Lookups = map[string]lookupSpec{
	"bolt.Bucket.Get":         {[]aval{avNonNil}, []aval{avNil}},
	"badger.Txn.Get":          {[]aval{avNonNil, avNil}, []aval{avNil, avNonNil}},
	"leveldb.DB.Has":          {[]aval{avTrue, avNil}, []aval{avFalse, avNil}},
	"leveldb.Transaction.Has": {[]aval{avTrue, avNil}, []aval{avFalse, avNil}},
	"leveldb.DB.Get":          {[]aval{avNonNil, avNil}, []aval{avNil, avNonNil}},
	"leveldb.Transaction.Get": {[]aval{avNonNil, avNil}, []aval{avNil, avNonNil}},
	"pebble.DB.Get":           {[]aval{avNonNil, avNonNil, avNil}, []aval{avNil, avNil, avNonNil}},
	"pebble.Batch.Get":        {[]aval{avNonNil, avNonNil, avNil}, []aval{avNil, avNil, avNonNil}}, // indexed batch: same contract (Batch.Get → DB.getInternal)
}

// c10Invokers call their function argument synchronously and return its error.
var c10Invokers = map[string]bool{
	"bolt.DB.View": true, "bolt.DB.Update": true, "badger.DB.View": true, "badger.DB.Update": true, "badger.Item.Value": true,
}

type cellKey struct {
	frame int
	v     ssa.Value
}

type closureVal struct {
	fn       *ssa.Function
	bindings []cellKey
	hasCell  []bool
}

type c10frame struct {
	id       int
	fn       *ssa.Function
	env      map[ssa.Value]aval
	tuples   map[ssa.Value][]aval
	closures map[ssa.Value]*closureVal
	free     map[*ssa.FreeVar]cellKey
	args     []aval
}

func (f *c10frame) clone() *c10frame {
	g := *f
	g.env = map[ssa.Value]aval{}
	for k, v := range f.env {
		g.env[k] = v
	}
	g.tuples = map[ssa.Value][]aval{}
	for k, v := range f.tuples {
		g.tuples[k] = v
	}
	g.closures = map[ssa.Value]*closureVal{}
	for k, v := range f.closures {
		g.closures[k] = v
	}
	return &g
}

type c10interp struct {
	p        *core.Prog
	lookups  map[string]lookupSpec
	invokers map[string]bool
	found    bool
	cells    map[cellKey]aval
	panics   []string
	steps    int
	frames   int
	sawLook  bool
}

func calleeKey(fn *ssa.Function) string {
	if fn == nil || fn.Pkg == nil && fn.Object() == nil {
		return ""
	}
	obj, _ := fn.Object().(*types.Func)
	if obj == nil || obj.Pkg() == nil {
		return ""
	}
	key := obj.Pkg().Name() + "."
	if n := core.RecvNamed(obj); n != nil {
		key += n.Obj().Name() + "."
	}
	return key + obj.Name()
}

func zeroOf(t types.Type) aval {
	switch u := t.Underlying().(type) {
	case *types.Pointer, *types.Interface, *types.Slice, *types.Map, *types.Chan, *types.Signature:
		return avNil
	case *types.Basic:
		if u.Kind() == types.Bool {
			return avFalse
		}
	}
	return avUnknown
}

func (in *c10interp) cellOf(fr *c10frame, v ssa.Value) (cellKey, bool) {
	switch x := v.(type) {
	case *ssa.Alloc:
		return cellKey{fr.id, x}, true
	case *ssa.FreeVar:
		k, ok := fr.free[x]
		return k, ok
	}
	return cellKey{}, false
}

func (in *c10interp) val(fr *c10frame, v ssa.Value) aval {
	switch x := v.(type) {
	case *ssa.Const:
		if x.IsNil() {
			return avNil
		}
		if x.Value != nil && x.Value.Kind() == 1 /* constant.Bool */ {
			if x.Value.String() == "true" {
				return avTrue
			}
			return avFalse
		}
		return avUnknown
	case *ssa.Function, *ssa.MakeClosure, *ssa.Alloc, *ssa.Global, *ssa.FreeVar, *ssa.FieldAddr, *ssa.IndexAddr, *ssa.MakeInterface, *ssa.MakeSlice, *ssa.MakeMap, *ssa.MakeChan:
		return avNonNil
	case *ssa.Parameter:
		for i, p := range fr.fn.Params {
			if p == x && i < len(fr.args) {
				return fr.args[i]
			}
		}
		return avUnknown
	}
	return fr.env[v]
}

func joinVal(a, b aval) aval {
	if a == b {
		return a
	}
	return avUnknown
}

func joinRes(a, b []aval) []aval {
	if a == nil {
		return b
	}
	if b == nil {
		return a
	}
	out := make([]aval, len(a))
	for i := range a {
		if i < len(b) {
			out[i] = joinVal(a[i], b[i])
		}
	}
	return out
}

func (in *c10interp) cloneCells() map[cellKey]aval {
	m := map[cellKey]aval{}
	for k, v := range in.cells {
		m[k] = v
	}
	return m
}

// run interprets fn; results nil means every path panicked or was cut off.
func (in *c10interp) run(fn *ssa.Function, args []aval, free map[*ssa.FreeVar]cellKey, depth int) []aval {
	if fn == nil || len(fn.Blocks) == 0 || depth > 5 {
		n := 0
		if fn != nil {
			n = fn.Signature.Results().Len()
		}
		return make([]aval, n)
	}
	in.frames++
	fr := &c10frame{id: in.frames, fn: fn, env: map[ssa.Value]aval{}, tuples: map[ssa.Value][]aval{}, closures: map[ssa.Value]*closureVal{}, free: free, args: args}
	return in.block(fr, fn.Blocks[0], nil, depth)
}

func (in *c10interp) block(fr *c10frame, b, pred *ssa.BasicBlock, depth int) []aval {
	nres := fr.fn.Signature.Results().Len()
	for {
		var next *ssa.BasicBlock
		for _, ins := range b.Instrs {
			in.steps++
			if in.steps > 20000 {
				return make([]aval, nres)
			}
			switch x := ins.(type) {
			case *ssa.Phi:
				for i, pb := range b.Preds {
					if pb == pred {
						fr.env[x] = in.val(fr, x.Edges[i])
					}
				}
			case *ssa.Alloc:
				if pt, ok := x.Type().Underlying().(*types.Pointer); ok {
					in.cells[cellKey{fr.id, x}] = zeroOf(pt.Elem())
				}
			case *ssa.Store:
				if ck, ok := in.cellOf(fr, x.Addr); ok {
					in.cells[ck] = in.val(fr, x.Val)
				}
			case *ssa.UnOp:
				switch x.Op {
				case token.MUL:
					if ck, ok := in.cellOf(fr, x.X); ok {
						fr.env[x] = in.cells[ck]
					}
				case token.NOT:
					switch in.val(fr, x.X) {
					case avTrue:
						fr.env[x] = avFalse
					case avFalse:
						fr.env[x] = avTrue
					}
				}
			case *ssa.BinOp:
				if x.Op == token.EQL || x.Op == token.NEQ {
					a, c := in.val(fr, x.X), in.val(fr, x.Y)
					r := avUnknown
					switch {
					case a == avUnknown || c == avUnknown:
					case (a == avNil || a == avNonNil) && (c == avNil || c == avNonNil):
						if a == avNil && c == avNil {
							r = avTrue
						} else if a != c {
							r = avFalse
						}
					case (a == avTrue || a == avFalse) && (c == avTrue || c == avFalse):
						if a == c {
							r = avTrue
						} else {
							r = avFalse
						}
					}
					if x.Op == token.NEQ {
						switch r {
						case avTrue:
							r = avFalse
						case avFalse:
							r = avTrue
						}
					}
					fr.env[x] = r
				}
			case *ssa.ChangeInterface:
				fr.env[x] = in.val(fr, x.X)
			case *ssa.ChangeType:
				fr.env[x] = in.val(fr, x.X)
			case *ssa.Convert:
				fr.env[x] = in.val(fr, x.X)
			case *ssa.Extract:
				if t, ok := fr.tuples[x.Tuple]; ok && x.Index < len(t) {
					fr.env[x] = t[x.Index]
				}
			case *ssa.MakeClosure:
				cv := &closureVal{fn: x.Fn.(*ssa.Function)}
				for _, bnd := range x.Bindings {
					ck, ok := in.cellOf(fr, bnd)
					cv.bindings = append(cv.bindings, ck)
					cv.hasCell = append(cv.hasCell, ok)
				}
				fr.closures[x] = cv
			case *ssa.Call:
				in.call(fr, x, x.Common(), depth)
			case *ssa.Defer:
				cc := x.Common()
				if cc.IsInvoke() && in.val(fr, cc.Value) == avNil {
					in.panics = append(in.panics, fmt.Sprintf("%s: deferred method %s called on a nil interface value", in.p.Pos(x.Pos()), cc.Method.Name()))
				}
			case *ssa.Panic:
				return nil
			case *ssa.Return:
				out := make([]aval, len(x.Results))
				for i, r := range x.Results {
					out[i] = in.val(fr, r)
				}
				return out
			case *ssa.Jump:
				next = b.Succs[0]
			case *ssa.If:
				switch in.val(fr, x.Cond) {
				case avTrue:
					next = b.Succs[0]
				case avFalse:
					next = b.Succs[1]
				default:
					saved := in.cloneCells()
					fr2 := fr.clone()
					r1 := in.block(fr, b.Succs[0], b, depth)
					c1 := in.cells
					in.cells = saved
					r2 := in.block(fr2, b.Succs[1], b, depth)
					// join the memories
					for k, v := range c1 {
						if w, ok := in.cells[k]; !ok || w != v {
							in.cells[k] = avUnknown
						}
					}
					for k := range in.cells {
						if _, ok := c1[k]; !ok {
							in.cells[k] = avUnknown
						}
					}
					return joinRes(r1, r2)
				}
			}
		}
		if next == nil {
			return make([]aval, nres)
		}
		pred, b = b, next
	}
}

func (in *c10interp) setResult(fr *c10frame, call *ssa.Call, res []aval) {
	n := call.Common().Signature().Results().Len()
	switch {
	case n == 1 && len(res) >= 1:
		fr.env[call] = res[0]
	case n > 1 && len(res) == n:
		fr.tuples[call] = res
	}
}

func (in *c10interp) call(fr *c10frame, call *ssa.Call, cc *ssa.CallCommon, depth int) {
	if cc.IsInvoke() {
		if in.val(fr, cc.Value) == avNil {
			in.panics = append(in.panics, fmt.Sprintf("%s: method %s called on a nil interface value", in.p.Pos(call.Pos()), cc.Method.Name()))
		}
		key := ""
		if cc.Method.Pkg() != nil {
			key = cc.Method.Pkg().Name() + "."
			if n := core.RecvNamed(cc.Method); n != nil {
				key += n.Obj().Name() + "."
			}
			key += cc.Method.Name()
		}
		if spec, ok := in.lookups[key]; ok {
			in.sawLook = true
			if in.found {
				in.setResult(fr, call, spec.found)
			} else {
				in.setResult(fr, call, spec.absent)
			}
		}
		return
	}
	sc := cc.StaticCallee()
	if sc == nil {
		return
	}
	key := calleeKey(sc)
	if spec, ok := in.lookups[key]; ok {
		in.sawLook = true
		if in.found {
			in.setResult(fr, call, spec.found)
		} else {
			in.setResult(fr, call, spec.absent)
		}
		return
	}
	if in.invokers[key] {
		for _, a := range cc.Args {
			var cv *closureVal
			if c, ok := fr.closures[a]; ok {
				cv = c
			} else if f, ok := a.(*ssa.Function); ok {
				cv = &closureVal{fn: f}
			}
			if cv == nil {
				continue
			}
			free := map[*ssa.FreeVar]cellKey{}
			for i, fv := range cv.fn.FreeVars {
				if i < len(cv.bindings) && cv.hasCell[i] {
					free[fv] = cv.bindings[i]
				}
			}
			args := make([]aval, len(cv.fn.Params))
			for i := range args {
				args[i] = avNonNil
			}
			res := in.run(cv.fn, args, free, depth+1)
			if len(res) > 0 {
				in.setResult(fr, call, []aval{res[len(res)-1]})
			}
			return
		}
		return
	}
	if obj, _ := sc.Object().(*types.Func); obj != nil && obj.Pkg() != nil {
		switch obj.Pkg().Path() + "." + obj.Name() {
		case "fmt.Errorf", "errors.New":
			fr.env[call] = avNonNil
			return
		}
	}
	if sc.Object() != nil && (core.InRepo(sc.Object()) || strings.HasPrefix(sc.Object().Pkg().Path(), core.SelfMod)) && len(sc.Blocks) > 0 {
		args := make([]aval, len(cc.Args))
		for i, a := range cc.Args {
			args[i] = in.val(fr, a)
		}
		in.setResult(fr, call, in.run(sc, args, nil, depth+1))
	}
}

// outcome interprets fn in one scenario.
func c10outcome(p *core.Prog, fn *ssa.Function, lookups map[string]lookupSpec, invokers map[string]bool, found bool) (res []aval, panics []string, sawLookup bool) {
	in := &c10interp{p: p, lookups: lookups, invokers: invokers, found: found, cells: map[cellKey]aval{}}
	args := make([]aval, len(fn.Params))
	for i := range args {
		args[i] = avNonNil
	}
	res = in.run(fn, args, nil, 0)
	return res, in.panics, in.sawLook
}

// c10existence checks HasKey and Get of one type.
func c10existence(p *core.Prog, res *core.Result, rule string, named *types.Named, lookups map[string]lookupSpec, invokers map[string]bool) int {
	n := 0
	for _, mname := range []string{"HasKey", "Get"} {
		fi := p.Method(named, mname)
		if fi == nil || fi.Decl.Body == nil {
			continue
		}
		sf := p.SSAFunc(fi.Obj)
		if sf == nil {
			res.Unres(rule, core.FuncKey(fi.Obj), p.Pos(fi.Decl.Pos()), "no SSA form")
			continue
		}
		n++
		key := core.FuncKey(fi.Obj)
		res.Fn(key)
		rf, pf, saw1 := c10outcome(p, sf, lookups, invokers, true)
		ra, pa, saw2 := c10outcome(p, sf, lookups, invokers, false)
		pos := p.Pos(fi.Decl.Pos())
		if !saw1 || !saw2 {
			res.Unres(rule, key, pos, "the store library's lookup call was not recognised (table c10Lookups)")
			continue
		}
		var problems []string
		for _, s := range pf {
			problems = append(problems, "when the key exists: "+s+" (panic)")
		}
		for _, s := range pa {
			problems = append(problems, "when the key is absent: "+s+" (panic)")
		}
		last := func(r []aval) aval {
			if len(r) == 0 {
				return avUnknown
			}
			return r[len(r)-1]
		}
		undecided := false
		if mname == "HasKey" {
			f, a := last(rf), last(ra)
			switch {
			case f == avFalse || a == avTrue:
				problems = append(problems, fmt.Sprintf("returns %v when the key exists and %v when it is absent (expected true / false)", f, a))
			case f != avTrue || a != avFalse:
				if len(problems) == 0 {
					undecided = true
				}
			}
		} else {
			f, a := last(rf), last(ra)
			switch {
			case f == avNonNil:
				problems = append(problems, "returns a non-nil error although the key exists")
			case a == avNil:
				problems = append(problems, "returns a nil error although the key is absent (the sibling drivers report an error)")
			case f != avNil || a != avNonNil:
				if len(problems) == 0 {
					undecided = true
				}
			}
		}
		switch {
		case len(problems) > 0:
			res.Bad(rule, key, pos, key+": "+strings.Join(problems, "; "))
		case undecided:
			res.Unres(rule, key, pos, fmt.Sprintf("outcome not determined by the abstract evaluation (found→%v, absent→%v)", rf, ra))
		default:
			res.OK(rule, key, pos, fmt.Sprintf("found→%v, absent→%v, no nil interface call on either outcome", last(rf), last(ra)))
		}
	}
	return n
}

// ---------------------------------------------------------------------------
// S2: validity state assigned on every path of the positioning methods.

func recvObj(fi *core.FuncInfo) types.Object {
	if fi.Decl.Recv != nil && len(fi.Decl.Recv.List) > 0 && len(fi.Decl.Recv.List[0].Names) > 0 {
		return fi.Pkg.TypesInfo.Defs[fi.Decl.Recv.List[0].Names[0]]
	}
	return nil
}

func c10validity(p *core.Prog, res *core.Result, rule string, named *types.Named) int {
	tkey := core.TypeKey(named)
	vf := p.Method(named, "Valid")
	if vf == nil || vf.Decl.Body == nil {
		res.Unres(rule, tkey+".Valid", "-", "Valid method not found")
		return 0
	}
	info := vf.Pkg.TypesInfo
	recv := recvObj(vf)
	fields := map[string]bool{}
	delegates := false
	ast.Inspect(vf.Decl.Body, func(n ast.Node) bool {
		switch x := n.(type) {
		case *ast.CallExpr:
			if sel, ok := x.Fun.(*ast.SelectorExpr); ok {
				if inner, ok := ast.Unparen(sel.X).(*ast.SelectorExpr); ok {
					if id, ok := ast.Unparen(inner.X).(*ast.Ident); ok && recv != nil && info.Uses[id] == recv {
						delegates = true
					}
				}
			}
		case *ast.SelectorExpr:
			if id, ok := ast.Unparen(x.X).(*ast.Ident); ok && recv != nil && info.Uses[id] == recv {
				if s := info.Selections[x]; s != nil && s.Kind() == types.FieldVal {
					fields[x.Sel.Name] = true
				}
			}
		}
		return true
	})
	res.Fn(core.FuncKey(vf.Obj))
	if delegates {
		res.OKTrivial(rule, tkey+".Valid", p.Pos(vf.Decl.Pos()), "Valid() asks the library iterator: there is no cached validity state to keep in step")
		return 1
	}
	var V []string
	for f := range fields {
		V = append(V, f)
	}
	sort.Strings(V)
	if len(V) == 0 {
		res.Unres(rule, tkey+".Valid", p.Pos(vf.Decl.Pos()), "Valid() reads no receiver field and does not delegate")
		return 0
	}
	n := 0
	// flowOf builds the must-assign flow of one method; calls of sibling methods on the
	// receiver count for the fields those assign on all of their exits
	var mustSet func(fi *core.FuncInfo, depth int) map[string]bool
	var flowOf func(fi *core.FuncInfo, depth int) *core.Flow
	flowOf = func(fi *core.FuncInfo, depth int) *core.Flow {
		minfo := fi.Pkg.TypesInfo
		mrecv := recvObj(fi)
		isRecv := func(e ast.Expr) bool {
			id, ok := ast.Unparen(e).(*ast.Ident)
			return ok && mrecv != nil && minfo.Uses[id] == mrecv
		}
		fl := &core.Flow{Prog: p, Info: minfo, Body: fi.Decl.Body}
		fl.Events = func(nd ast.Node, st *core.State) ([]string, bool) {
			var ev []string
			if as, ok := nd.(*ast.AssignStmt); ok {
				for _, l := range as.Lhs {
					if sel, ok := ast.Unparen(l).(*ast.SelectorExpr); ok && isRecv(sel.X) {
						ev = append(ev, "set:"+sel.Sel.Name)
					}
				}
			}
			if _, ok := nd.(*ast.DeferStmt); !ok && depth < 3 {
				for _, c := range core.CallsIn(nd) {
					if sel, ok := c.Fun.(*ast.SelectorExpr); ok && isRecv(sel.X) {
						if callee := p.Method(named, sel.Sel.Name); callee != nil && callee.Decl.Body != nil && callee != fi {
							for f := range mustSet(callee, depth+1) {
								ev = append(ev, "set:"+f)
							}
						}
					}
				}
			}
			return ev, false
		}
		fl.Run()
		return fl
	}
	mustSet = func(fi *core.FuncInfo, depth int) map[string]bool {
		fl := flowOf(fi, depth)
		var out map[string]bool
		fl.ExitStates(func(ret *ast.ReturnStmt, st *core.State, b *cfg.Block) {
			cur := map[string]bool{}
			if ret != nil { // calls inside the return statement itself
				evs, _ := fl.Events(ret, st)
				for _, e := range evs {
					cur[strings.TrimPrefix(e, "set:")] = true
				}
			}
			for h := range st.Held {
				if strings.HasPrefix(h, "set:") {
					cur[strings.TrimPrefix(h, "set:")] = true
				}
			}
			if out == nil {
				out = cur
				return
			}
			for f := range out {
				if !cur[f] {
					delete(out, f)
				}
			}
		})
		return out
	}
	for _, mname := range []string{"Seek", "SeekReverse", "Next"} {
		fi := p.Method(named, mname)
		if fi == nil || fi.Decl.Body == nil {
			continue
		}
		n++
		key := core.FuncKey(fi.Obj)
		res.Fn(key)
		fl := flowOf(fi, 0)
		var bad []string
		var trace []string
		fl.ExitStates(func(ret *ast.ReturnStmt, st *core.State, b *cfg.Block) {
			inRet := map[string]bool{}
			if ret != nil {
				evs, _ := fl.Events(ret, st)
				for _, e := range evs {
					inRet[e] = true
				}
			}
			for _, f := range V {
				if !st.Held["set:"+f] && !inRet["set:"+f] {
					pos := fi.Decl.End()
					if ret != nil {
						pos = ret.Pos()
					}
					bad = append(bad, fmt.Sprintf("the return at %s leaves %s as the previous call set it", p.Pos(pos), f))
					if trace == nil {
						trace = fl.TraceTo(b)
					}
				}
			}
		})
		if len(bad) > 0 {
			sort.Strings(bad)
			res.Bad(rule, key, p.Pos(fi.Decl.Pos()), fmt.Sprintf("%s: Valid() reads the cached field(s) %s, but %s; after a successful positioning call followed by a failed one Valid() stays true and Key() returns the old key (the sibling drivers report invalid)", key, strings.Join(V, ", "), strings.Join(bad, "; ")), trace...)
		} else {
			res.OK(rule, key, p.Pos(fi.Decl.Pos()), "assigns "+strings.Join(V, ", ")+" on every path to return")
		}
	}
	return n
}

// ---------------------------------------------------------------------------
// S3: no commit after a failed callback; S3b: transactional writes do not go
// straight to the store handle.

func isLibraryMethodCall(info *types.Info, c *ast.CallExpr, names ...string) (recvT types.Type, ok bool) {
	sel, isSel := c.Fun.(*ast.SelectorExpr)
	if !isSel {
		return nil, false
	}
	match := false
	for _, n := range names {
		if sel.Sel.Name == n {
			match = true
		}
	}
	if !match {
		return nil, false
	}
	fn, _ := info.Uses[sel.Sel].(*types.Func)
	if fn == nil || fn.Pkg() == nil || core.InRepo(fn) || strings.HasPrefix(fn.Pkg().Path(), core.SelfMod) && !strings.Contains(fn.Pkg().Path(), "/lib") {
		return nil, false
	}
	return info.TypeOf(sel.X), true
}

func c10commit(p *core.Prog, res *core.Result, rule string, fi *core.FuncInfo) {
	info := fi.Pkg.TypesInfo
	key := core.FuncKey(fi.Obj)
	res.Fn(key)
	sig := fi.Obj.Type().(*types.Signature)
	var cb types.Object
	for i := 0; i < sig.Params().Len(); i++ {
		if _, ok := sig.Params().At(i).Type().Underlying().(*types.Signature); ok {
			cb = sig.Params().At(i)
		}
	}
	if cb == nil {
		res.Unres(rule, key, p.Pos(fi.Decl.Pos()), "no callback parameter")
		return
	}
	isCB := func(c *ast.CallExpr) bool {
		id, ok := ast.Unparen(c.Fun).(*ast.Ident)
		return ok && info.Uses[id] == cb
	}
	// where is the callback called: directly in the body, or inside a function literal handed to the library
	cbInLit, cbDirect := false, false
	var walk func(n ast.Node, inLit bool)
	walk = func(n ast.Node, inLit bool) {
		ast.Inspect(n, func(x ast.Node) bool {
			switch y := x.(type) {
			case *ast.FuncLit:
				walk(y.Body, true)
				return false
			case *ast.CallExpr:
				if isCB(y) {
					if inLit {
						cbInLit = true
					} else {
						cbDirect = true
					}
				}
			}
			return true
		})
	}
	walk(fi.Decl.Body, false)
	// the library wrapper the callback literal is handed to
	wrapper, wrapperPos := "", token.NoPos
	ast.Inspect(fi.Decl.Body, func(x ast.Node) bool {
		c, ok := x.(*ast.CallExpr)
		if !ok {
			return true
		}
		for _, a := range c.Args {
			l, ok := ast.Unparen(a).(*ast.FuncLit)
			if !ok {
				continue
			}
			has := false
			ast.Inspect(l.Body, func(y ast.Node) bool {
				if cc, ok := y.(*ast.CallExpr); ok && isCB(cc) {
					has = true
				}
				return true
			})
			if !has {
				continue
			}
			if fn := core.CalleeFunc(info, c); fn != nil && fn.Pkg() != nil {
				wrapper = fn.Pkg().Name() + "."
				if n := core.RecvNamed(fn); n != nil {
					wrapper += n.Obj().Name() + "."
				}
				wrapper += fn.Name()
				wrapperPos = c.Pos()
			}
		}
		return true
	})
	commitNames := []string{"Commit", "Flush"}
	var problems []string
	commits := 0
	fl := &core.Flow{Prog: p, Info: info, Body: fi.Decl.Body}
	fl.Events = func(n ast.Node, st *core.State) ([]string, bool) {
		if as, ok := n.(*ast.AssignStmt); ok && len(as.Rhs) == 1 {
			if c, ok := ast.Unparen(as.Rhs[0]).(*ast.CallExpr); ok && isCB(c) {
				return []string{"cbok"}, true
			}
		}
		return nil, false
	}
	fl.Run()
	fl.Walk(func(n ast.Node, st *core.State, b *cfg.Block) {
		if d, ok := n.(*ast.DeferStmt); ok {
			found := false
			ast.Inspect(d.Call, func(x ast.Node) bool {
				if c, ok := x.(*ast.CallExpr); ok {
					if _, ok := isLibraryMethodCall(info, c, commitNames...); ok {
						found = true
					}
				}
				return true
			})
			if found {
				commits++
				problems = append(problems, fmt.Sprintf("the commit at %s is deferred: it also runs when the callback returned an error", p.Pos(d.Pos())))
			}
			return
		}
		for _, c := range core.CallsIn(n) {
			if _, ok := isLibraryMethodCall(info, c, commitNames...); ok {
				commits++
				if !st.Held["cbok"] {
					problems = append(problems, fmt.Sprintf("the commit at %s is reached also when the callback returned an error", p.Pos(c.Pos())))
				}
			}
		}
	})
	switch {
	case len(problems) > 0:
		sort.Strings(problems)
		res.Bad(rule, key, p.Pos(fi.Decl.Pos()), fmt.Sprintf("%s: %s — the writes of a failed %s stay in the store, whereas badger and bolt discard them", key, strings.Join(problems, "; "), fi.Obj.Name()))
	case commits > 0:
		res.OK(rule, key, p.Pos(fi.Decl.Pos()), fmt.Sprintf("%d commit call(s), each only on the path where the callback returned nil", commits))
	case cbInLit && !cbDirect && c10RunOnce[wrapper]:
		res.OK(rule, key, p.Pos(fi.Decl.Pos()), "the callback runs inside "+wrapper+", which runs it once and commits only on a nil return (trusted, table c10RunOnce)")
	case cbInLit && !cbDirect && c10NotRunOnce[wrapper] != "":
		res.Bad(rule, key, p.Pos(wrapperPos), fmt.Sprintf("%s hands the callback to %s: %s — the other drivers run an Update/BulkWrite callback exactly once and keep or discard exactly its writes", key, wrapper, c10NotRunOnce[wrapper]))
	case cbInLit && !cbDirect:
		res.Unres(rule, key, p.Pos(wrapperPos), "the callback runs inside the library wrapper "+wrapper+", which is not in the table of wrappers confirmed to run it once and roll back on error (c10RunOnce)")
	default:
		res.OKTrivial(rule, key, p.Pos(fi.Decl.Pos()), "no commit call: see S3b for where the writes of this transaction type go")
	}
}

// c10RunOnce: library transaction wrappers confirmed (documentation and source)
// to run their function once, commit on nil and roll back on error.
var c10RunOnce = map[string]bool{"bolt.DB.Update": true, "badger.DB.Update": true, "lib.Lib.Update": true}

// c10NotRunOnce: wrappers known not to have that contract.
var c10NotRunOnce = map[string]string{
	"bolt.DB.Batch": "bolt's Batch may run the function several times (it re-runs the functions of a shared batch when one of them fails) and shares one transaction with concurrent callers",
	"bolt.DB.View":  "a read-only transaction: writes fail", "badger.DB.View": "a read-only transaction: writes fail",
}

// c10handle: the library object a store wraps = the receiver of Close() in its Close method.
func c10handle(p *core.Prog, store *types.Named) types.Type {
	fi := p.Method(store, "Close")
	if fi == nil || fi.Decl.Body == nil {
		return nil
	}
	info := fi.Pkg.TypesInfo
	var t types.Type
	ast.Inspect(fi.Decl.Body, func(n ast.Node) bool {
		if c, ok := n.(*ast.CallExpr); ok {
			if rt, ok := isLibraryMethodCall(info, c, "Close"); ok {
				t = rt
			}
		}
		return true
	})
	return t
}

func c10txwrites(p *core.Prog, res *core.Result, rule string, tx *types.Named, handle types.Type) int {
	n := 0
	for _, mname := range []string{"Set", "Delete"} {
		fi := p.Method(tx, mname)
		if fi == nil || fi.Decl.Body == nil {
			continue
		}
		info := fi.Pkg.TypesInfo
		key := core.FuncKey(fi.Obj)
		res.Fn(key)
		var direct *ast.CallExpr
		writes := 0
		ast.Inspect(fi.Decl.Body, func(x ast.Node) bool {
			if c, ok := x.(*ast.CallExpr); ok {
				if rt, ok := isLibraryMethodCall(info, c, "Set", "Put", "Delete"); ok {
					writes++
					if handle != nil && types.Identical(rt, handle) {
						direct = c
					}
				}
			}
			return true
		})
		n++
		switch {
		case direct != nil:
			res.Bad(rule, key, p.Pos(direct.Pos()), fmt.Sprintf("%s writes straight to the store handle (%s): the transaction object handed to Update callbacks has no transaction behind it, so the writes of a callback that then fails are not rolled back (badger and bolt roll back)", key, types.TypeString(handle, func(pk *types.Package) string { return pk.Name() })))
		case writes == 0:
			res.Unres(rule, key, p.Pos(fi.Decl.Pos()), "no library write call recognised")
		default:
			res.OK(rule, key, p.Pos(fi.Decl.Pos()), "writes go to a transaction/batch object, not to the store handle")
		}
	}
	return n
}

// ---------------------------------------------------------------------------
// S4: a library iterator is positioned before it is asked anything.

var c10iterCtors = map[string]bool{"NewIter": true, "NewIterator": true, "Cursor": true}
var c10positioning = map[string]bool{"Seek": true, "SeekGE": true, "SeekLT": true, "SeekPrefixGE": true, "First": true, "Last": true, "Rewind": true}
var c10iterUses = map[string]bool{"Valid": true, "Key": true, "Value": true, "Item": true}

func c10positioned(p *core.Prog, res *core.Result, rule string, fi *core.FuncInfo) int {
	info := fi.Pkg.TypesInfo
	fkey := core.FuncKey(fi.Obj)
	n := 0
	var bodies []*ast.BlockStmt
	bodies = append(bodies, fi.Decl.Body)
	ast.Inspect(fi.Decl.Body, func(x ast.Node) bool {
		if l, ok := x.(*ast.FuncLit); ok {
			bodies = append(bodies, l.Body)
		}
		return true
	})
	for _, body := range bodies {
		// iterator locals of this body
		iters := map[types.Object]token.Pos{}
		ast.Inspect(body, func(x ast.Node) bool {
			if l, ok := x.(*ast.FuncLit); ok && l.Body != body {
				return false
			}
			as, ok := x.(*ast.AssignStmt)
			if !ok || len(as.Lhs) != len(as.Rhs) {
				return true
			}
			for i, r := range as.Rhs {
				c, ok := ast.Unparen(r).(*ast.CallExpr)
				if !ok {
					continue
				}
				names := []string{}
				for k := range c10iterCtors {
					names = append(names, k)
				}
				if _, ok := isLibraryMethodCall(info, c, names...); ok {
					if o := defOrUse(info, as.Lhs[i]); o != nil {
						iters[o] = as.Pos()
					}
				}
			}
			return true
		})
		if len(iters) == 0 {
			continue
		}
		fl := &core.Flow{Prog: p, Info: info, Body: body}
		fl.Events = func(nd ast.Node, st *core.State) ([]string, bool) {
			var ev []string
			if as, ok := nd.(*ast.AssignStmt); ok {
				for _, l := range as.Lhs {
					if o := defOrUse(info, l); o != nil {
						if _, ok := iters[o]; ok {
							ev = append(ev, "-pos:"+o.Name())
						}
					}
				}
			}
			for _, c := range core.CallsIn(nd) {
				if sel, ok := c.Fun.(*ast.SelectorExpr); ok && c10positioning[sel.Sel.Name] {
					if o := defOrUse(info, sel.X); o != nil {
						if _, ok := iters[o]; ok {
							ev = append(ev, "pos:"+o.Name())
						}
					}
				}
			}
			return ev, false
		}
		fl.Run()
		bad := map[types.Object]string{}
		fl.Walk(func(nd ast.Node, st *core.State, b *cfg.Block) {
			ast.Inspect(nd, func(x ast.Node) bool {
				if _, ok := x.(*ast.FuncLit); ok {
					return false
				}
				c, ok := x.(*ast.CallExpr)
				if !ok {
					return true
				}
				sel, ok := c.Fun.(*ast.SelectorExpr)
				if !ok || !c10iterUses[sel.Sel.Name] {
					return true
				}
				o := defOrUse(info, sel.X)
				if _, isIt := iters[o]; !isIt {
					return true
				}
				if !st.Held["pos:"+o.Name()] && bad[o] == "" {
					bad[o] = fmt.Sprintf("%s() at %s", sel.Sel.Name, p.Pos(c.Pos()))
				}
				return true
			})
		})
		var objs []types.Object
		for o := range iters {
			objs = append(objs, o)
		}
		sort.Slice(objs, func(i, j int) bool { return objs[i].Pos() < objs[j].Pos() })
		for _, o := range objs {
			n++
			res.Fn(fkey)
			key := fmt.Sprintf("%s|%s", fkey, o.Name())
			if why := bad[o]; why != "" {
				res.Bad(rule, key, p.Pos(iters[o]), fmt.Sprintf("%s: the library iterator %s is asked %s before any positioning call (Seek/SeekGE/First/…) on some path: a fresh iterator is unpositioned and reports invalid, so the loop that follows never runs (a prefix delete that deletes nothing)", fkey, o.Name(), why))
			} else {
				res.OK(rule, key, p.Pos(iters[o]), "positioned before Valid/Key/Value/Item on every path")
			}
		}
	}
	return n
}

// ---------------------------------------------------------------------------

func c10(p *core.Prog, res *core.Result) {
	res.Explanation = "C10 (sibling agreement over the badger, bolt, level and pebble adapters): S1 existence outcomes — an abstract evaluation over go/ssa (domain nil/non-nil/true/false) of every HasKey and Get, with the library lookup call given its 'found' and 'absent' outcomes from a table: HasKey returns true/false accordingly, Get returns a nil/non-nil error accordingly, and no method is called on a nil interface value in either outcome; " +
		"S2 validity state — where Valid() reads cached receiver fields, each of Seek, SeekReverse and Next assigns all of them on every path to return (an iterator whose Valid() asks the library is exempt); " +
		"S3 no commit after a failed callback — in Update/BulkWrite every library Commit/Flush is reached only where the callback returned nil and is never deferred unconditionally; S3b the Set/Delete of every transaction type write to a transaction or batch object, not to the store handle; " +
		"S6 a block-wise DeletePrefix repeats whenever a pass collected its maximum number of keys (continuation evaluated at the block bound); S7 Seek/SeekReverse hand the caller's key itself to the library positioning call; S4 every library iterator local is positioned before Valid/Key/Value/Item; S5 every driver name the server's StartDriver asks for is registered by a package the server imports."
	res.NotDecided = []string{"key order and the landing position of forward/reverse seeks", "completeness of prefix deletes beyond 'the loop can run'", "cross-driver equality of traversal results", "behaviour of the store libraries themselves"}
	res.Assumptions = []string{"outcome tables of the store libraries' lookup calls (props/c10.go c10Lookups), confirmed from the libraries' documentation", "bolt DB.Update/View, badger DB.Update/View roll back when the callback returns an error"}
	res.Rule("S1", "HasKey/Get outcomes agree with the library's found/absent outcome; no nil interface call", 20)
	res.Rule("S2", "cached validity state is assigned on every path of Seek/SeekReverse/Next", 10)
	res.Rule("S3", "no commit after a failed callback", 8)
	res.Rule("S3b", "transaction writes do not go straight to the store handle", 8)
	res.Rule("S4", "library iterators are positioned before use", 5)
	res.Rule("S5", "driver names selected by the server are registered and linked", 4)
	res.Rule("S8", "a byte slice handed out by a library iterator/cursor/item is copied before an adapter keeps it in a field or a collected slice", 8)

	kvIface := p.Iface("kvi", "KVInterface")
	txIface := p.Iface("kvi", "KVTransaction")
	bwIface := p.Iface("kvi", "KVBulkWrite")
	itIface := p.Iface("kvi", "KVIterator")
	if kvIface == nil || txIface == nil || bwIface == nil || itIface == nil {
		res.Fail("kvi interfaces not found")
		return
	}
	inKvi := func(n *types.Named) bool {
		return strings.HasPrefix(core.RelPkg(n.Obj().Pkg().Path()), "kvi/")
	}
	stores := []*types.Named{}
	for _, n := range p.Implementers(kvIface) {
		if inKvi(n) {
			stores = append(stores, n)
		}
	}
	if len(stores) < 4 {
		res.Fail("only %d KVInterface implementers found under kvi/", len(stores))
	}
	handles := map[*types.Package]types.Type{}
	seen := map[*types.Named]bool{}
	for _, st := range stores {
		c10existence(p, res, "S1", st, c10Lookups, c10Invokers)
		seen[st] = true
		for _, m := range []string{"Update", "BulkWrite"} {
			if fi := p.Method(st, m); fi != nil && fi.Decl.Body != nil {
				c10commit(p, res, "S3", fi)
			}
		}
		handles[st.Obj().Pkg()] = c10handle(p, st)
		if handles[st.Obj().Pkg()] == nil {
			res.Unres("S3b", core.TypeKey(st)+"|handle", "-", "store handle (receiver of the library Close call) not found")
		}
	}
	for _, n := range p.Implementers(txIface) {
		if inKvi(n) && !seen[n] {
			seen[n] = true
			c10existence(p, res, "S1", n, c10Lookups, c10Invokers)
		}
	}
	for _, n := range p.Implementers(itIface) {
		if !inKvi(n) {
			continue
		}
		if !seen[n] {
			seen[n] = true
			c10existence(p, res, "S1", n, c10Lookups, c10Invokers)
		}
		c10validity(p, res, "S2", n)
	}
	for _, n := range p.Implementers(bwIface) {
		if inKvi(n) && !types.Implements(n, kvIface) && !types.Implements(types.NewPointer(n), kvIface) {
			c10txwrites(p, res, "S3b", n, handles[n.Obj().Pkg()])
		}
	}
	for _, fi := range p.AllDecls() {
		if fi.Decl.Body == nil || !strings.HasPrefix(core.RelPkg(fi.Pkg.PkgPath), "kvi/") || strings.HasSuffix(p.Fset.Position(fi.Decl.Pos()).Filename, "_test.go") {
			continue
		}
		c10positioned(p, res, "S4", fi)
		c10retain(p, res, fi, "S8", realLib)
	}
	c10registration(p, res, "S5")
	res.Rule("S6", "block-wise prefix deletes repeat whenever a block came back full", 3)
	res.Rule("S7", "positioning methods hand the caller's key to the library unchanged (sibling agreement)", 8)
	for _, st := range stores {
		if fi := p.Method(st, "DeletePrefix"); fi != nil && fi.Decl.Body != nil {
			c10blockLoop(p, res, fi, "S6")
		}
	}
	for _, n := range p.Implementers(itIface) {
		if !inKvi(n) {
			continue
		}
		for _, m := range []string{"Seek", "SeekReverse"} {
			if fi := p.Method(n, m); fi != nil && fi.Decl.Body != nil {
				c10seekArg(p, res, fi, "S7")
			}
		}
	}
}

// c10blockLoop (S6): `for flag := true; flag; { … collect while len(wb) < K … delete … }`.
// The pass collects at most K keys; when it collected K there may be more, so
// the continuation flag must be true for len(wb) == K.  The flag is either set
// to true per deleted key (true iff len(wb) >= 1) or assigned an expression
// over len(wb), which is evaluated at len(wb) = K.
func c10blockLoop(p *core.Prog, res *core.Result, fi *core.FuncInfo, rule string) {
	info := fi.Pkg.TypesInfo
	fkey := core.FuncKey(fi.Obj)
	var outer *ast.ForStmt
	ast.Inspect(fi.Decl.Body, func(n ast.Node) bool {
		if fs, ok := n.(*ast.ForStmt); ok && outer == nil {
			if _, isId := ast.Unparen(fs.Cond).(*ast.Ident); isId && fs.Cond != nil {
				outer = fs
			}
		}
		return true
	})
	if outer == nil {
		res.OKTrivial(rule, fkey+"|block loop", p.Pos(fi.Decl.Pos()), "no block-wise loop: the prefix is deleted in one pass")
		return
	}
	res.Fn(fkey)
	flag := info.Uses[ast.Unparen(outer.Cond).(*ast.Ident)]
	key := fkey + "|block loop"
	// collection loop: a for statement whose condition contains len(X) < K
	var wb types.Object
	var bound ast.Expr
	ast.Inspect(outer.Body, func(n ast.Node) bool {
		fs, ok := n.(*ast.ForStmt)
		if !ok || fs.Cond == nil || bound != nil {
			return true
		}
		ast.Inspect(fs.Cond, func(y ast.Node) bool {
			be, ok := y.(*ast.BinaryExpr)
			if !ok || be.Op != token.LSS {
				return true
			}
			if c, ok := ast.Unparen(be.X).(*ast.CallExpr); ok && isBuiltin2(info, c, "len") && len(c.Args) == 1 {
				if o := defOrUse(info, c.Args[0]); o != nil {
					wb, bound = o, be.Y
				}
			}
			return true
		})
		return true
	})
	if wb == nil {
		res.Unres(rule, key, p.Pos(outer.Pos()), "collection loop with a `len(block) < K` bound not found")
		return
	}
	// constants of the function (deleteBlockSize := 10000)
	consts := map[types.Object]float64{}
	ast.Inspect(fi.Decl.Body, func(n ast.Node) bool {
		if as, ok := n.(*ast.AssignStmt); ok && as.Tok == token.DEFINE && len(as.Lhs) == 1 && len(as.Rhs) == 1 {
			if tv, ok := info.Types[as.Rhs[0]]; ok && tv.Value != nil {
				if f, ok := constant.Float64Val(constant.ToFloat(tv.Value)); ok || tv.Value.Kind() == constant.Int {
					if o := defOrUse(info, as.Lhs[0]); o != nil {
						consts[o] = f
					}
				}
			}
		}
		return true
	})
	env := ordEnv{}
	alias := func(e ast.Expr) string {
		e = ast.Unparen(e)
		if c, ok := e.(*ast.CallExpr); ok && isBuiltin2(info, c, "len") && len(c.Args) == 1 {
			if defOrUse(info, c.Args[0]) == wb {
				return "n"
			}
		}
		if o := defOrUse(info, e); o != nil {
			if v, ok := consts[o]; ok {
				env["c:"+o.Name()] = v
				return "c:" + o.Name()
			}
		}
		return ""
	}
	// prime the constant aliases
	ast.Inspect(outer, func(n ast.Node) bool {
		if e, ok := n.(ast.Expr); ok {
			alias(e)
		}
		return true
	})
	K, ok := ordEvalNum(info, bound, env, alias)
	if !ok || K < 1 {
		res.Unres(rule, key, p.Pos(bound.Pos()), "block bound is not a constant expression: "+types.ExprString(bound))
		return
	}
	env["n"] = K
	// assignments to the flag inside the outer loop
	cont, decided := false, false
	var why string
	ast.Inspect(outer.Body, func(n ast.Node) bool {
		as, ok := n.(*ast.AssignStmt)
		if !ok || len(as.Lhs) != 1 || len(as.Rhs) != 1 || defOrUse(info, as.Lhs[0]) != flag {
			return true
		}
		// inside a range over the block: executed once per collected key
		perKey := false
		ast.Inspect(outer.Body, func(m ast.Node) bool {
			if rs, ok := m.(*ast.RangeStmt); ok && defOrUse(info, rs.X) == wb && as.Pos() >= rs.Body.Pos() && as.End() <= rs.Body.End() {
				perKey = true
			}
			return true
		})
		v, isConst := info.Types[as.Rhs[0]]
		switch {
		case isConst && v.Value != nil && v.Value.Kind() == constant.Bool:
			if constant.BoolVal(v.Value) {
				if perKey || true {
					cont, decided = cont || (perKey && K >= 1) || !perKey, true
					if perKey {
						why = "set per deleted key"
					}
				}
			}
		default:
			if b, ok := ordEvalBool(info, as.Rhs[0], env, alias); ok {
				decided = true
				cont = cont || b
				why = fmt.Sprintf("%s evaluates to %v for a full block (len = %v)", types.ExprString(as.Rhs[0]), b, K)
			} else {
				why = "continuation expression not evaluable: " + types.ExprString(as.Rhs[0])
			}
		}
		return true
	})
	switch {
	case !decided:
		res.Unres(rule, key, p.Pos(outer.Pos()), "continuation of the block loop not understood ("+why+")")
	case !cont:
		res.Bad(rule, key, p.Pos(outer.Pos()), fmt.Sprintf("%s: a pass collects at most %v keys (%s); when it collected that many the loop does not repeat (%s): everything beyond the first block stays in the store, while the other drivers delete the whole prefix", fkey, K, types.ExprString(bound), why))
	default:
		res.OK(rule, key, p.Pos(outer.Pos()), fmt.Sprintf("repeats whenever a pass collected the maximum of %v keys (%s)", K, why))
	}
}

// c10exclusive: library positioning calls whose bound excludes the key itself.
var c10exclusive = map[string]string{"SeekLT": "which lands strictly below the key (pebble: 'the last key less than the given key')"}

// c10seekArg (S7): the library positioning call receives the method's own key parameter.
func c10seekArg(p *core.Prog, res *core.Result, fi *core.FuncInfo, rule string) {
	info := fi.Pkg.TypesInfo
	fkey := core.FuncKey(fi.Obj)
	sig := fi.Obj.Type().(*types.Signature)
	if sig.Params().Len() != 1 {
		return
	}
	param := sig.Params().At(0)
	res.Fn(fkey)
	n := 0
	ast.Inspect(fi.Decl.Body, func(x ast.Node) bool {
		c, ok := x.(*ast.CallExpr)
		if !ok {
			return true
		}
		names := []string{}
		for k := range c10positioning {
			names = append(names, k)
		}
		if _, ok := isLibraryMethodCall(info, c, names...); !ok || len(c.Args) != 1 {
			return true
		}
		n++
		key := fmt.Sprintf("%s|library seek#%d", fkey, n)
		if sel, ok := c.Fun.(*ast.SelectorExpr); ok && c10exclusive[sel.Sel.Name] != "" {
			res.Bad(rule, key, p.Pos(c.Pos()), fmt.Sprintf("%s positions with %s, %s: the interface's seek (forward and reverse) is inclusive — a key equal to the requested one must be the landing position, as it is in the sibling drivers", fkey, sel.Sel.Name, c10exclusive[sel.Sel.Name]))
			return true
		}
		if defOrUse(info, c.Args[0]) == param {
			res.OK(rule, key, p.Pos(c.Pos()), "the library is positioned at the caller's key itself")
		} else {
			res.Bad(rule, key, p.Pos(c.Pos()), fmt.Sprintf("%s positions the library iterator at %s instead of the caller's key %s: the sibling drivers seek to the key itself, so this driver lands on a different entry for the same request (e.g. a padded key makes a reverse seek start above every key that extends the requested one)", fkey, types.ExprString(c.Args[0]), param.Name()))
		}
		return true
	})
}

// c10registration: names asked for by StartDriver are registered by linked packages.
func c10registration(p *core.Prog, res *core.Result, rule string) {
	reg := map[string]string{} // name -> registering package path
	for _, fi := range p.AllDecls() {
		_ = fi
	}
	for _, pk := range p.Pkgs {
		if !strings.HasPrefix(core.RelPkg(pk.PkgPath), "kvi/") {
			continue
		}
		for _, f := range pk.Syntax {
			ast.Inspect(f, func(n ast.Node) bool {
				c, ok := n.(*ast.CallExpr)
				if !ok {
					return true
				}
				if fn := core.CalleeFunc(pk.TypesInfo, c); fn != nil && fn.Name() == "AddKVDriver" && len(c.Args) == 2 {
					if tv := pk.TypesInfo.Types[c.Args[0]]; tv.Value != nil {
						reg[strings.Trim(tv.Value.ExactString(), `"`)] = pk.PkgPath
					}
				}
				return true
			})
		}
	}
	sd := p.Func("server", "StartDriver")
	if sd == nil {
		res.Fail("server.StartDriver not found")
		return
	}
	spk := sd.Pkg
	// transitive imports of package server
	imported := map[string]bool{}
	var visit func(path string)
	visit = func(path string) {
		if imported[path] {
			return
		}
		imported[path] = true
		if pk := p.ByPath[path]; pk != nil {
			for ip := range pk.Imports {
				visit(ip)
			}
		}
	}
	visit(spk.PkgPath)
	res.Fn(core.FuncKey(sd.Obj))
	ast.Inspect(sd.Decl.Body, func(n ast.Node) bool {
		c, ok := n.(*ast.CallExpr)
		if !ok {
			return true
		}
		fn := core.CalleeFunc(spk.TypesInfo, c)
		if fn == nil || fn.Name() != "NewKVGraphDB" || len(c.Args) < 1 {
			return true
		}
		tv := spk.TypesInfo.Types[c.Args[0]]
		if tv.Value == nil {
			res.Unres(rule, "server.StartDriver|"+types.ExprString(c.Args[0]), p.Pos(c.Pos()), "driver name is not a constant")
			return true
		}
		name := strings.Trim(tv.Value.ExactString(), `"`)
		key := "server.StartDriver|" + name
		switch pkg, ok := reg[name]; {
		case !ok:
			res.Bad(rule, key, p.Pos(c.Pos()), fmt.Sprintf("StartDriver asks for the key-value driver %q, but no package under kvi/ registers that name with AddKVDriver: a configuration selecting this store fails at start-up", name))
		case !imported[pkg]:
			res.Bad(rule, key, p.Pos(c.Pos()), fmt.Sprintf("the key-value driver %q is registered by %s, which the server package does not import (directly or transitively): its init never runs and the driver is unknown at run time", name, core.RelPkg(pkg)))
		default:
			res.OK(rule, key, p.Pos(c.Pos()), "registered by "+core.RelPkg(pkg)+", which the server links")
		}
		return true
	})
}

func c10selftest(st *core.Prog, res *core.Result) {
	rel := core.SelfMod + "/c10"
	pk := st.Pkg(rel)
	if pk == nil {
		res.Fail("C10 self-test package did not load")
		return
	}
	lookups := map[string]lookupSpec{
		"lib.Lib.Lookup":  {[]aval{avNonNil}, []aval{avNil}},
		"lib.Lib.Lookup3": {[]aval{avNonNil, avNonNil, avNil}, []aval{avNil, avNil, avNonNil}},
		"lib.Lib.Has":     {[]aval{avTrue, avNil}, []aval{avFalse, avNil}},
	}
	invokers := map[string]bool{"lib.Lib.View": true}
	verdict := func(tmp *core.Result) core.Status {
		got := core.Discharged
		for _, o := range tmp.Obls {
			if o.Status == core.Violated {
				got = core.Violated
			} else if o.Status == core.Unresolved && got != core.Violated {
				got = core.Unresolved
			}
		}
		return got
	}
	expect := func(name string) (core.Status, bool) {
		switch {
		case strings.HasPrefix(name, "Ok"):
			return core.Discharged, true
		case strings.HasPrefix(name, "Bad"):
			return core.Violated, true
		}
		return "", false
	}
	sc := pk.Types.Scope()
	for _, name := range sc.Names() {
		tn, ok := sc.Lookup(name).(*types.TypeName)
		if !ok {
			continue
		}
		named, ok := tn.Type().(*types.Named)
		if !ok {
			continue
		}
		want, ok := expect(name)
		if !ok {
			continue
		}
		tmp := core.NewResult("C10", "self")
		switch {
		case strings.Contains(name, "Store"):
			c10existence(st, tmp, "S1", named, lookups, invokers)
		case strings.Contains(name, "Iter"):
			c10validity(st, tmp, "S2", named)
		}
		if got := verdict(tmp); got != want {
			res.Fail("self-test type %s: got %s, expected %s", name, got, want)
		} else {
			res.OKTrivial("SELF", "selftest|c10."+name, "-", "rule gives "+string(got)+" as expected")
		}
	}
	for _, fi := range st.AllDecls() {
		if fi.Pkg != pk || fi.Decl.Recv != nil || fi.Decl.Body == nil {
			continue
		}
		want, ok := expect(fi.Obj.Name())
		if !ok {
			continue
		}
		tmp := core.NewResult("C10", "self")
		switch {
		case strings.Contains(fi.Obj.Name(), "Commit"):
			c10commit(st, tmp, "S3", fi)
		case strings.Contains(fi.Obj.Name(), "Pos"):
			c10positioned(st, tmp, "S4", fi)
		case strings.Contains(fi.Obj.Name(), "Keep"):
			c10retain(st, tmp, fi, "S8", func(path string) bool { return strings.HasSuffix(path, "/c10/lib") })
		default:
			continue
		}
		if got := verdict(tmp); got != want {
			res.Fail("self-test %s: got %s, expected %s", fi.Obj.Name(), got, want)
		} else {
			res.OKTrivial("SELF", "selftest|c10."+fi.Obj.Name(), "-", "rule gives "+string(got)+" as expected")
		}
	}
}
