package props

import (
	"fmt"
	"go/ast"
	"go/token"
	"go/types"
	"strings"

	"gripverif/core"
)

// c10retain (S8): byte slices handed out by a store library's iterator, cursor
// or item (Key()/Value()/Seek()…) are valid until the next positioning call
// only.  An adapter that keeps one — in a field of its own iterator/store type
// or appended to a slice — must copy it first.
func c10retain(p *core.Prog, res *core.Result, fi *core.FuncInfo, rule string, isLib func(path string) bool) (n int) {
	info := fi.Pkg.TypesInfo
	fkey := core.FuncKey(fi.Obj)
	isBytes := func(t types.Type) bool {
		s, ok := t.Underlying().(*types.Slice)
		if !ok {
			return false
		}
		b, ok := s.Elem().Underlying().(*types.Basic)
		return ok && b.Kind() == types.Byte
	}
	// libCall: a method call on a library type that returns []byte at result index i
	libResults := func(e ast.Expr) []bool {
		c, ok := ast.Unparen(e).(*ast.CallExpr)
		if !ok {
			return nil
		}
		fn := core.CalleeFunc(info, c)
		if fn == nil || fn.Pkg() == nil || !isLib(fn.Pkg().Path()) {
			return nil
		}
		sig, _ := fn.Type().(*types.Signature)
		if sig == nil || sig.Recv() == nil {
			return nil
		}
		// copying accessors of the libraries
		if strings.HasSuffix(fn.Name(), "Copy") {
			return nil
		}
		out := make([]bool, sig.Results().Len())
		any := false
		for i := range out {
			if isBytes(sig.Results().At(i).Type()) {
				out[i] = true
				any = true
			}
		}
		if !any {
			return nil
		}
		return out
	}
	raw := map[types.Object]bool{}
	for round := 0; round < 3; round++ {
		ast.Inspect(fi.Decl.Body, func(x ast.Node) bool {
			as, ok := x.(*ast.AssignStmt)
			if !ok {
				return true
			}
			if len(as.Rhs) == 1 {
				if lr := libResults(as.Rhs[0]); lr != nil {
					for i, l := range as.Lhs {
						if i < len(lr) && lr[i] {
							if o := defOrUse(info, l); o != nil {
								if _, isVar := o.(*types.Var); isVar && !o.(*types.Var).IsField() {
									raw[o] = true
								}
							}
						}
					}
					return true
				}
			}
			if len(as.Lhs) == len(as.Rhs) {
				for i, r := range as.Rhs {
					if id, ok := ast.Unparen(r).(*ast.Ident); ok && raw[info.Uses[id]] {
						if o := defOrUse(info, as.Lhs[i]); o != nil {
							if v, isVar := o.(*types.Var); isVar && !v.IsField() {
								raw[o] = true
							}
						}
					}
				}
			}
			return true
		})
	}
	isRaw := func(e ast.Expr) bool {
		e = ast.Unparen(e)
		if id, ok := e.(*ast.Ident); ok {
			return raw[info.Uses[id]]
		}
		if lr := libResults(e); lr != nil && len(lr) == 1 {
			return true
		}
		if sl, ok := e.(*ast.SliceExpr); ok {
			if id, ok := ast.Unparen(sl.X).(*ast.Ident); ok {
				return raw[info.Uses[id]]
			}
		}
		return false
	}
	ast.Inspect(fi.Decl.Body, func(x ast.Node) bool {
		switch y := x.(type) {
		case *ast.AssignStmt:
			if len(y.Lhs) != len(y.Rhs) {
				return true
			}
			for i, l := range y.Lhs {
				sel, ok := ast.Unparen(l).(*ast.SelectorExpr)
				if !ok {
					continue
				}
				s := info.Selections[sel]
				if s == nil || s.Kind() != types.FieldVal || !isBytes(s.Obj().Type()) {
					continue
				}
				n++
				key := fmt.Sprintf("%s|%s", fkey, s.Obj().Name())
				if isRaw(y.Rhs[i]) {
					res.Bad(rule, key, p.Pos(y.Pos()), fmt.Sprintf("%s keeps the library's own buffer in field %s (%s) without copying it: the library reuses that memory at the next positioning call, so a key or value a caller still holds (kvgraph collects keys during a scan and deletes them afterwards) silently changes to a later entry", fkey, s.Obj().Name(), types.ExprString(y.Rhs[i])))
				} else {
					res.OK(rule, key, p.Pos(y.Pos()), "not the library's buffer itself (copied, nil or caller data)")
				}
			}
		case *ast.CallExpr:
			if id, ok := ast.Unparen(y.Fun).(*ast.Ident); ok && id.Name == "append" && len(y.Args) >= 2 && y.Ellipsis == token.NoPos {
				if _, isBuiltin := info.Uses[id].(*types.Builtin); isBuiltin {
					for _, a := range y.Args[1:] {
						if isRaw(a) {
							n++
							res.Bad(rule, fmt.Sprintf("%s|append", fkey), p.Pos(y.Pos()), fmt.Sprintf("%s collects the library's own buffer (%s) in a slice without copying it: every collected entry aliases the memory the library reuses at the next step", fkey, types.ExprString(a)))
						}
					}
				}
			}
		}
		return true
	})
	return
}

// realLib: store libraries whose iterators hand out memory that is reused at the
// next positioning call (pebble, goleveldb, badger).  bbolt is not in the table:
// its slices point into the memory map and stay valid for the life of the
// transaction, which every adapter function here keeps open while it uses them.
func realLib(path string) bool {
	if strings.HasPrefix(path, core.ModPath) || strings.Contains(path, "bolt") {
		return false
	}
	first := path
	if i := strings.Index(path, "/"); i >= 0 {
		first = path[:i]
	}
	return strings.Contains(first, ".")
}
