package props

import (
	"fmt"
	"go/ast"
	"go/constant"
	"go/token"
	"go/types"
	"reflect"
	"sort"
	"strings"

	"gripverif/core"

	"golang.org/x/tools/go/cfg"
)

func init() {
	Registry["C11"] = c11
	SelfTests["C11"] = c11selftest
}

// ---- J1: everything a stored row or job record consists of survives encoding/json ----

func c11jsonVisible(p *core.Prog, res *core.Result, roots []*types.Named) {
	seen := map[*types.Named]bool{}
	var visit func(t types.Type, via string)
	var checkStruct func(n *types.Named)
	visit = func(t types.Type, via string) {
		switch x := types.Unalias(t).(type) {
		case *types.Pointer:
			visit(x.Elem(), via)
		case *types.Slice:
			visit(x.Elem(), via)
		case *types.Array:
			visit(x.Elem(), via)
		case *types.Map:
			visit(x.Elem(), via)
		case *types.Named:
			if x.Obj().Pkg() != nil && core.InRepo(x.Obj()) && !generatedFile(p.Fset.Position(x.Obj().Pos()).Filename) {
				checkStruct(x)
			}
		}
	}
	checkStruct = func(n *types.Named) {
		if seen[n] {
			return
		}
		seen[n] = true
		st, ok := n.Underlying().(*types.Struct)
		if !ok {
			return
		}
		tkey := core.TypeKey(n)
		for i := 0; i < st.NumFields(); i++ {
			f := st.Field(i)
			key := tkey + "." + f.Name()
			tag := reflect.StructTag(st.Tag(i)).Get("json")
			pos := p.Pos(f.Pos())
			if tn, ok := types.Unalias(f.Type()).(*types.Named); ok && tn.Obj().Pkg() != nil && (tn.Obj().Pkg().Path() == "sync" || tn.Obj().Pkg().Path() == "sync/atomic") {
				res.OKTrivial("J1", key, pos, "synchronisation field: carries no data to store")
				continue
			}
			switch ft := f.Type().Underlying().(type) {
			case *types.Signature, *types.Chan:
				res.Bad("J1", key, pos, fmt.Sprintf("field %s of %s has type %s, which encoding/json cannot store: a row or job record containing it fails to serialise", f.Name(), tkey, f.Type()))
				continue
			case *types.Interface:
				if !ft.Empty() {
					res.Bad("J1", key, pos, fmt.Sprintf("field %s of %s has the interface type %s: encoding/json writes it but cannot read it back (no concrete type), so stored rows cannot be resumed", f.Name(), tkey, f.Type()))
					continue
				}
			}
			switch {
			case !f.Exported():
				res.Bad("J1", key, pos, fmt.Sprintf("field %s of %s is unexported: encoding/json skips it, so it is lost when a job's rows (or the job record) are written to disk and read back", f.Name(), tkey))
			case tag == "-" || strings.HasPrefix(tag, "-,") && tag != "-,":
				res.Bad("J1", key, pos, fmt.Sprintf("field %s of %s is tagged json:\"-\": it is not stored with the job", f.Name(), tkey))
			default:
				res.OK("J1", key, pos, "exported and not excluded from JSON")
			}
			visit(f.Type(), key)
		}
	}
	for _, r := range roots {
		checkStruct(r)
	}
}

// ---- J2/J6: per-item loops forward / count every item exactly once ----

// topLevelPerItem examines `for x := range ch { … }`: counts, at the top level
// of the body (not nested in if/for/switch), the statements matching each predicate.
func chanRangeLoops(info *types.Info, body ast.Node) []*ast.RangeStmt {
	var out []*ast.RangeStmt
	ast.Inspect(body, func(n ast.Node) bool {
		if rs, ok := n.(*ast.RangeStmt); ok && isChanType(info.TypeOf(rs.X)) {
			out = append(out, rs)
		}
		return true
	})
	return out
}

// c11forwardAll: every received item is sent on, unconditionally, once.
func c11forwardAll(p *core.Prog, res *core.Result, fi *core.FuncInfo, rule string) int {
	info := fi.Pkg.TypesInfo
	fkey := core.FuncKey(fi.Obj)
	n := 0
	for i, rs := range chanRangeLoops(info, fi.Decl.Body) {
		item := defOrUse(info, rs.Key)
		if item == nil {
			continue
		}
		// the value that stands for the item: the item itself or a local computed from it at top level
		carriers := map[types.Object]bool{item: true}
		top, nested := 0, 0
		escaped := false // a continue/break/return before the send at top level
		hasEscape := func(s ast.Stmt) bool {
			e := false
			ast.Inspect(s, func(y ast.Node) bool {
				switch y.(type) {
				case *ast.BranchStmt, *ast.ReturnStmt:
					e = true
				case *ast.FuncLit:
					return false
				}
				return true
			})
			return e
		}
		for _, s := range rs.Body.List {
			switch x := s.(type) {
			case *ast.ExprStmt:
				// f(item, dst): dst now stands for the item (json.Unmarshal(t, b))
				if c, ok := x.X.(*ast.CallExpr); ok {
					uses := false
					for _, a := range c.Args {
						if o := defOrUse(info, a); o != nil && carriers[o] {
							uses = true
						}
					}
					if uses {
						for _, a := range c.Args {
							a = ast.Unparen(a)
							if u, ok := a.(*ast.UnaryExpr); ok && u.Op == token.AND {
								a = u.X
							}
							if o := defOrUse(info, a); o != nil {
								carriers[o] = true
							}
						}
					}
				}
			case *ast.AssignStmt:
				uses := false
				for _, r := range x.Rhs {
					ast.Inspect(r, func(y ast.Node) bool {
						if id, ok := y.(*ast.Ident); ok && carriers[info.Uses[id]] {
							uses = true
						}
						return true
					})
				}
				if uses {
					for _, l := range x.Lhs {
						if o := defOrUse(info, l); o != nil {
							carriers[o] = true
						}
					}
				}
			case *ast.SendStmt:
				if o := defOrUse(info, x.Value); o != nil && carriers[o] && !escaped {
					top++
				}
			default:
				// if err := f(item, &dst); err != nil { … }: dst stands for the item from here on
				if is, ok := s.(*ast.IfStmt); ok && is.Init != nil {
					ast.Inspect(is.Init, func(y ast.Node) bool {
						c, ok := y.(*ast.CallExpr)
						if !ok {
							return true
						}
						uses := false
						for _, a := range c.Args {
							if o := defOrUse(info, a); o != nil && carriers[o] {
								uses = true
							}
						}
						if uses {
							for _, a := range c.Args {
								a = ast.Unparen(a)
								if u, ok := a.(*ast.UnaryExpr); ok && u.Op == token.AND {
									a = u.X
								}
								if o := defOrUse(info, a); o != nil {
									carriers[o] = true
								}
							}
						}
						return true
					})
				}
				if hasEscape(s) {
					escaped = true
				}
			}
		}
		ast.Inspect(rs.Body, func(y ast.Node) bool {
			if snd, ok := y.(*ast.SendStmt); ok {
				if o := defOrUse(info, snd.Value); o != nil && carriers[o] {
					nested++
				}
			}
			return true
		})
		if nested == 0 {
			continue // the loop consumes, it does not forward
		}
		n++
		res.Fn(fkey)
		key := fmt.Sprintf("%s|loop#%d", fkey, i+1)
		switch {
		case top == 1 && nested == 1:
			res.OK(rule, key, p.Pos(rs.Pos()), "every received item is forwarded once, unconditionally")
		case top == 0:
			res.Bad(rule, key, p.Pos(rs.Pos()), fmt.Sprintf("%s: the loop at %s forwards a received item only under a condition: rows of the stored job that do not meet it (null rows from outNull/inNull, signals) are dropped, so a resumed job returns fewer rows than the concatenated traversal", fkey, p.Pos(rs.Pos())))
		default:
			res.Bad(rule, key, p.Pos(rs.Pos()), fmt.Sprintf("%s: the loop at %s forwards a received item %d times on some path (expected exactly once)", fkey, p.Pos(rs.Pos()), nested))
		}
	}
	return n
}

// c11countPairing: in Spool's writer loop each row written is counted once.
func c11countPairing(p *core.Prog, res *core.Result, fi *core.FuncInfo, rule string) {
	info := fi.Pkg.TypesInfo
	fkey := core.FuncKey(fi.Obj)
	res.Fn(fkey)
	found := false
	for _, rs := range chanRangeLoops(info, fi.Decl.Body) {
		item := defOrUse(info, rs.Key)
		writes, counts, nestedCounts := 0, 0, 0
		for _, s := range rs.Body.List {
			switch x := s.(type) {
			case *ast.ExprStmt:
				if c, ok := x.X.(*ast.CallExpr); ok {
					if sel, ok := c.Fun.(*ast.SelectorExpr); ok && sel.Sel.Name == "Write" && len(c.Args) == 1 {
						if o := defOrUse(info, c.Args[0]); o != nil && o == item {
							writes++
						}
					}
					// job.update(func(s *Status) { s.Count += 1 }): an unconditional call whose
					// function literal does nothing but advance the count by one
					for _, a := range c.Args {
						if lit, ok := a.(*ast.FuncLit); ok && len(lit.Body.List) == 1 {
							switch y := lit.Body.List[0].(type) {
							case *ast.AssignStmt:
								if y.Tok == token.ADD_ASSIGN && len(y.Lhs) == 1 && strings.HasSuffix(types.ExprString(y.Lhs[0]), ".Count") {
									if tv, ok := info.Types[y.Rhs[0]]; ok && tv.Value != nil && constant.Compare(tv.Value, token.EQL, constant.MakeInt64(1)) {
										counts++
									}
								}
							case *ast.IncDecStmt:
								if y.Tok == token.INC && strings.HasSuffix(types.ExprString(y.X), ".Count") {
									counts++
								}
							}
						}
					}
				}
			case *ast.AssignStmt:
				if (x.Tok == token.ADD_ASSIGN) && len(x.Lhs) == 1 && strings.HasSuffix(types.ExprString(x.Lhs[0]), ".Count") {
					if tv, ok := info.Types[x.Rhs[0]]; ok && tv.Value != nil && constant.Compare(tv.Value, token.EQL, constant.MakeInt64(1)) {
						counts++
					}
				}
			case *ast.IncDecStmt:
				if x.Tok == token.INC && strings.HasSuffix(types.ExprString(x.X), ".Count") {
					counts++
				}
			}
		}
		ast.Inspect(rs.Body, func(y ast.Node) bool {
			switch x := y.(type) {
			case *ast.AssignStmt:
				if len(x.Lhs) == 1 && strings.HasSuffix(types.ExprString(x.Lhs[0]), ".Count") {
					nestedCounts++
				}
			case *ast.IncDecStmt:
				if strings.HasSuffix(types.ExprString(x.X), ".Count") {
					nestedCounts++
				}
			}
			return true
		})
		if writes == 0 && nestedCounts == 0 {
			continue
		}
		found = true
		key := fkey + "|row loop"
		if writes == 1 && counts == 1 && nestedCounts == 1 {
			res.OK(rule, key, p.Pos(rs.Pos()), "each row is written once and Status.Count advanced by one, both unconditionally")
		} else {
			res.Bad(rule, key, p.Pos(rs.Pos()), fmt.Sprintf("%s: per stored row the loop at %s writes the row %d time(s) and advances Status.Count %d time(s) unconditionally (%d count updates in all): the count reported in the job status differs from the number of rows stored", fkey, p.Pos(rs.Pos()), writes, counts, nestedCounts))
		}
	}
	if !found {
		res.Unres(rule, fkey+"|row loop", p.Pos(fi.Decl.Pos()), "the loop that writes the rows was not recognised")
	}
}

// ---- J3: paths ----

// joinCalls lists filepath.Join calls whose first argument is the storage's base directory.
func c11paths(p *core.Prog, res *core.Result, named *types.Named) {
	type use struct {
		fi    *core.FuncInfo
		call  *ast.CallExpr
		names []string // constant trailing components
	}
	var uses []use
	for _, mn := range []string{"Spool", "Stream", "Delete"} {
		fi := p.Method(named, mn)
		if fi == nil || fi.Decl.Body == nil {
			res.Unres("J3", core.TypeKey(named)+"."+mn, "-", "method not found")
			continue
		}
		info := fi.Pkg.TypesInfo
		res.Fn(core.FuncKey(fi.Obj))
		ast.Inspect(fi.Decl.Body, func(n ast.Node) bool {
			c, ok := n.(*ast.CallExpr)
			if !ok {
				return true
			}
			fn := core.CalleeFunc(info, c)
			if fn == nil || fn.Pkg() == nil || fn.Pkg().Path() != "path/filepath" || fn.Name() != "Join" || len(c.Args) < 2 {
				return true
			}
			if !strings.HasSuffix(types.ExprString(c.Args[0]), ".BaseDir") {
				return true
			}
			u := use{fi: fi, call: c}
			uses = append(uses, u)
			key := fmt.Sprintf("%s|Join#%s", core.FuncKey(fi.Obj), p.Pos(c.Pos()))
			key = core.FuncKey(fi.Obj) + "|graph component"
			// the graph component must be sanitised the same way everywhere
			ac, ok := ast.Unparen(c.Args[1]).(*ast.CallExpr)
			okSan := false
			var arg ast.Expr
			if ok {
				if sf := core.CalleeFunc(info, ac); sf != nil && sf.Name() == "Name" && sf.Pkg() != nil && strings.HasSuffix(sf.Pkg().Path(), "sanitize") && len(ac.Args) == 1 {
					okSan = true
					arg = ac.Args[0]
				}
			}
			isParam := false
			if okSan {
				if id, ok := ast.Unparen(arg).(*ast.Ident); ok {
					if v, ok := info.Uses[id].(*types.Var); ok {
						sig := fi.Obj.Type().(*types.Signature)
						for i := 0; i < sig.Params().Len(); i++ {
							if sig.Params().At(i) == v {
								isParam = true
							}
						}
					}
				}
			}
			switch {
			case !okSan:
				res.Bad("J3", key, p.Pos(c.Pos()), fmt.Sprintf("%s builds a job path whose graph component is %s, not sanitize.Name(graph) as Spool uses when it creates the directory: for graph names that sanitising changes (upper case, '_', spaces) the path names a different directory, so the job's files are not found / not removed", core.FuncKey(fi.Obj), types.ExprString(c.Args[1])))
			case !isParam:
				res.Bad("J3", key, p.Pos(c.Pos()), fmt.Sprintf("%s sanitises %s, which is not the graph argument of the call: the registry key is built from the argument (jobKey), so the directory and the registry entry can disagree", core.FuncKey(fi.Obj), types.ExprString(arg)))
			default:
				res.OK("J3", key, p.Pos(c.Pos()), "graph component is sanitize.Name(<graph argument>)")
			}
			return true
		})
	}
	// file names: what Spool creates is what Stream opens and what the constructor globs
	consts := func(fi *core.FuncInfo) map[string]bool {
		out := map[string]bool{}
		if fi == nil || fi.Decl.Body == nil {
			return out
		}
		info := fi.Pkg.TypesInfo
		ast.Inspect(fi.Decl.Body, func(n ast.Node) bool {
			c, ok := n.(*ast.CallExpr)
			if !ok {
				return true
			}
			if fn := core.CalleeFunc(info, c); fn != nil && fn.Pkg() != nil && fn.Pkg().Path() == "path/filepath" && fn.Name() == "Join" {
				if tv, ok := info.Types[c.Args[len(c.Args)-1]]; ok && tv.Value != nil && tv.Value.Kind() == constant.String {
					out[constant.StringVal(tv.Value)] = true
				}
			}
			return true
		})
		return out
	}
	spool := consts(p.Method(named, "Spool"))
	ctor := p.Func(core.RelPkg(named.Obj().Pkg().Path()), "NewFSJobStorage")
	for _, rd := range []struct {
		who string
		fi  *core.FuncInfo
	}{{"Stream", p.Method(named, "Stream")}, {"NewFSJobStorage", ctor}} {
		if rd.fi == nil {
			res.Unres("J3", "files|"+rd.who, "-", "function not found")
			continue
		}
		res.Fn(core.FuncKey(rd.fi.Obj))
		for name := range consts(rd.fi) {
			key := "files|" + rd.who + "|" + name
			if spool[name] {
				res.OK("J3", key, p.Pos(rd.fi.Decl.Pos()), fmt.Sprintf("%s reads %q, which Spool writes", rd.who, name))
			} else {
				var have []string
				for s := range spool {
					have = append(have, s)
				}
				sort.Strings(have)
				res.Bad("J3", key, p.Pos(rd.fi.Decl.Pos()), fmt.Sprintf("%s reads the file %q of a job directory, but Spool writes only %v: completed jobs are not found again (after a restart / when streamed)", rd.who, name, have))
			}
		}
	}
	// Delete removes both the registry entry and the directory
	if fi := p.Method(named, "Delete"); fi != nil && fi.Decl.Body != nil {
		info := fi.Pkg.TypesInfo
		regDel, dirDel := false, false
		ast.Inspect(fi.Decl.Body, func(n ast.Node) bool {
			if c, ok := n.(*ast.CallExpr); ok {
				if sel, ok := c.Fun.(*ast.SelectorExpr); ok {
					if sel.Sel.Name == "Delete" && strings.HasSuffix(types.ExprString(sel.X), ".jobs") {
						regDel = true
					}
				}
				if fn := core.CalleeFunc(info, c); fn != nil && fn.Pkg() != nil && fn.Pkg().Path() == "os" && (fn.Name() == "RemoveAll" || fn.Name() == "Remove") {
					dirDel = true
				}
			}
			return true
		})
		key := core.FuncKey(fi.Obj) + "|removes registry and directory"
		if regDel && dirDel {
			res.OK("J3", key, p.Pos(fi.Decl.Pos()), "removes the registry entry and the job directory")
		} else {
			res.Bad("J3", key, p.Pos(fi.Decl.Pos()), fmt.Sprintf("Delete removes the registry entry: %v, the job directory: %v — a deleted job is either still listed or comes back after a restart", regDel, dirDel))
		}
	}
}

// ---- J4: search ----

// c11indexCoverage: the comparison loop of the prefix match visits every position of the job's list.
func c11indexCoverage(p *core.Prog, res *core.Result, fi *core.FuncInfo, rule string) {
	info := fi.Pkg.TypesInfo
	fkey := core.FuncKey(fi.Obj)
	res.Fn(fkey)
	sig := fi.Obj.Type().(*types.Signature)
	if sig.Params().Len() != 2 {
		res.Unres(rule, fkey+"|coverage", p.Pos(fi.Decl.Pos()), "expected (query, job) parameters")
		return
	}
	job := sig.Params().At(1)
	var loop *ast.ForStmt
	var rng *ast.RangeStmt
	ast.Inspect(fi.Decl.Body, func(n ast.Node) bool {
		switch x := n.(type) {
		case *ast.ForStmt:
			if loop == nil {
				loop = x
			}
		case *ast.RangeStmt:
			if o := defOrUse(info, x.X); o == job && rng == nil {
				rng = x
			}
		}
		return true
	})
	key := fkey + "|coverage"
	if rng != nil && loop == nil {
		res.OK(rule, key, p.Pos(rng.Pos()), "ranges over every position of the job's step list")
		return
	}
	if loop == nil || loop.Init == nil || loop.Cond == nil {
		res.Unres(rule, key, p.Pos(fi.Decl.Pos()), "comparison loop not recognised")
		return
	}
	as, ok := loop.Init.(*ast.AssignStmt)
	if !ok || len(as.Lhs) != 1 {
		res.Unres(rule, key, p.Pos(loop.Pos()), "loop initialiser not recognised")
		return
	}
	iv := defOrUse(info, as.Lhs[0])
	const N = 3
	alias := func(e ast.Expr) string {
		e = ast.Unparen(e)
		if o := defOrUse(info, e); o != nil && o == iv {
			return "i"
		}
		if c, ok := e.(*ast.CallExpr); ok && isBuiltin2(info, c, "len") && len(c.Args) == 1 {
			if o := defOrUse(info, c.Args[0]); o == job {
				return "n"
			}
		}
		return ""
	}
	start, okS := ordEvalNum(info, as.Rhs[0], ordEnv{"n": N}, alias)
	if !okS {
		res.Unres(rule, key, p.Pos(loop.Pos()), "loop start is not a constant or len(job)-k")
		return
	}
	// direction from the post statement
	dir := 0.0
	if inc, ok := loop.Post.(*ast.IncDecStmt); ok {
		if inc.Tok == token.INC {
			dir = 1
		} else {
			dir = -1
		}
	}
	if dir == 0 {
		res.Unres(rule, key, p.Pos(loop.Pos()), "loop step is not i++ / i--")
		return
	}
	visited := map[int]bool{}
	for i, steps := start, 0; steps < 10; i, steps = i+dir, steps+1 {
		v, ok := ordEvalBool(info, loop.Cond, ordEnv{"i": i, "n": N}, alias)
		if !ok {
			res.Unres(rule, key, p.Pos(loop.Cond.Pos()), "loop condition is not a comparison of the index with a constant or len(job)")
			return
		}
		if !v {
			break
		}
		visited[int(i)] = true
	}
	var missing []string
	for i := 0; i < N; i++ {
		if !visited[i] {
			missing = append(missing, fmt.Sprintf("%d", i))
		}
	}
	extra := visited[-1] || visited[N]
	switch {
	case len(missing) > 0:
		res.Bad(rule, key, p.Pos(loop.Pos()), fmt.Sprintf("%s: for a job of %d steps the comparison loop (%s; %s; …) never looks at position(s) %s: a stored job whose statement there differs from the searched traversal is still reported as a prefix match (and its rows are reused for a different query)", fkey, N, types.ExprString(as.Rhs[0]), types.ExprString(loop.Cond), strings.Join(missing, ",")))
	case extra:
		res.Bad(rule, key, p.Pos(loop.Pos()), fmt.Sprintf("%s: the comparison loop indexes outside the job's step list", fkey))
	default:
		res.OK(rule, key, p.Pos(loop.Pos()), "the comparison loop visits every position of the job's step list and no other")
	}
}

// c11searchFilter: a job is reported only under the graph test and the prefix test.
func c11searchFilter(p *core.Prog, res *core.Result, fi *core.FuncInfo, rule string) {
	info := fi.Pkg.TypesInfo
	fkey := core.FuncKey(fi.Obj)
	res.Fn(fkey)
	n := 0
	var visit func(node ast.Node, conds []ast.Expr)
	visit = func(node ast.Node, conds []ast.Expr) {
		switch x := node.(type) {
		case *ast.IfStmt:
			visit(x.Body, append(append([]ast.Expr{}, conds...), x.Cond))
			if x.Else != nil {
				visit(x.Else, conds)
			}
			return
		case *ast.SendStmt:
			n++
			graphTest, matchTest := false, false
			for _, c := range conds {
				ast.Inspect(c, func(y ast.Node) bool {
					switch z := y.(type) {
					case *ast.BinaryExpr:
						if z.Op == token.EQL && (strings.HasSuffix(types.ExprString(z.X), ".Graph") || strings.HasSuffix(types.ExprString(z.Y), ".Graph")) {
							graphTest = true
						}
					case *ast.CallExpr:
						if fn := core.CalleeFunc(info, z); fn != nil && fn.Name() == "JobMatch" {
							matchTest = true
						}
					}
					return true
				})
			}
			key := fmt.Sprintf("%s|send#%d", fkey, n)
			if graphTest && matchTest {
				res.OK(rule, key, p.Pos(x.Pos()), "a job is reported only if it is on the searched graph and JobMatch holds")
			} else {
				res.Bad(rule, key, p.Pos(x.Pos()), fmt.Sprintf("%s reports a job at %s without testing the graph (%v) / the prefix match (%v): search returns jobs of other graphs or jobs that are not a prefix of the searched traversal", fkey, p.Pos(x.Pos()), graphTest, matchTest))
			}
			return
		}
		ast.Inspect(node, func(y ast.Node) bool {
			if y == node {
				return true
			}
			switch y.(type) {
			case *ast.IfStmt, *ast.SendStmt:
				visit(y, conds)
				return false
			}
			return true
		})
	}
	visit(fi.Decl.Body, nil)
	if n == 0 {
		res.Unres(rule, fkey+"|send", p.Pos(fi.Decl.Pos()), "no report statement found")
	}
}

// ---- J5: record round trip and completion order ----

func c11record(p *core.Prog, res *core.Result, named *types.Named, ctor *core.FuncInfo) {
	spool := p.Method(named, "Spool")
	if spool == nil || ctor == nil {
		res.Unres("J5", "record", "-", "Spool / constructor not found")
		return
	}
	typeOfArg := func(fi *core.FuncInfo, fname string, argIdx int) types.Type {
		info := fi.Pkg.TypesInfo
		var t types.Type
		ast.Inspect(fi.Decl.Body, func(n ast.Node) bool {
			if c, ok := n.(*ast.CallExpr); ok {
				if fn := core.CalleeFunc(info, c); fn != nil && fn.Pkg() != nil && fn.Pkg().Path() == "encoding/json" && fn.Name() == fname && len(c.Args) > argIdx {
					t = info.TypeOf(c.Args[argIdx])
				}
			}
			return true
		})
		return t
	}
	wt := typeOfArg(spool, "Marshal", 0)
	rt := typeOfArg(ctor, "Unmarshal", 1)
	deref := func(t types.Type) types.Type {
		for {
			pt, ok := t.(*types.Pointer)
			if !ok {
				return t
			}
			t = pt.Elem()
		}
	}
	key := "record|type"
	switch {
	case wt == nil || rt == nil:
		res.Unres("J5", key, p.Pos(spool.Decl.Pos()), "json.Marshal in Spool / json.Unmarshal in the constructor not found")
	case !types.Identical(deref(wt), deref(rt)):
		res.Bad("J5", key, p.Pos(ctor.Decl.Pos()), fmt.Sprintf("Spool stores the job record as %s but the constructor reads it back as %s: completed jobs are not restored after a restart", wt, rt))
	default:
		res.OK("J5", key, p.Pos(ctor.Decl.Pos()), fmt.Sprintf("the record is written and read as %s", deref(wt)))
	}
	// the record written to disk says COMPLETE: the state assignment precedes the Marshal call
	info := spool.Pkg.TypesInfo
	var lit *ast.FuncLit
	ast.Inspect(spool.Decl.Body, func(n ast.Node) bool {
		if g, ok := n.(*ast.GoStmt); ok {
			if l, ok := g.Call.Fun.(*ast.FuncLit); ok {
				lit = l
			}
		}
		return true
	})
	key = "record|complete before stored"
	if lit == nil {
		res.Unres("J5", key, p.Pos(spool.Decl.Pos()), "writer goroutine not found")
		return
	}
	fl := &core.Flow{Prog: p, Info: info, Body: lit.Body}
	fl.Events = func(n ast.Node, st *core.State) ([]string, bool) {
		if as, ok := n.(*ast.AssignStmt); ok && len(as.Lhs) == 1 && len(as.Rhs) == 1 && strings.HasSuffix(types.ExprString(as.Lhs[0]), ".State") {
			if strings.HasSuffix(types.ExprString(as.Rhs[0]), "JobState_COMPLETE") {
				return []string{"complete"}, false
			}
			return []string{"-complete"}, false
		}
		return nil, false
	}
	fl.Run()
	found, ok := false, true
	fl.Walk(func(n ast.Node, st *core.State, b *cfg.Block) {
		for _, c := range core.CallsIn(n) {
			if fn := core.CalleeFunc(info, c); fn != nil && fn.Pkg() != nil && fn.Pkg().Path() == "encoding/json" && fn.Name() == "Marshal" {
				found = true
				if !st.Held["complete"] {
					ok = false
				}
			}
		}
	})
	switch {
	case !found:
		res.Unres("J5", key, p.Pos(lit.Pos()), "json.Marshal of the record not found in the writer goroutine")
	case !ok:
		res.Bad("J5", key, p.Pos(lit.Pos()), "the job record is serialised before its state is set to COMPLETE on some path: after a restart the job is listed as running for ever and can be neither streamed nor deleted")
	default:
		res.OK("J5", key, p.Pos(lit.Pos()), "the state is COMPLETE on every path to the serialisation of the record")
	}
}

func c11(p *core.Prog, res *core.Result) {
	res.Explanation = "C11 (persistence structure): J1 every field of the stored row types (gdbi.BaseTraveler and everything reachable from it) and of the job record (jobstorage.Job) is visible to encoding/json and of a type it can read back; " +
		"J2 in Spool's writer loop each row is written once and Status.Count advanced by one, both unconditionally; J3 Spool, Stream and Delete build job paths from the storage base directory and sanitize.Name(<graph argument>), the files Stream opens and the constructor globs are files Spool writes, and Delete removes both the registry entry and the directory; " +
		"J4 JobMatch's comparison loop visits every position of the job's step list, and Search reports a job only under the graph test and JobMatch; J5 the job record is written and read back as the same type and is serialised only after its state is COMPLETE; " +
		"J6 the loops that carry stored rows (serializer pools, the resume feed of pipeline.Start) forward every received item exactly once, unconditionally."
	res.NotDecided = []string{"equality of the stored multiset with a direct run", "JSON fidelity of property values (numbers become float64)", "that hashstructure distinguishes all different statements", "resume typing (shared with C14's transfer tables for the core compiler)"}
	res.Rule("J1", "stored rows and job records are fully visible to encoding/json", 20)
	res.Rule("J2", "row write and count are paired", 1)
	res.Rule("J3", "job paths and file names agree between writer, readers and delete", 6)
	res.Rule("J4", "prefix match covers every position; search filters by graph and match", 2)
	res.Rule("J5", "job record round trip and completion order", 2)
	res.Rule("J6", "row-carrying loops forward every item once", 5)

	bt := p.Named("gdbi", "BaseTraveler")
	job := p.Named("jobstorage", "Job")
	fsr := p.Named("jobstorage", "FSResults")
	if bt == nil || job == nil || fsr == nil {
		res.Fail("gdbi.BaseTraveler / jobstorage.Job / jobstorage.FSResults not found")
		return
	}
	c11jsonVisible(p, res, []*types.Named{bt, job})
	if fi := p.Method(fsr, "Spool"); fi != nil {
		c11countPairing(p, res, fi, "J2")
	}
	c11paths(p, res, fsr)
	if fi := p.Func("jobstorage", "JobMatch"); fi != nil {
		c11indexCoverage(p, res, fi, "J4")
	} else {
		res.Fail("jobstorage.JobMatch not found")
	}
	if fi := p.Method(fsr, "Search"); fi != nil {
		c11searchFilter(p, res, fi, "J4")
	}
	c11record(p, res, fsr, p.Func("jobstorage", "NewFSJobStorage"))
	n := 0
	for _, f := range []*core.FuncInfo{p.Func("jobstorage", "MarshalStream"), p.Func("jobstorage", "UnmarshalStream"), p.Func("engine/pipeline", "Start")} {
		if f == nil {
			res.Fail("row-carrying function not found")
			continue
		}
		n += c11forwardAll(p, res, f, "J6")
	}
}

func c11selftest(st *core.Prog, res *core.Result) {
	rel := core.SelfMod + "/c11"
	pk := st.Pkg(rel)
	if pk == nil {
		res.Fail("C11 self-test package did not load")
		return
	}
	for _, fi := range st.AllDecls() {
		if fi.Pkg != pk || fi.Decl.Recv != nil {
			continue
		}
		name := fi.Obj.Name()
		var want core.Status
		switch {
		case strings.HasPrefix(name, "Ok"):
			want = core.Discharged
		case strings.HasPrefix(name, "Bad"):
			want = core.Violated
		default:
			continue
		}
		tmp := core.NewResult("C11", "self")
		switch {
		case strings.Contains(name, "Match"):
			c11indexCoverage(st, tmp, fi, "J4")
		case strings.Contains(name, "Forward"):
			c11forwardAll(st, tmp, fi, "J6")
		default:
			continue
		}
		got := core.Discharged
		for _, o := range tmp.Obls {
			if o.Status == core.Violated {
				got = core.Violated
			} else if o.Status == core.Unresolved && got != core.Violated {
				got = core.Unresolved
			}
		}
		if got != want {
			res.Fail("self-test %s: got %s, expected %s", name, got, want)
		} else {
			res.OKTrivial("SELF", "selftest|c11."+name, "-", "rule gives "+string(got)+" as expected")
		}
	}
	for _, tn := range []string{"OkRow", "BadRowHidden"} {
		named := st.Named(rel, tn)
		if named == nil {
			res.Fail("self-test type %s missing", tn)
			continue
		}
		tmp := core.NewResult("C11", "self")
		c11jsonVisible(st, tmp, []*types.Named{named})
		got := core.Discharged
		for _, o := range tmp.Obls {
			if o.Status == core.Violated {
				got = core.Violated
			}
		}
		want := core.Discharged
		if strings.HasPrefix(tn, "Bad") {
			want = core.Violated
		}
		if got != want {
			res.Fail("self-test type %s: got %s, expected %s", tn, got, want)
		} else {
			res.OKTrivial("SELF", "selftest|c11."+tn, "-", "JSON visibility rule gives "+string(got)+" as expected")
		}
	}
}
