package props

import (
	"fmt"
	"go/ast"
	"go/constant"
	"go/token"
	"go/types"
	"strings"

	"gripverif/core"

	"golang.org/x/tools/go/cfg"
)

func init() {
	Registry["C12"] = c12
	SelfTests["C12"] = c12selftest
}

// signalTransparent checks one loop over a traveler/lookup channel: the first
// statement of the body tests IsSignal() on the loop variable and, when it
// holds, forwards the variable (or a lookup referring to it) and does nothing else.
func signalTransparent(info *types.Info, loop *ast.RangeStmt) (ok bool, why string) {
	ok, why = signalTransparentShape(info, loop)
	if ok {
		return ok, why
	}
	// other shapes: read the body with IsSignal() taken to be true
	if ok2, why2 := signalTransparentFlow(info, loop); ok2 {
		return true, ""
	} else if why2 != "" {
		why = why + "; read with IsSignal() true: " + why2
	}
	return false, why
}

// signalTransparentFlow specialises the loop body on `<t>.IsSignal() == true`
// and requires of the statements that remain reachable: the only methods called
// on the traveler are IsSignal/IsNull/GetSignal, at least one send forwards the
// traveler itself or a lookup whose Ref is the traveler, and no other value
// derived from the traveler is sent.
func signalTransparentFlow(info *types.Info, loop *ast.RangeStmt) (bool, string) {
	if loop.Key == nil {
		return false, ""
	}
	tv := defOrUse(info, loop.Key)
	isT := func(e ast.Expr) bool {
		id, ok := ast.Unparen(e).(*ast.Ident)
		return ok && info.Uses[id] == tv
	}
	fl := &core.Flow{Info: info, Body: loop.Body}
	fl.Const = func(e ast.Expr, st *core.State) (constant.Value, bool) {
		if c, ok := ast.Unparen(e).(*ast.CallExpr); ok {
			if sel, ok := c.Fun.(*ast.SelectorExpr); ok && sel.Sel.Name == "IsSignal" && isT(sel.X) {
				return constant.MakeBool(true), true
			}
		}
		return nil, false
	}
	fl.Run()
	// locals that carry the traveler as their Ref: x := T{Ref: t}
	carriers := map[types.Object]bool{}
	refLit := func(e ast.Expr) bool {
		cl, ok := ast.Unparen(e).(*ast.CompositeLit)
		if !ok {
			return false
		}
		for _, el := range cl.Elts {
			if kv, ok := el.(*ast.KeyValueExpr); ok {
				if id, ok := kv.Key.(*ast.Ident); ok && id.Name == "Ref" && isT(kv.Value) {
					return true
				}
			}
		}
		return false
	}
	good, bad := 0, ""
	fl.Walk(func(n ast.Node, st *core.State, b *cfg.Block) {
		if as, ok := n.(*ast.AssignStmt); ok && len(as.Lhs) == len(as.Rhs) {
			for i, r := range as.Rhs {
				if refLit(r) {
					if o := defOrUse(info, as.Lhs[i]); o != nil {
						carriers[o] = true
					}
				}
			}
		}
		ast.Inspect(n, func(x ast.Node) bool {
			switch y := x.(type) {
			case *ast.FuncLit:
				return false
			case *ast.CallExpr:
				if sel, ok := y.Fun.(*ast.SelectorExpr); ok && isT(sel.X) {
					switch sel.Sel.Name {
					case "IsSignal", "IsNull", "GetSignal":
					default:
						if bad == "" {
							bad = "calls " + sel.Sel.Name + "() on a signal traveler"
						}
					}
				}
			case *ast.SendStmt:
				v := ast.Unparen(y.Value)
				switch {
				case isT(v) || refLit(v):
					good++
				case func() bool { o := defOrUse(info, v); return o != nil && carriers[o] }():
					good++
				case refersTo2(info, v, tv):
					if bad == "" {
						bad = "sends a value derived from the signal traveler instead of the signal itself"
					}
				}
			}
			return true
		})
	})
	if bad != "" {
		return false, bad
	}
	if good == 0 {
		return false, "no statement forwards the signal"
	}
	return true, ""
}

func signalTransparentShape(info *types.Info, loop *ast.RangeStmt) (ok bool, why string) {
	if loop.Key == nil || len(loop.Body.List) == 0 {
		return false, "loop has no traveler variable"
	}
	tv := defOrUse(info, loop.Key)
	refersTo := func(e ast.Expr) bool {
		found := false
		ast.Inspect(e, func(n ast.Node) bool {
			if id, ok := n.(*ast.Ident); ok && info.Uses[id] == tv {
				found = true
			}
			return true
		})
		return found
	}
	// statements that do not touch the loop variable (polling ctx, counters) may come first
	first := 0
	for first < len(loop.Body.List) && !refersTo2(info, loop.Body.List[first], tv) {
		first++
	}
	if first == len(loop.Body.List) {
		return false, "the loop body never looks at the traveler"
	}
	is, isIf := loop.Body.List[first].(*ast.IfStmt)
	if !isIf {
		return false, "the first use of the traveler in the loop body is not a test of IsSignal()"
	}
	hasSig := false
	ast.Inspect(is.Cond, func(n ast.Node) bool {
		if c, ok := n.(*ast.CallExpr); ok {
			if sel, ok := c.Fun.(*ast.SelectorExpr); ok && sel.Sel.Name == "IsSignal" && refersTo(sel.X) {
				hasSig = true
			}
		}
		return true
	})
	if !hasSig {
		return false, "the first statement of the loop body does not test IsSignal() on the loop variable"
	}
	// the branch forwards the variable
	sends := 0
	other := 0
	terminated := false
	for _, s := range is.Body.List {
		switch x := s.(type) {
		case *ast.SendStmt:
			if refersTo(x.Value) {
				sends++
			} else {
				other++
			}
		case *ast.BranchStmt:
			terminated = true
		case *ast.ExprStmt, *ast.IfStmt:
			// e.g. a nested "if dest == mark { jumpers <- t }" is allowed when it only forwards
			ast.Inspect(x, func(n ast.Node) bool {
				if ss, ok := n.(*ast.SendStmt); ok {
					if refersTo(ss.Value) {
						sends++
					} else {
						other++
					}
				}
				return true
			})
		default:
			other++
		}
	}
	if sends == 0 {
		return false, "the IsSignal() branch does not forward the signal"
	}
	if other > 0 {
		return false, "the IsSignal() branch does more than forward the signal"
	}
	if !terminated && is.Else == nil && len(loop.Body.List) > first+1 {
		return false, "after forwarding a signal the loop body goes on with the ordinary processing (no continue / else)"
	}
	return true, ""
}

func refersTo2(info *types.Info, n ast.Node, o types.Object) bool {
	found := false
	ast.Inspect(n, func(x ast.Node) bool {
		if id, ok := x.(*ast.Ident); ok && info.Uses[id] == o {
			found = true
		}
		return true
	})
	return found
}

func c12(p *core.Prog, res *core.Result) {
	res.Explanation = "C12 (structural clauses): M1 signal transparency — every step that may stand between a mark and a jump, and every lookup of the embedded driver, forwards a signal traveler (or a lookup referring to one) as the first thing it does with it, on the same channel as ordinary results, and does nothing else with it; " +
		"M2 counters live on copies — set, increment and the emitting jump write only into travelers whose current element and marks are private copies (BaseTraveler.Copy must copy both); " +
		"M4 inside Jump's signal branch every send to the jump queue is guarded by a comparison of the signal's destination with the jump's own mark (the mark counts returns of its own signals); M5 the second stage of every lookup step either tests IsSignal on the lookup's traveler first or applies only traveler constructors that copy the Signal field; M3 the variables the jump queue shares between its goroutines are guarded (shared with C17); M6 the jump queue is an unbounded buffer — the goroutine that takes travelers off the queue input neither communicates with nor waits for the reader (no send, receive, blocking select, waiting primitive or loop on shared state), and no queue goroutine blocks while holding the mutex the intake needs."
	res.NotDecided = []string{"the termination-detection protocol of JumpMark (signal counting) under all interleavings — a model-checking question over five goroutines", "the position of a forwarded signal relative to rows buffered inside fan-out steps (both, aggregate)", "that no traveler is lost or duplicated while the loop shuts down"}
	res.Rule("M1", "signals are forwarded first and untouched by every loop-body step and lookup", 25)
	res.Rule("M2", "set/increment/emit write only into private copies", 3)
	res.Rule("M3", "jump queue: shared locals guarded", 1)
	res.Rule("M4", "a jump queues only the signals of its own mark", 1)
	res.Rule("M5", "steps that build travelers from lookup results keep the signal", 4)
	res.Rule("M6", "the jump queue's intake never waits for its reader (unbounded buffer)", 2)

	proc := p.Iface("gdbi", "Processor")
	if proc == nil {
		res.Fail("gdbi.Processor not found")
		return
	}
	// start steps cannot stand between a mark and a jump; JumpMark/Jump implement the protocol itself
	exempt := map[string]string{
		"LookupVertsIndex": "start step produced by the optimiser (first statement only)",
		"JumpMark":         "implements the signal protocol (originates signals)",
		"both":             "fans out to sub-steps, which are checked themselves; forwards signals first (checked below)",
	}
	constructed := map[*types.TypeName]bool{}
	for _, pk := range p.Pkgs {
		for _, f := range pk.Syntax {
			ast.Inspect(f, func(x ast.Node) bool {
				if cl, ok := x.(*ast.CompositeLit); ok {
					t := pk.TypesInfo.TypeOf(cl)
					if pt, ok := t.(*types.Pointer); ok {
						t = pt.Elem()
					}
					if nn, ok := types.Unalias(t).(*types.Named); ok {
						constructed[nn.Obj()] = true
					}
				}
				return true
			})
		}
	}
	for _, impl := range p.Implementers(proc) {
		rel := core.RelPkg(impl.Obj().Pkg().Path())
		if !(rel == "engine/core" || rel == "engine/logic") || !constructed[impl.Obj()] {
			continue
		}
		fi := p.Method(impl, "Process")
		if fi == nil || fi.Decl.Body == nil {
			continue
		}
		info := fi.Pkg.TypesInfo
		key := core.FuncKey(fi.Obj)
		res.Fn(key)
		if why, ok := exempt[impl.Obj().Name()]; ok && impl.Obj().Name() != "both" {
			res.OKTrivial("M1", key, p.Pos(fi.Decl.Pos()), "exempt: "+why)
			continue
		}
		// the loop over the step's input parameter
		var inObj types.Object
		if pl := fi.Decl.Type.Params.List; len(pl) > 0 {
			i := 0
			for _, f := range pl {
				for _, nm := range f.Names {
					if i == 2 {
						inObj = info.Defs[nm]
					}
					i++
				}
			}
		}
		var loops []*ast.RangeStmt
		ast.Inspect(fi.Decl.Body, func(n ast.Node) bool {
			if rs, ok := n.(*ast.RangeStmt); ok && defOrUse(info, rs.X) == inObj && inObj != nil {
				loops = append(loops, rs)
			}
			return true
		})
		if len(loops) == 0 {
			res.Unres("M1", key, p.Pos(fi.Decl.Pos()), "no `for t := range in` loop found")
			continue
		}
		for _, l := range loops {
			if ok, why := signalTransparent(info, l); ok {
				res.OK("M1", key, p.Pos(l.Pos()), "signals are forwarded first, untouched")
			} else {
				res.Bad("M1", key, p.Pos(l.Pos()), fmt.Sprintf("%s: %s — a loop's closing signal that passes this step is processed like a row (or dropped), so the mark never sees it return and the traversal never terminates, or the step crashes on a traveler without a current element", key, why))
			}
		}
	}
	// lookups of the embedded driver: loops over the request channel
	gi := p.Iface("gdbi", "GraphInterface")
	for _, impl := range p.Implementers(gi) {
		rel := core.RelPkg(impl.Obj().Pkg().Path())
		if rel != "kvgraph" && !(res.Tier == "thorough" && rel == "grids") {
			continue
		}
		for _, name := range []string{"GetVertexChannel", "GetOutChannel", "GetInChannel", "GetOutEdgeChannel", "GetInEdgeChannel"} {
			fi := p.Method(impl, name)
			if fi == nil || fi.Decl.Body == nil {
				continue
			}
			info := fi.Pkg.TypesInfo
			key := core.FuncKey(fi.Obj)
			res.Fn(key)
			var reqObj types.Object
			i := 0
			for _, f := range fi.Decl.Type.Params.List {
				for _, nm := range f.Names {
					if i == 1 {
						reqObj = info.Defs[nm]
					}
					i++
				}
			}
			found := false
			ast.Inspect(fi.Decl.Body, func(n ast.Node) bool {
				rs, ok := n.(*ast.RangeStmt)
				if !ok || defOrUse(info, rs.X) != reqObj || reqObj == nil {
					return true
				}
				found = true
				if ok, why := signalTransparent(info, rs); ok {
					res.OK("M1", key, p.Pos(rs.Pos()), "signal lookups are forwarded first, in order")
				} else {
					res.Bad("M1", key, p.Pos(rs.Pos()), fmt.Sprintf("%s: %s — a signal lookup is treated as an element request: the loop's closing signal is lost or overtakes the rows before it", key, why))
				}
				return true
			})
			if !found {
				res.Unres("M1", key, p.Pos(fi.Decl.Pos()), "no loop over the request channel found")
			}
		}
	}
	// M4: the jump forwards to its own queue only the signals addressed to its mark
	if jf := p.Func("engine/logic", "Jump.Process"); jf != nil {
		c12jumpSignals(p, res, jf, "M4")
	} else {
		res.Fail("engine/logic.Jump.Process not found")
	}
	// M2
	fresh := map[string]travelerFreshness{}
	for _, name := range []string{"AddCurrent", "AddMark", "Copy"} {
		if fi := p.Func("gdbi", "BaseTraveler."+name); fi != nil {
			fresh[name] = constructorOwnership(p, fi)
		}
	}
	c01writes(p, res, fresh, "M2", []string{"ValueSet", "ValueIncrement"})
	// M5: second stage of lookup steps
	for _, impl := range p.Implementers(proc) {
		rel := core.RelPkg(impl.Obj().Pkg().Path())
		if rel != "engine/core" || !constructed[impl.Obj()] {
			continue
		}
		if fi := p.Method(impl, "Process"); fi != nil && fi.Decl.Body != nil {
			c12lookupStage(p, res, fi, fresh, "M5")
		}
	}
	if jf := p.Func("engine/logic", "Jump.Process"); jf != nil {
		info := jf.Pkg.TypesInfo
		res.Fn(core.FuncKey(jf.Obj))
		emitsCopy, emitsShared := false, false
		ast.Inspect(jf.Decl.Body, func(n ast.Node) bool {
			is, ok := n.(*ast.IfStmt)
			if !ok || !strings.Contains(types.ExprString(is.Cond), "Emit") {
				return true
			}
			for _, s := range is.Body.List {
				if snd, ok := s.(*ast.SendStmt); ok {
					if c, ok := ast.Unparen(snd.Value).(*ast.CallExpr); ok {
						if sel, ok := c.Fun.(*ast.SelectorExpr); ok && sel.Sel.Name == "Copy" {
							emitsCopy = true
							continue
						}
					}
					emitsShared = true
				}
			}
			_ = info
			return true
		})
		tf := fresh["Copy"]
		switch {
		case emitsShared || !emitsCopy:
			res.Bad("M2", "engine/logic.Jump.Process|emit", p.Pos(jf.Decl.Pos()), "Jump emits the traveler itself (not a copy) while the same traveler re-enters the loop: the emitted row changes when the loop increments its counter")
		case !(tf.CurrentFresh && tf.MarksFresh && tf.MarkElemsNew):
			res.Bad("M2", "engine/logic.Jump.Process|emit", p.Pos(jf.Decl.Pos()), fmt.Sprintf("Jump emits t.Copy(), but BaseTraveler.Copy shares part of the traveler with the original (current element private=%v, marks private=%v): the emitted row waiting in the output buffer and the traveler that re-enters the loop share one element, so the row changes after it was emitted", tf.CurrentFresh, tf.MarksFresh && tf.MarkElemsNew))
		default:
			res.OK("M2", "engine/logic.Jump.Process|emit", p.Pos(jf.Decl.Pos()), "emits a copy whose current element and marks are private")
		}
	}
	// M3, M6
	if qf := p.Func("engine/queue", "New"); qf != nil {
		c17captured(p, res, qf, "M3")
		c12queueUnbounded(p, res, qf, "M6")
	} else {
		res.Fail("engine/queue.New not found")
	}
}


// c12jumpSignals: in the IsSignal branch of Jump.Process, sends to the jump
// queue are nested in `if <signal>.Dest == <jump>.Mark`.
func c12jumpSignals(p *core.Prog, res *core.Result, fi *core.FuncInfo, rule string) {
	info := fi.Pkg.TypesInfo
	fkey := core.FuncKey(fi.Obj)
	res.Fn(fkey)
	n := 0
	var walk func(node ast.Node, inSignal bool, guarded bool)
	walk = func(node ast.Node, inSignal bool, guarded bool) {
		ast.Inspect(node, func(x ast.Node) bool {
			if x == node {
				return true
			}
			switch y := x.(type) {
			case *ast.IfStmt:
				sig, g := inSignal, guarded
				isSig := false
				for _, c := range core.CallsIn(y.Cond) {
					if sel, ok := c.Fun.(*ast.SelectorExpr); ok && sel.Sel.Name == "IsSignal" {
						isSig = true
					}
				}
				if isSig {
					if _, neg := ast.Unparen(y.Cond).(*ast.UnaryExpr); !neg {
						sig = true
					}
				}
				if be, ok := ast.Unparen(y.Cond).(*ast.BinaryExpr); ok && be.Op == token.EQL {
					l, r := types.ExprString(be.X), types.ExprString(be.Y)
					if (strings.HasSuffix(l, ".Dest") && strings.HasSuffix(r, ".Mark")) || (strings.HasSuffix(r, ".Dest") && strings.HasSuffix(l, ".Mark")) {
						g = true
					}
				}
				walk(y.Body, sig, g)
				if y.Else != nil {
					walk(y.Else, inSignal, guarded)
				}
				return false
			case *ast.SendStmt:
				if inSignal {
					if t := info.TypeOf(y.Chan); t != nil && strings.Contains(types.ExprString(y.Chan), "jumpers") {
						n++
						key := fmt.Sprintf("%s|signal→queue#%d", fkey, n)
						if guarded {
							res.OK(rule, key, p.Pos(y.Pos()), "queued only when the signal's destination is this jump's mark")
						} else {
							res.Bad(rule, key, p.Pos(y.Pos()), fmt.Sprintf("%s queues a signal at %s without comparing its destination with the jump's own mark: with two loops in one traversal the signals of the first loop circulate in the second, are counted as returns of the second mark's signal, and that mark closes while travelers are still in the cycle (rows lost)", fkey, p.Pos(y.Pos())))
						}
					}
				}
			}
			return true
		})
	}
	walk(fi.Decl.Body, false, false)
	if n == 0 {
		res.Unres(rule, fkey+"|signal→queue", p.Pos(fi.Decl.Pos()), "no send of a signal to the jump queue found")
	}
	// every path through the signal branch also passes the signal on downstream: a mark
	// waits for its signal to come back from *every* jump that targets it, and the jumps
	// further down the pipeline only see what the earlier ones forward
	var outObj types.Object
	i := 0
	for _, f := range fi.Decl.Type.Params.List {
		for _, nm := range f.Names {
			if i == 3 {
				outObj = info.Defs[nm]
			}
			i++
		}
	}
	ast.Inspect(fi.Decl.Body, func(x ast.Node) bool {
		is, ok := x.(*ast.IfStmt)
		if !ok {
			return true
		}
		c, isCall := ast.Unparen(is.Cond).(*ast.CallExpr)
		if !isCall {
			return true
		}
		sel, ok := c.Fun.(*ast.SelectorExpr)
		if !ok || sel.Sel.Name != "IsSignal" {
			return true
		}
		fl := &core.Flow{Info: info, Body: is.Body}
		fl.Events = func(nd ast.Node, st *core.State) ([]string, bool) {
			if snd, ok := nd.(*ast.SendStmt); ok && outObj != nil && defOrUse(info, snd.Chan) == outObj {
				return []string{"fwd"}, false
			}
			return nil, false
		}
		fl.Run()
		missing := token.NoPos
		fl.ExitStates(func(ret *ast.ReturnStmt, st *core.State, b *cfg.Block) {
			if !st.Held["fwd"] && missing == token.NoPos {
				missing = is.Body.End()
				if len(b.Nodes) > 0 {
					missing = b.Nodes[len(b.Nodes)-1].Pos()
				}
			}
		})
		key := fkey + "|signal→downstream"
		if missing != token.NoPos {
			res.Bad(rule, key, p.Pos(missing), fmt.Sprintf("%s: a path through the signal branch (ending near %s) does not send the signal on the step's output: a second jump to the same mark further down never sees it, the mark waits for ever for that jump's return, and the traversal does not terminate", fkey, p.Pos(missing)))
		} else {
			res.OK(rule, key, p.Pos(is.Pos()), "every path through the signal branch forwards the signal downstream")
		}
		return false
	})
}


// c12lookupStage: loops over a channel of gdbi.ElementLookup (the results of a
// driver lookup).  The traveler of a result (its Ref) may be a signal; the loop
// must test IsSignal first or build the outgoing traveler only with
// constructors that copy the Signal field.
func c12lookupStage(p *core.Prog, res *core.Result, fi *core.FuncInfo, fresh map[string]travelerFreshness, rule string) int {
	info := fi.Pkg.TypesInfo
	fkey := core.FuncKey(fi.Obj)
	n := 0
	ast.Inspect(fi.Decl.Body, func(x ast.Node) bool {
		rs, ok := x.(*ast.RangeStmt)
		if !ok {
			return true
		}
		ct, ok := info.TypeOf(rs.X).Underlying().(*types.Chan)
		if !ok {
			return true
		}
		nn, ok := types.Unalias(ct.Elem()).(*types.Named)
		if !ok || nn.Obj().Name() != "ElementLookup" {
			return true
		}
		n++
		res.Fn(fkey)
		key := fmt.Sprintf("%s|lookup results#%d", fkey, n)
		testsSignal := false
		var lossy []string
		ast.Inspect(rs.Body, func(y ast.Node) bool {
			c, ok := y.(*ast.CallExpr)
			if !ok {
				return true
			}
			sel, ok := c.Fun.(*ast.SelectorExpr)
			if !ok {
				return true
			}
			switch sel.Sel.Name {
			case "IsSignal":
				testsSignal = true
			case "AddCurrent", "AddMark", "Copy":
				if tf, ok := fresh[sel.Sel.Name]; ok && !tf.SignalKept {
					lossy = append(lossy, fmt.Sprintf("%s at %s", sel.Sel.Name, p.Pos(c.Pos())))
				}
			}
			return true
		})
		switch {
		case testsSignal:
			res.OK(rule, key, p.Pos(rs.Pos()), "tests IsSignal on the result's traveler")
		case len(lossy) == 0:
			res.OK(rule, key, p.Pos(rs.Pos()), "builds the outgoing traveler only with constructors that copy the Signal field")
		default:
			res.Bad(rule, key, p.Pos(rs.Pos()), fmt.Sprintf("%s: the results of the lookup include the loop's signal travelers; the loop at %s neither tests IsSignal nor preserves the signal (%s does not copy the Signal field of gdbi.BaseTraveler): a signal passing this step becomes an ordinary null row, the mark never sees it return, and the traversal does not terminate", fkey, p.Pos(rs.Pos()), strings.Join(lossy, ", ")))
		}
		return true
	})
	return n
}

// c12waitingCallee names the library calls that make a goroutine wait for another one.
var c12waitingCallee = map[string]string{
	"(*sync.Cond).Wait":      "waits on a condition variable",
	"(*sync.WaitGroup).Wait": "waits for other goroutines",
	"time.Sleep":             "sleeps",
	"runtime.Gosched":        "yields in a polling loop",
	"time.After":             "waits on a timer",
	"time.Tick":              "waits on a ticker",
}

// c12blockingOps lists, for one CFG node, the operations that can block on
// another goroutine: channel sends and receives, selects without a default
// arm, and the waiting library calls.  Function literals are not entered.
func c12blockingOps(info *types.Info, n ast.Node, chanRanges map[ast.Expr]bool) []string {
	var out []string
	if e, ok := n.(ast.Expr); ok && chanRanges[e] {
		out = append(out, "receives from "+types.ExprString(e)+" (range)")
	}
	ast.Inspect(n, func(x ast.Node) bool {
		switch s := x.(type) {
		case *ast.FuncLit:
			return false
		case *ast.SendStmt:
			out = append(out, "sends on "+types.ExprString(s.Chan))
		case *ast.UnaryExpr:
			if s.Op == token.ARROW {
				out = append(out, "receives from "+types.ExprString(s.X))
			}
		case *ast.SelectStmt:
			hasDefault := false
			for _, c := range s.Body.List {
				if cc, ok := c.(*ast.CommClause); ok && cc.Comm == nil {
					hasDefault = true
				}
			}
			if hasDefault {
				// non-blocking poll: the arms' communications do not wait; their bodies are separate nodes
				return false
			}
			out = append(out, "select without default")
			return false
		case *ast.CallExpr:
			if fn := core.CalleeFunc(info, s); fn != nil {
				if why, ok := c12waitingCallee[fn.FullName()]; ok {
					out = append(out, fn.FullName()+" "+why)
				}
			}
		}
		return true
	})
	return out
}

// c12queueUnbounded (M6): the jump queue decouples the jump from the mark only
// if its intake accepts every traveler without waiting for the reader.  In the
// constructor of the queue:
//   - the goroutine that ranges over the input channel performs no channel
//     communication other than that range, calls no waiting primitive, and has
//     no loop whose condition depends on state outside the goroutine (a wait
//     loop on the reader's progress);
//   - no goroutine performs a blocking operation while it holds a mutex (the
//     intake needs the mutex to append, so a reader blocked on its bounded
//     output while holding it stalls the intake).
func c12queueUnbounded(p *core.Prog, res *core.Result, fi *core.FuncInfo, rule string) {
	info := fi.Pkg.TypesInfo
	fkey := core.FuncKey(fi.Obj)
	res.Fn(fkey)
	lits := goroutineLits(fi.Decl.Body)
	chanRanges := map[ast.Expr]bool{}
	// channels some code of the constructor sends on (or closes) are internal
	// hand-overs between its goroutines, not the queue's input
	internal := map[string]bool{}
	ast.Inspect(fi.Decl.Body, func(x ast.Node) bool {
		if s, ok := x.(*ast.SendStmt); ok {
			internal[types.ExprString(s.Chan)] = true
		}
		return true
	})
	var intake []*ast.FuncLit
	intakeLoop := map[*ast.FuncLit]*ast.RangeStmt{}
	for _, l := range lits {
		ast.Inspect(l.Body, func(x ast.Node) bool {
			if fl, ok := x.(*ast.FuncLit); ok && fl != l {
				return false
			}
			if rs, ok := x.(*ast.RangeStmt); ok {
				if t := info.TypeOf(rs.X); t != nil && isChanType(t) && !internal[types.ExprString(rs.X)] {
					if intakeLoop[l] == nil {
						intakeLoop[l] = rs
						intake = append(intake, l)
					} else {
						chanRanges[rs.X] = true // a second channel range in the same goroutine is a wait
					}
				}
			}
			return true
		})
	}
	if len(intake) == 0 {
		res.Unres(rule, fkey+"|intake", p.Pos(fi.Decl.Pos()), "no goroutine ranging over the queue's input channel found: cannot tell whether the queue accepts travelers without waiting for its reader")
		return
	}
	for i, l := range intake {
		key := fmt.Sprintf("%s|intake#%d", fkey, i+1)
		var probs []string
		loop := intakeLoop[l]
		// communications and waiting calls anywhere in the intake goroutine
		var visit func(n ast.Node)
		visit = func(n ast.Node) {
			ast.Inspect(n, func(x ast.Node) bool {
				switch s := x.(type) {
				case *ast.FuncLit:
					return s == l
				case *ast.RangeStmt:
					if s != loop {
						if t := info.TypeOf(s.X); t != nil && isChanType(t) {
							probs = append(probs, fmt.Sprintf("%s: receives from %s (range)", p.Pos(s.Pos()), types.ExprString(s.X)))
						}
					}
				case *ast.ForStmt:
					if why := c12waitLoop(info, l, s); why != "" {
						probs = append(probs, fmt.Sprintf("%s: %s", p.Pos(s.Pos()), why))
					}
				case *ast.CallExpr:
					if fn := core.CalleeFunc(info, s); fn != nil {
						if why, ok := c12waitingCallee[fn.FullName()]; ok {
							probs = append(probs, fmt.Sprintf("%s: %s %s", p.Pos(s.Pos()), fn.FullName(), why))
						}
					}
				case *ast.SendStmt:
					probs = append(probs, fmt.Sprintf("%s: sends on %s", p.Pos(s.Pos()), types.ExprString(s.Chan)))
				case *ast.UnaryExpr:
					if s.Op == token.ARROW {
						probs = append(probs, fmt.Sprintf("%s: receives from %s", p.Pos(s.Pos()), types.ExprString(s.X)))
					}
				case *ast.SelectStmt:
					hasDefault := false
					for _, c := range s.Body.List {
						if cc, ok := c.(*ast.CommClause); ok && cc.Comm == nil {
							hasDefault = true
						}
					}
					if !hasDefault {
						probs = append(probs, fmt.Sprintf("%s: select without default", p.Pos(s.Pos())))
					}
					// the arms' communications are part of the select; their bodies are ordinary code
					for _, c := range s.Body.List {
						if cc, ok := c.(*ast.CommClause); ok {
							for _, b := range cc.Body {
								visit(b)
							}
						}
					}
					return false
				}
				return true
			})
		}
		visit(l.Body)
		if len(probs) > 0 {
			res.Bad(rule, key, p.Pos(loop.Pos()), fmt.Sprintf("the goroutine that takes travelers off %s can wait for the reader of the queue (%s): the queue is no longer unbounded, so when more travelers go round the loop than the channel buffers of the cycle hold, Jump blocks on the queue input, the loop body backs up, the mark blocks on its output and never reads the queue again — the traversal hangs", types.ExprString(loop.X), strings.Join(probs, "; ")), probs...)
		} else {
			res.OK(rule, key, p.Pos(loop.Pos()), "intake accepts every traveler without communicating with or waiting for the reader")
		}
	}
	// no blocking operation under a mutex, in any goroutine of the constructor
	for i, l := range lits {
		key := fmt.Sprintf("%s|locked#%d", fkey, i+1)
		var probs []string
		fl := &core.Flow{Prog: p, Info: info, Body: l.Body}
		fl.Events = func(n ast.Node, st *core.State) ([]string, bool) {
			if _, ok := n.(*ast.DeferStmt); ok {
				return nil, false
			}
			var ev []string
			for _, c := range core.CallsIn(n) {
				if sel, ok := c.Fun.(*ast.SelectorExpr); ok {
					switch sel.Sel.Name {
					case "Lock", "RLock":
						ev = append(ev, "lock:"+types.ExprString(sel.X))
					case "Unlock", "RUnlock":
						ev = append(ev, "-lock:"+types.ExprString(sel.X))
					}
				}
			}
			return ev, false
		}
		fl.Run()
		cr := map[ast.Expr]bool{}
		ast.Inspect(l.Body, func(x ast.Node) bool {
			if rs, ok := x.(*ast.RangeStmt); ok {
				if t := info.TypeOf(rs.X); t != nil && isChanType(t) {
					cr[rs.X] = true
				}
			}
			return true
		})
		seen := map[string]bool{}
		fl.Walk(func(n ast.Node, st *core.State, b *cfg.Block) {
			var held []string
			for h := range st.Held {
				if strings.HasPrefix(h, "lock:") {
					held = append(held, strings.TrimPrefix(h, "lock:"))
				}
			}
			if len(held) == 0 {
				return
			}
			if _, ok := n.(*ast.DeferStmt); ok {
				return
			}
			for _, o := range c12blockingOps(info, n, cr) {
				m := fmt.Sprintf("%s: %s while holding %s", p.Pos(n.Pos()), o, strings.Join(held, ","))
				if !seen[m] {
					seen[m] = true
					probs = append(probs, m)
				}
			}
		})
		if len(probs) > 0 {
			res.Bad(rule, key, p.Pos(l.Pos()), fmt.Sprintf("a goroutine of the queue blocks on another goroutine while it holds the queue's mutex (%s): the intake needs that mutex to append, so it stalls exactly when the reader cannot deliver — the queue stops being an unbounded buffer and the mark/jump cycle can deadlock with travelers in flight", strings.Join(probs, "; ")), probs...)
		} else {
			res.OK(rule, key, p.Pos(l.Pos()), "no blocking operation while a mutex is held")
		}
	}
}

// c12waitLoop reports why a for statement inside the intake goroutine lit is a
// wait loop: it has no condition, or its condition reads anything that is not
// a variable declared inside the goroutine (shared state or a call).
func c12waitLoop(info *types.Info, lit *ast.FuncLit, fs *ast.ForStmt) string {
	if fs.Cond == nil {
		hasExit := false
		ast.Inspect(fs.Body, func(x ast.Node) bool {
			switch x.(type) {
			case *ast.FuncLit:
				return false
			case *ast.BranchStmt, *ast.ReturnStmt:
				hasExit = true
			}
			return true
		})
		if !hasExit {
			return "endless loop in the intake"
		}
	}
	why := ""
	check := func(e ast.Expr) {
		if e == nil {
			return
		}
		ast.Inspect(e, func(x ast.Node) bool {
			switch s := x.(type) {
			case *ast.CallExpr:
				if id, ok := s.Fun.(*ast.Ident); ok {
					if _, isB := info.Uses[id].(*types.Builtin); isB {
						return true // len/cap of a variable: judged by the variable
					}
				}
				why = "loop condition calls " + types.ExprString(s.Fun)
			case *ast.Ident:
				if v, ok := info.Uses[s].(*types.Var); ok {
					if v.Pos() < lit.Pos() || v.Pos() > lit.End() {
						why = "loop waits on " + s.Name + ", which lives outside the intake goroutine (`for " + types.ExprString(e) + "`)"
					}
				}
			}
			return true
		})
	}
	check(fs.Cond)
	if why == "" && fs.Cond == nil {
		// exits decided inside the body: look at the conditions guarding them
		ast.Inspect(fs.Body, func(x ast.Node) bool {
			if is, ok := x.(*ast.IfStmt); ok {
				esc := false
				ast.Inspect(is.Body, func(y ast.Node) bool {
					switch y.(type) {
					case *ast.BranchStmt, *ast.ReturnStmt:
						esc = true
					}
					return true
				})
				if esc {
					check(is.Cond)
				}
			}
			return true
		})
	}
	return why
}

func c12selftest(st *core.Prog, res *core.Result) {
	pk := st.Pkg(core.SelfMod + "/c12")
	if pk == nil {
		res.Fail("C12 self-test package did not load")
		return
	}
	n := 0
	for _, fi := range st.AllDecls() {
		if fi.Pkg != pk || fi.Decl.Recv != nil {
			continue
		}
		name := fi.Obj.Name()
		var want core.Status
		switch {
		case strings.HasPrefix(name, "Ok"):
			want = core.Discharged
		case strings.HasPrefix(name, "Bad"):
			want = core.Violated
		default:
			continue
		}
		tmp := core.NewResult("C12", "self")
		c12queueUnbounded(st, tmp, fi, "M6")
		got := core.Discharged
		for _, o := range tmp.Obls {
			if o.Status != core.Discharged {
				got = core.Violated
			}
		}
		n++
		if got != want {
			res.Fail("self-test %s: M6 gave %s, expected %s", name, got, want)
		} else {
			res.OKTrivial("SELF", "selftest|c12."+name, "-", "M6 gives "+string(got)+" as expected")
		}
	}
	if n < 6 {
		res.Fail("C12 self-test: only %d examples found", n)
	}
}
