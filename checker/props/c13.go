package props

import (
	"strings"

	"gripverif/core"
)

func init() {
	Registry["C13"] = c13
	SelfTests["C13"] = c13selftest
}

// c13Exceptions: channels whose missing close is justified, with the reason.
var c13Exceptions = map[string]string{
	"gripper.copyPipeline|out": "the only consumer is ChannelMux.runMux, which takes exactly one value per Put (`<-m.outputs[n]`) and never ranges over the pipeline output; nothing waits for its close",
}

type c13Target struct {
	rel, fn string
	outs    []string
	ins     []string
}

var c13Targets = []c13Target{
	{"jobstorage", "MarshalStream", []string{"out"}, []string{"inPipe"}},
	{"jobstorage", "UnmarshalStream", []string{"out"}, []string{"inPipe"}},
	{"gdbi", "DualProcessor", []string{"out"}, []string{"reqChan"}},
	{"gdbi", "LookupBatcher", []string{"out"}, []string{"req"}},
	{"engine/queue", "New", []string{"o.output"}, []string{"o.input"}},
	{"gripper", "runMux", []string{"m.outChannel"}, []string{"m.messageOrder"}},
	{"gripper", "copyPipeline", []string{"out"}, []string{"in"}},
}

func c13(p *core.Prog, res *core.Result) {
	res.Explanation = "C13 (structural clause: 'closes its output exactly when its input is exhausted'): every internal fan-out/fan-in combinator is viewed as a network of processes (the function body and each goroutine literal, " +
		"goroutine parameters bound to the channels they are started with); for every channel it creates and consumes, and for its output: the channel is closed exactly once, by one process, on every exit of that process " +
		"(deferred close, close after the loops, or a closing loop over a channel family), every other producer is joined before the close, every input is ranged to exhaustion by exactly one process with no early exit, " +
		"and every channel has a single consumer (FIFO per worker channel)."
	res.NotDecided = []string{"order and multiplicity of items under arbitrary worker latency (a model-checking question)", "round-robin distribution/merge arithmetic"}
	res.Rule("S1", "combinator channels: closed once on every exit by their (joined) producers; inputs drained by one process; single consumer", 20)
	for _, t := range c13Targets {
		fi := p.Func(t.rel, t.fn)
		if fi == nil || fi.Decl.Body == nil {
			res.Fail("%s.%s not found", t.rel, t.fn)
			continue
		}
		net := buildProcNet(p, fi)
		tmp := core.NewResult("C13", "tmp")
		checkNet(p, tmp, net, "S1", t.outs, t.ins)
		for _, o := range tmp.Obls {
			k := strings.TrimPrefix(o.Key, "S1|")
			if why, ok := c13Exceptions[k]; ok && o.Status == core.Violated {
				o.Status = core.Discharged
				o.Trivial = true
				o.Note = "exception: " + why
			}
			res.Obls = append(res.Obls, o)
		}
		for f := range tmp.Functions {
			res.Fn(f)
		}
	}
}

func c13selftest(st *core.Prog, res *core.Result) {
	rel := core.SelfMod + "/c13"
	pk := st.Pkg(rel)
	if pk == nil {
		res.Fail("C13 self-test package did not load")
		return
	}
	for _, fi := range st.AllDecls() {
		if fi.Pkg != pk {
			continue
		}
		name := fi.Obj.Name()
		var want core.Status
		switch {
		case strings.HasPrefix(name, "Ok"):
			want = core.Discharged
		case strings.HasPrefix(name, "Bad"):
			want = core.Violated
		default:
			continue
		}
		tmp := core.NewResult("C13", "self")
		checkNet(st, tmp, buildProcNet(st, fi), "S1", []string{"out"}, []string{"in"})
		got := core.Discharged
		for _, o := range tmp.Obls {
			if o.Status == core.Violated {
				got = core.Violated
			}
		}
		if got != want {
			res.Fail("self-test %s: process-network rules gave %s, expected %s", name, got, want)
		} else {
			res.OKTrivial("SELF", "selftest|c13."+name, "-", "process-network rules give "+string(got)+" as expected")
		}
	}
}
