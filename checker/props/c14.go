package props

import (
	"fmt"
	"go/ast"
	"go/constant"
	"go/token"
	"go/types"
	"sort"
	"strings"

	"gripverif/core"

	"golang.org/x/tools/go/cfg"
)

func init() {
	Registry["C14"] = c14
	SelfTests["C14"] = c14selftest
}

// ---------------------------------------------------------------------------
// Y1: typing transfer tables (A10).  Both compilers are folds over the
// statement list of a per-statement transfer (input type, mark type) ->
// {reject} ∪ {accept with result type [and mark update]}.  The transfer of one
// arm is computed by specialising its control-flow graph on the input type and
// collecting the feasible exits; guards the checker cannot evaluate (list
// lengths, name validity) stay open, so an arm yields a set of outcomes.

type c14compiler struct {
	name     string
	fi       *core.FuncInfo
	arms     map[string]*ast.CaseClause
	isType   func(e ast.Expr) bool
	isMarks  func(e ast.Expr) bool
	validate bool            // Compile runs core.Validate (first statement must be V/E) before the fold
	first    map[string]bool // kinds Validate allows first
}

func c14dataTypes(p *core.Prog) (names []string, byName map[string]constant.Value, dt types.Type) {
	pk := p.Pkg("gdbi")
	if pk == nil {
		return
	}
	byName = map[string]constant.Value{}
	tn, _ := pk.Types.Scope().Lookup("DataType").(*types.TypeName)
	if tn == nil {
		return
	}
	dt = tn.Type()
	for _, n := range pk.Types.Scope().Names() {
		if c, ok := pk.Types.Scope().Lookup(n).(*types.Const); ok && types.Identical(c.Type(), dt) {
			byName[n] = c.Val()
			names = append(names, n)
		}
	}
	sort.Strings(names)
	return
}

// c14transfer computes the outcome set of one arm for input type T and mark
// type Mt: a path exploration of the arm's control-flow graph whose state is
// (block, current type, marks written); branch conditions that evaluate under
// the specialisation are followed one way, the others both ways.
func c14transfer(p *core.Prog, c *c14compiler, cc *ast.CaseClause, names []string, byName map[string]constant.Value, T, Mt string) map[string]string {
	info := c.fi.Pkg.TypesInfo
	sig := c.fi.Obj.Type().(*types.Signature)
	body := &ast.BlockStmt{List: cc.Body}
	g := cfg.New(body, func(call *ast.CallExpr) bool { return true })
	// tag of the switch a case expression belongs to
	tagOf := map[ast.Expr]ast.Expr{}
	ast.Inspect(body, func(n ast.Node) bool {
		if s, ok := n.(*ast.SwitchStmt); ok && s.Tag != nil {
			for _, c := range s.Body.List {
				for _, e := range c.(*ast.CaseClause).List {
					tagOf[e] = s.Tag
				}
			}
		}
		return true
	})
	curT, mset := T, false
	fl := &core.Flow{Prog: p, Info: info, Body: body}
	fl.Const = func(e ast.Expr, st *core.State) (constant.Value, bool) {
		e = ast.Unparen(e)
		if c.isType(e) {
			if v, ok := byName[curT]; ok {
				return v, true
			}
			return nil, false
		}
		if ix, ok := e.(*ast.IndexExpr); ok && c.isMarks(ix.X) && !mset {
			return byName[Mt], true
		}
		return nil, false
	}
	empty := &core.State{Held: map[string]bool{}, Pend: map[types.Object]map[string]bool{}, NonNil: map[types.Object]bool{}, IsNil: map[types.Object]bool{}, Consts: map[types.Object]constant.Value{}}
	nameOf := func(v constant.Value) string {
		for _, n := range names {
			if constant.Compare(byName[n], token.EQL, v) {
				return n
			}
		}
		return "?"
	}
	type pst struct {
		b *cfg.Block
		t string
		m bool
	}
	out := map[string]string{}
	seen := map[pst]bool{}
	if len(g.Blocks) == 0 {
		return out
	}
	work := []pst{{g.Blocks[0], T, false}}
	record := func(key string, pos token.Pos) {
		if _, ok := out[key]; !ok {
			out[key] = p.Pos(pos)
		}
	}
	accept := func(t string, m bool, pos token.Pos) {
		key := "accept→" + t
		if m {
			key += "+mark"
		}
		record(key, pos)
	}
	for len(work) > 0 {
		s := work[len(work)-1]
		work = work[:len(work)-1]
		if seen[s] {
			continue
		}
		seen[s] = true
		curT, mset = s.t, s.m
		returned := false
		var last ast.Node
		for _, n := range s.b.Nodes {
			last = n
			switch x := n.(type) {
			case *ast.AssignStmt:
				if len(x.Lhs) == len(x.Rhs) {
					for i, l := range x.Lhs {
						l = ast.Unparen(l)
						if c.isType(l) {
							if v, ok := fl.Eval(x.Rhs[i], empty); ok {
								curT = nameOf(v)
							} else {
								curT = "?"
							}
						}
						if ix, ok := l.(*ast.IndexExpr); ok && c.isMarks(ix.X) {
							mset = true
						}
					}
				}
			case *ast.ReturnStmt:
				returned = true
				switch {
				case len(x.Results) == 0:
					accept(curT, mset, cc.End()) // go/cfg's explicit fall-off-the-end
				case len(x.Results) != sig.Results().Len():
					record("delegates", x.Pos())
				default:
					e := ast.Unparen(x.Results[len(x.Results)-1])
					if id, ok := e.(*ast.Ident); ok && id.Name == "nil" {
						accept(curT, mset, x.Pos())
					} else {
						record("reject", x.Pos())
					}
				}
			}
			if returned {
				break
			}
		}
		if returned {
			continue
		}
		if len(s.b.Succs) == 0 {
			accept(curT, mset, cc.End())
			continue
		}
		if len(s.b.Succs) == 2 {
			if e, ok := last.(ast.Expr); ok {
				var v constant.Value
				known := false
				if tag, isCase := tagOf[e]; isCase {
					a, ok1 := fl.Eval(tag, empty)
					b, ok2 := fl.Eval(e, empty)
					if ok1 && ok2 && a.Kind() == b.Kind() {
						v, known = constant.MakeBool(constant.Compare(a, token.EQL, b)), true
					}
				} else if bv, ok := fl.Eval(e, empty); ok && bv.Kind() == constant.Bool {
					v, known = bv, true
				}
				if known {
					if constant.BoolVal(v) {
						work = append(work, pst{s.b.Succs[0], curT, mset})
					} else {
						work = append(work, pst{s.b.Succs[1], curT, mset})
					}
					continue
				}
			}
		}
		for _, nb := range s.b.Succs {
			work = append(work, pst{nb, curT, mset})
		}
	}
	return out
}

func outcomeSet(m map[string]string) string {
	var ks []string
	for k := range m {
		ks = append(ks, k)
	}
	sort.Strings(ks)
	return "{" + strings.Join(ks, ", ") + "}"
}

// c14validated: Compile runs a checked core.Validate before it starts folding.
func c14validated(p *core.Prog, fi *core.FuncInfo) bool {
	info := fi.Pkg.TypesInfo
	fl := &core.Flow{Prog: p, Info: info, Body: fi.Decl.Body}
	isValidate := func(c *ast.CallExpr) bool {
		fn := core.CalleeFunc(info, c)
		return fn != nil && fn.Name() == "Validate" && fn.Pkg() != nil && strings.HasSuffix(fn.Pkg().Path(), "engine/core")
	}
	fl.Events = func(n ast.Node, st *core.State) ([]string, bool) {
		for _, c := range core.CallsIn(n) {
			if isValidate(c) {
				return []string{"validated"}, true
			}
		}
		return nil, false
	}
	fl.Run()
	// the fold: the (last) type switch over the statement kinds, or the call of StatementProcessor
	var lo, hi token.Pos
	ast.Inspect(fi.Decl.Body, func(x ast.Node) bool {
		switch y := x.(type) {
		case *ast.TypeSwitchStmt:
			if cs, _, f := typeSwitchCases(info, y, "isGraphStatement_Statement"); f == y && len(cs) > 5 {
				lo, hi = y.Pos(), y.End()
			}
		case *ast.CallExpr:
			if fn := core.CalleeFunc(info, y); fn != nil && fn.Name() == "StatementProcessor" {
				lo, hi = y.Pos(), y.End()
			}
		}
		return true
	})
	if lo == token.NoPos {
		return false
	}
	ok, seen := true, false
	fl.Walk(func(n ast.Node, st *core.State, b *cfg.Block) {
		if n.Pos() >= lo && n.End() <= hi || n.Pos() <= lo && n.End() >= hi {
			seen = true
			if !st.Held["validated"] {
				ok = false
			}
		}
	})
	return ok && seen
}

// c14firstKinds: the statement kinds core.Validate allows in first position.
func c14firstKinds(p *core.Prog) map[string]bool {
	fi := p.Func("engine/core", "Validate")
	if fi == nil {
		return nil
	}
	cases, _, _ := typeSwitchCases(fi.Pkg.TypesInfo, fi.Decl.Body, "isGraphStatement_Statement")
	out := map[string]bool{}
	for k, cc := range cases {
		if len(cc.Body) == 0 {
			out[k] = true
		}
	}
	return out
}

func c14typing(p *core.Prog, res *core.Result) {
	names, byName, dt := c14dataTypes(p)
	if len(names) < 6 || dt == nil {
		res.Fail("gdbi.DataType constants not found")
		return
	}
	coreFi := p.Func("engine/core", "StatementProcessor")
	coreCompile := p.Func("engine/core", "DefaultCompiler.Compile")
	mongoFi := p.Func("mongo", "Compiler.Compile")
	if coreFi == nil || mongoFi == nil || coreCompile == nil {
		res.Fail("compilers not found")
		return
	}
	mk := func(name string, fi *core.FuncInfo, compile *core.FuncInfo) *c14compiler {
		info := fi.Pkg.TypesInfo
		c := &c14compiler{name: name, fi: fi}
		// the statement switch: the last type switch on the statement oneof in the function
		var sw *ast.TypeSwitchStmt
		ast.Inspect(fi.Decl.Body, func(x ast.Node) bool {
			if ts, ok := x.(*ast.TypeSwitchStmt); ok {
				if cs, _, f := typeSwitchCases(info, ts, "isGraphStatement_Statement"); f == ts && len(cs) > 5 {
					sw = ts
					c.arms = cs
				}
			}
			return true
		})
		_ = sw
		isDT := func(e ast.Expr) bool {
			t := info.TypeOf(e)
			return t != nil && types.Identical(t, dt)
		}
		c.isType = func(e ast.Expr) bool {
			switch x := e.(type) {
			case *ast.Ident:
				v, ok := info.Uses[x].(*types.Var)
				if !ok {
					v, ok = info.Defs[x].(*types.Var)
				}
				return ok && !v.IsField() && isDT(x) && v.Pkg() == fi.Pkg.Types && v.Parent() != fi.Pkg.Types.Scope()
			case *ast.SelectorExpr:
				if s := info.Selections[x]; s != nil && s.Kind() == types.FieldVal && x.Sel.Name == "LastType" {
					return isDT(x)
				}
			}
			return false
		}
		c.isMarks = func(e ast.Expr) bool {
			t := info.TypeOf(e)
			if t == nil {
				return false
			}
			m, ok := t.Underlying().(*types.Map)
			return ok && types.Identical(m.Elem(), dt)
		}
		c.validate = c14validated(p, compile)
		c.first = c14firstKinds(p)
		return c
	}
	cc := mk("core", coreFi, coreCompile)
	mc := mk("mongo", mongoFi, mongoFi)
	if len(cc.arms) < 25 || len(mc.arms) < 20 {
		res.Fail("statement switches not recognised (core %d arms, mongo %d arms)", len(cc.arms), len(mc.arms))
		return
	}
	res.Fn(core.FuncKey(coreFi.Obj))
	res.Fn(core.FuncKey(mongoFi.Obj))
	res.Extra["core_validates_first_statement"] = cc.validate
	res.Extra["mongo_validates_first_statement"] = mc.validate
	// mark types that can exist: the types at which core accepts as()
	markTypes := []string{}
	if as := cc.arms["GraphStatement_As"]; as != nil {
		for _, T := range names {
			o := c14transfer(p, cc, as, names, byName, T, "NoData")
			for k := range o {
				if strings.HasPrefix(k, "accept") {
					markTypes = append(markTypes, T)
					break
				}
			}
		}
	}
	if len(markTypes) == 0 {
		res.Fail("no type at which core accepts as()")
		return
	}
	// kinds the mongo compiler hands to the core compiler wholesale
	delegated := map[string]bool{}
	ast.Inspect(mongoFi.Decl.Body, func(x ast.Node) bool {
		ts, ok := x.(*ast.TypeSwitchStmt)
		if !ok {
			return true
		}
		cs, _, f := typeSwitchCases(mongoFi.Pkg.TypesInfo, ts, "isGraphStatement_Statement")
		if f == ts && len(cs) <= 5 {
			for k := range cs {
				delegated[k] = true
			}
		}
		return true
	})
	var kinds []string
	for k := range mc.arms {
		kinds = append(kinds, k)
	}
	sort.Strings(kinds)
	effective := func(c *c14compiler, kind string, cl *ast.CaseClause, T, Mt string) map[string]string {
		if T == "NoData" && c.validate && !c.first[kind] {
			return map[string]string{"reject": "core.Validate (first statement must be V or E)"}
		}
		return c14transfer(p, c, cl, names, byName, T, Mt)
	}
	// reachable typing states under the core transfers (the induction hypothesis is that the
	// Mongo state equals the core state, so only states the core compiler can reach matter):
	// R = types reachable from NoData, succ = reachability between types, and a mark of
	// type Mt can be read at type T only if as() is accepted at Mt and T is reachable from Mt
	usesMarksOf := func(kind string) bool {
		u := false
		for _, cl := range []*ast.CaseClause{mc.arms[kind], cc.arms[kind]} {
			if cl == nil {
				continue
			}
			cm := mc
			if cl == cc.arms[kind] {
				cm = cc
			}
			ast.Inspect(cl, func(x ast.Node) bool {
				if ix, ok := x.(*ast.IndexExpr); ok && cm.isMarks(ix.X) {
					u = true
				}
				return true
			})
		}
		return u
	}
	isMarkable := map[string]bool{}
	for _, t := range markTypes {
		isMarkable[t] = true
	}
	R := map[string]bool{"NoData": true}
	succ := map[string]map[string]bool{}
	reaches := func(a, b string) bool {
		if a == b {
			return true
		}
		seen := map[string]bool{a: true}
		work := []string{a}
		for len(work) > 0 {
			x := work[0]
			work = work[1:]
			for y := range succ[x] {
				if y == b {
					return true
				}
				if !seen[y] {
					seen[y] = true
					work = append(work, y)
				}
			}
		}
		return false
	}
	feasibleMt := func(T string) []string {
		var out []string
		for _, mt := range names {
			if R[mt] && isMarkable[mt] && reaches(mt, T) {
				out = append(out, mt)
			}
		}
		return out
	}
	for changed := true; changed; {
		changed = false
		for _, T := range names {
			if !R[T] {
				continue
			}
			for _, kind := range kinds {
				ca := cc.arms[kind]
				if ca == nil {
					continue
				}
				mts := []string{"NoData"}
				if usesMarksOf(kind) {
					mts = feasibleMt(T)
				}
				for _, Mt := range mts {
					for k := range effective(cc, kind, ca, T, Mt) {
						if !strings.HasPrefix(k, "accept→") {
							continue
						}
						t2 := strings.TrimSuffix(strings.TrimPrefix(k, "accept→"), "+mark")
						if _, ok := byName[t2]; !ok {
							continue
						}
						if succ[T] == nil {
							succ[T] = map[string]bool{}
						}
						if !succ[T][t2] {
							succ[T][t2] = true
							changed = true
						}
						if !R[t2] {
							R[t2] = true
							changed = true
						}
					}
				}
			}
		}
	}
	var reach []string
	for _, n := range names {
		if R[n] {
			reach = append(reach, n)
		}
	}
	res.Extra["reachable_types"] = reach
	for _, kind := range kinds {
		name := strings.TrimPrefix(kind, "GraphStatement_")
		key := "transfer|" + name
		ca := cc.arms[kind]
		if ca == nil {
			res.Bad("Y1", key, p.Pos(mc.arms[kind].Pos()), fmt.Sprintf("the Mongo compiler has an arm for statement kind %s but core.StatementProcessor has none: the two compilers accept different traversals", name))
			continue
		}
		var diffs []string
		cells := 0
		usesMarks := false
		ast.Inspect(mc.arms[kind], func(x ast.Node) bool {
			if ix, ok := x.(*ast.IndexExpr); ok && mc.isMarks(ix.X) {
				usesMarks = true
			}
			return true
		})
		ast.Inspect(ca, func(x ast.Node) bool {
			if ix, ok := x.(*ast.IndexExpr); ok && cc.isMarks(ix.X) {
				usesMarks = true
			}
			return true
		})
		for _, T := range names {
			if !R[T] {
				continue
			}
			mts := []string{"NoData"}
			if usesMarks {
				mts = feasibleMt(T)
			}
			for _, Mt := range mts {
				cells++
				co := effective(cc, kind, ca, T, Mt)
				mo := effective(mc, kind, mc.arms[kind], T, Mt)
				if outcomeSet(co) != outcomeSet(mo) {
					where := ""
					for k, pos := range co {
						if _, ok := mo[k]; !ok {
							where = fmt.Sprintf(" (core: %s at %s)", k, pos)
						}
					}
					for k, pos := range mo {
						if _, ok := co[k]; !ok {
							where += fmt.Sprintf(" (mongo: %s at %s)", k, pos)
						}
					}
					in := T
					if usesMarks {
						in += ", mark type " + Mt
					}
					diffs = append(diffs, fmt.Sprintf("on input type %s core gives %s, mongo gives %s%s", in, outcomeSet(co), outcomeSet(mo), where))
				}
			}
		}
		if len(diffs) > 0 {
			more := ""
			if len(diffs) > 3 {
				more = fmt.Sprintf(" … and %d more cells", len(diffs)-3)
				diffs = diffs[:3]
			}
			res.Bad("Y1", key, p.Pos(mc.arms[kind].Pos()), fmt.Sprintf("%s: the typing transfer of the Mongo compiler differs from the core compiler: %s%s", name, strings.Join(diffs, "; "), more))
		} else {
			res.OK("Y1", key, p.Pos(mc.arms[kind].Pos()), fmt.Sprintf("same outcome set (reject / accept→type / mark update) as core on all %d (input type, mark type) cells", cells))
		}
	}
	for k := range delegated {
		res.OKTrivial("Y1", "transfer|"+strings.TrimPrefix(k, "GraphStatement_"), p.Pos(mongoFi.Decl.Pos()), "the Mongo compiler hands traversals containing this statement to the core compiler")
	}
}

// ---------------------------------------------------------------------------
// Y2: polarity; Y3: operator dictionary and range lowering.

// evalBool evaluates a Boolean expression over one Boolean variable.
func evalBool1(info *types.Info, e ast.Expr, v types.Object, val bool) (bool, bool) {
	e = ast.Unparen(e)
	switch x := e.(type) {
	case *ast.Ident:
		if info.Uses[x] == v {
			return val, true
		}
		if tv, ok := info.Types[x]; ok && tv.Value != nil && tv.Value.Kind() == constant.Bool {
			return constant.BoolVal(tv.Value), true
		}
	case *ast.UnaryExpr:
		if x.Op == token.NOT {
			b, ok := evalBool1(info, x.X, v, val)
			return !b, ok
		}
	case *ast.BinaryExpr:
		a, ok1 := evalBool1(info, x.X, v, val)
		b, ok2 := evalBool1(info, x.Y, v, val)
		if ok1 && ok2 {
			switch x.Op {
			case token.LAND:
				return a && b, true
			case token.LOR:
				return a || b, true
			case token.EQL:
				return a == b, true
			case token.NEQ:
				return a != b, true
			}
		}
	}
	return false, false
}

// mapKeyConst: bson.M{"$k": …} -> "$k".
func mapKeyConst(info *types.Info, e ast.Expr) (string, ast.Expr, bool) {
	cl, ok := ast.Unparen(e).(*ast.CompositeLit)
	if !ok || len(cl.Elts) != 1 {
		return "", nil, false
	}
	kv, ok := cl.Elts[0].(*ast.KeyValueExpr)
	if !ok {
		return "", nil, false
	}
	if tv, ok := info.Types[kv.Key]; ok && tv.Value != nil && tv.Value.Kind() == constant.String {
		return constant.StringVal(tv.Value), kv.Value, true
	}
	return "", kv.Value, true
}

// c14polarity checks a has-expression translator: fn(expr, not) with the
// shapes of mongo.convertHasExpression; cond is its condition translator.
func c14polarity(p *core.Prog, res *core.Result, fi *core.FuncInfo, condFn *core.FuncInfo, prefix string) {
	info := fi.Pkg.TypesInfo
	sig := fi.Obj.Type().(*types.Signature)
	var notParam types.Object
	for i := 0; i < sig.Params().Len(); i++ {
		if b, ok := sig.Params().At(i).Type().Underlying().(*types.Basic); ok && b.Kind() == types.Bool {
			notParam = sig.Params().At(i)
		}
	}
	if notParam == nil {
		res.Unres("Y2", prefix+"polarity|param", p.Pos(fi.Decl.Pos()), "no Boolean polarity parameter")
		return
	}
	res.Fn(core.FuncKey(fi.Obj))
	arms, _, sw := typeSwitchCases(info, fi.Decl.Body, "isHasExpression_Expression")
	if sw == nil {
		res.Unres("Y2", prefix+"polarity|switch", p.Pos(fi.Decl.Pos()), "type switch over the expression kinds not found")
		return
	}
	isSelf := func(c *ast.CallExpr) bool {
		fn := core.CalleeFunc(info, c)
		return fn != nil && (fn == fi.Obj || (condFn != nil && fn == condFn.Obj))
	}
	// polarity argument of every recursive / condition call in an arm
	polArgs := func(cc *ast.CaseClause) []ast.Expr {
		var out []ast.Expr
		ast.Inspect(cc, func(x ast.Node) bool {
			if c, ok := x.(*ast.CallExpr); ok && isSelf(c) && len(c.Args) >= 2 {
				out = append(out, c.Args[len(c.Args)-1])
			}
			return true
		})
		return out
	}
	checkArgs := func(kind string, cc *ast.CaseClause, complement bool) {
		key := prefix + "polarity|" + kind + "|args"
		args := polArgs(cc)
		if len(args) == 0 {
			res.Unres("Y2", key, p.Pos(cc.Pos()), "no recursive call in this arm")
			return
		}
		for _, a := range args {
			for _, b := range []bool{false, true} {
				got, ok := evalBool1(info, a, notParam, b)
				want := b
				if complement {
					want = !b
				}
				if !ok {
					res.Unres("Y2", key, p.Pos(a.Pos()), "polarity argument is not a Boolean expression over the parameter: "+types.ExprString(a))
					return
				}
				if got != want {
					what := "unchanged"
					if complement {
						what = "complemented"
					}
					res.Bad("Y2", key, p.Pos(a.Pos()), fmt.Sprintf("%s arm of %s: the polarity passed to the sub-expression must be the incoming polarity %s, but %s evaluates to %v when the incoming polarity is %v: a negation nested in a negation is translated with the wrong sign (not(not(e)) selects the complement of e)", kind, core.FuncKey(fi.Obj), what, types.ExprString(a), got, b))
					return
				}
			}
		}
		what := "unchanged"
		if complement {
			what = "complemented"
		}
		res.OK("Y2", key, p.Pos(cc.Pos()), fmt.Sprintf("%d recursive call(s) pass the polarity %s, for both incoming polarities", len(args), what))
	}
	// connective chosen under each polarity
	connective := func(cc *ast.CaseClause, pol bool) (string, bool) {
		fl := &core.Flow{Prog: p, Info: info, Body: &ast.BlockStmt{List: cc.Body}}
		fl.Const = func(e ast.Expr, st *core.State) (constant.Value, bool) {
			if id, ok := ast.Unparen(e).(*ast.Ident); ok && info.Uses[id] == notParam {
				return constant.MakeBool(pol), true
			}
			return nil, false
		}
		keys := []string{"$and", "$or", "$nor", "$not"}
		fl.Events = func(n ast.Node, st *core.State) ([]string, bool) {
			as, ok := n.(*ast.AssignStmt)
			if !ok || len(as.Rhs) != 1 {
				return nil, false
			}
			k, _, ok := mapKeyConst(info, as.Rhs[0])
			if !ok || k == "" {
				return nil, false
			}
			var ev []string
			for _, o := range keys {
				if o != k {
					ev = append(ev, "-K="+o)
				}
			}
			return append(ev, "K="+k), false
		}
		fl.Run()
		got, n := "", 0
		fl.ExitStates(func(ret *ast.ReturnStmt, st *core.State, b *cfg.Block) {
			for h := range st.Held {
				if strings.HasPrefix(h, "K=") {
					got = strings.TrimPrefix(h, "K=")
					n++
				}
			}
		})
		return got, n == 1
	}
	for kind, want := range map[string][2]string{"HasExpression_And": {"$and", "$or"}, "HasExpression_Or": {"$or", "$and"}} {
		cc := arms[kind]
		short := strings.TrimPrefix(kind, "HasExpression_")
		if cc == nil {
			res.Bad("Y3", prefix+"totality|"+short, p.Pos(sw.Pos()), "no arm for "+short)
			continue
		}
		checkArgs(short, cc, false)
		key := prefix + "polarity|" + short + "|connective"
		k0, ok0 := connective(cc, false)
		k1, ok1 := connective(cc, true)
		switch {
		case !ok0 || !ok1:
			res.Unres("Y2", key, p.Pos(cc.Pos()), "the connective emitted by this arm could not be determined")
		case k0 != want[0] || k1 != want[1]:
			res.Bad("Y2", key, p.Pos(cc.Pos()), fmt.Sprintf("%s arm emits %s under positive and %s under negative polarity; De Morgan requires %s and %s", short, k0, k1, want[0], want[1]))
		default:
			res.OK("Y2", key, p.Pos(cc.Pos()), fmt.Sprintf("emits %s / %s under positive / negative polarity (De Morgan)", k0, k1))
		}
	}
	if cc := arms["HasExpression_Not"]; cc != nil {
		checkArgs("Not", cc, true)
	} else {
		res.Bad("Y3", prefix+"totality|Not", p.Pos(sw.Pos()), "no arm for Not")
	}
	if cc := arms["HasExpression_Condition"]; cc != nil {
		checkArgs("Condition", cc, false)
	} else {
		res.Bad("Y3", prefix+"totality|Condition", p.Pos(sw.Pos()), "no arm for Condition")
	}
}

// c14condNegation: the condition translator wraps its operator document in
// $not exactly under negative polarity.
func c14condNegation(p *core.Prog, res *core.Result, fi *core.FuncInfo, prefix string) {
	info := fi.Pkg.TypesInfo
	sig := fi.Obj.Type().(*types.Signature)
	var notParam types.Object
	for i := 0; i < sig.Params().Len(); i++ {
		if b, ok := sig.Params().At(i).Type().Underlying().(*types.Basic); ok && b.Kind() == types.Bool {
			notParam = sig.Params().At(i)
		}
	}
	key := prefix + "polarity|condition|wrap"
	if notParam == nil {
		res.Unres("Y2", key, p.Pos(fi.Decl.Pos()), "no polarity parameter")
		return
	}
	res.Fn(core.FuncKey(fi.Obj))
	for _, pol := range []bool{false, true} {
		fl := &core.Flow{Prog: p, Info: info, Body: fi.Decl.Body}
		pol := pol
		fl.Const = func(e ast.Expr, st *core.State) (constant.Value, bool) {
			if id, ok := ast.Unparen(e).(*ast.Ident); ok && info.Uses[id] == notParam {
				return constant.MakeBool(pol), true
			}
			return nil, false
		}
		fl.Run()
		bad := ""
		n := 0
		fl.ExitStates(func(ret *ast.ReturnStmt, st *core.State, b *cfg.Block) {
			if ret == nil || len(ret.Results) != 1 {
				return
			}
			n++
			_, inner, ok := mapKeyConst(info, ret.Results[0])
			if !ok {
				bad = "return value is not a one-field document"
				return
			}
			k, _, isDoc := mapKeyConst(info, inner)
			wrapped := isDoc && k == "$not"
			if wrapped != pol {
				bad = fmt.Sprintf("under polarity not=%v the returned document at %s is wrapped in $not: %v", pol, p.Pos(ret.Pos()), wrapped)
			}
		})
		if bad != "" || n == 0 {
			if n == 0 {
				bad = "no return found"
			}
			res.Bad("Y2", key, p.Pos(fi.Decl.Pos()), core.FuncKey(fi.Obj)+": "+bad+" — a negated condition must be translated to {field: {$not: op}} and a plain one to {field: op}")
			return
		}
	}
	res.OK("Y2", key, p.Pos(fi.Decl.Pos()), "wraps the operator document in $not exactly under negative polarity")
}

// c14coreOps: for each comparison condition, the comparison token of the core
// evaluator (value OP bound); for range conditions the predicate expression.
type coreOp struct {
	tok  token.Token
	expr ast.Expr
	cmp  *ast.BinaryExpr // the relational comparison inside expr (single-comparison arms)
	pos  token.Pos
}

func c14coreOps(p *core.Prog, fi *core.FuncInfo) (map[string]coreOp, *types.Info) {
	info := fi.Pkg.TypesInfo
	out := map[string]coreOp{}
	var sw *ast.SwitchStmt
	ast.Inspect(fi.Decl.Body, func(n ast.Node) bool {
		if s, ok := n.(*ast.SwitchStmt); ok && sw == nil && s.Tag != nil {
			if t := info.TypeOf(s.Tag); t != nil && strings.HasSuffix(t.String(), "gripql.Condition") {
				sw = s
			}
		}
		return true
	})
	if sw == nil {
		return out, info
	}
	for _, c := range sw.Body.List {
		cc := c.(*ast.CaseClause)
		for _, e := range cc.List {
			name := ""
			if sel, ok := ast.Unparen(e).(*ast.SelectorExpr); ok {
				name = sel.Sel.Name
			} else if id, ok := ast.Unparen(e).(*ast.Ident); ok {
				name = id.Name
			}
			name = strings.TrimPrefix(name, "Condition_")
			// the last return with a comparison expression
			var last ast.Expr
			for _, s := range cc.Body {
				if r, ok := s.(*ast.ReturnStmt); ok && len(r.Results) == 1 {
					if _, isBin := ast.Unparen(r.Results[0]).(*ast.BinaryExpr); isBin {
						last = r.Results[0]
					}
				}
			}
			if last != nil {
				// drop bare Boolean conjuncts (success flags of cast helpers): ok && v > c
				var strip func(e ast.Expr) ast.Expr
				strip = func(e ast.Expr) ast.Expr {
					if b, ok := ast.Unparen(e).(*ast.BinaryExpr); ok && b.Op == token.LAND {
						if _, isId := ast.Unparen(b.X).(*ast.Ident); isId {
							return strip(b.Y)
						}
						if _, isId := ast.Unparen(b.Y).(*ast.Ident); isId {
							return strip(b.X)
						}
					}
					return e
				}
				core := strip(last)
				op := coreOp{expr: last, pos: last.Pos()}
				if b, ok := ast.Unparen(core).(*ast.BinaryExpr); ok {
					op.tok = b.Op
					op.cmp = b
				}
				out[name] = op
			}
		}
	}
	return out, info
}

var c14dict = map[token.Token]string{token.GTR: "$gt", token.GEQ: "$gte", token.LSS: "$lt", token.LEQ: "$lte"}

func c14operators(p *core.Prog, res *core.Result, condFn, hasFn, coreFn *core.FuncInfo) {
	info := condFn.Pkg.TypesInfo
	// mongo operator per condition
	mongoOp := map[string]string{}
	var sw *ast.SwitchStmt
	ast.Inspect(condFn.Decl.Body, func(n ast.Node) bool {
		if s, ok := n.(*ast.SwitchStmt); ok && sw == nil && s.Tag != nil {
			if t := info.TypeOf(s.Tag); t != nil && strings.HasSuffix(t.String(), "gripql.Condition") {
				sw = s
			}
		}
		return true
	})
	if sw == nil {
		res.Unres("Y3", "operators|switch", p.Pos(condFn.Decl.Pos()), "switch over gripql.Condition not found in the condition translator")
		return
	}
	for _, c := range sw.Body.List {
		cc := c.(*ast.CaseClause)
		for _, e := range cc.List {
			name := ""
			if sel, ok := ast.Unparen(e).(*ast.SelectorExpr); ok {
				name = strings.TrimPrefix(sel.Sel.Name, "Condition_")
			}
			for _, s := range cc.Body {
				if as, ok := s.(*ast.AssignStmt); ok && len(as.Rhs) == 1 {
					if k, inner, ok := mapKeyConst(info, as.Rhs[0]); ok && k != "" {
						if k == "$not" {
							if k2, _, ok := mapKeyConst(info, inner); ok {
								k = "$not " + k2
							}
						}
						mongoOp[name] = k
					}
				}
			}
		}
	}
	coreOps, cinfo := c14coreOps(p, coreFn)
	res.Fn(core.FuncKey(coreFn.Obj))
	// totality over the Condition enum
	condNames := []string{}
	if pk := p.Pkg("gripql"); pk != nil {
		for _, n := range pk.Types.Scope().Names() {
			if c, ok := pk.Types.Scope().Lookup(n).(*types.Const); ok && strings.HasPrefix(n, "Condition_") && strings.HasSuffix(c.Type().String(), "gripql.Condition") {
				condNames = append(condNames, strings.TrimPrefix(n, "Condition_"))
			}
		}
	}
	sort.Strings(condNames)
	// range conditions handled by the has-expression translator
	hinfo := hasFn.Pkg.TypesInfo
	rangeArms := map[string]*ast.CaseClause{}
	ast.Inspect(hasFn.Decl.Body, func(n ast.Node) bool {
		if s, ok := n.(*ast.SwitchStmt); ok && s.Tag != nil {
			if t := hinfo.TypeOf(s.Tag); t != nil && strings.HasSuffix(t.String(), "gripql.Condition") {
				for _, c := range s.Body.List {
					cc := c.(*ast.CaseClause)
					for _, e := range cc.List {
						if sel, ok := ast.Unparen(e).(*ast.SelectorExpr); ok {
							rangeArms[strings.TrimPrefix(sel.Sel.Name, "Condition_")] = cc
						}
					}
				}
			}
		}
		return true
	})
	for _, cn := range condNames {
		if cn == "UNKNOWN_CONDITION" {
			continue
		}
		key := "operators|" + cn
		if cc, ok := rangeArms[cn]; ok {
			c14rangeLowering(p, res, key, cn, cc, hinfo, coreOps[cn], cinfo, mongoOp)
			continue
		}
		op, ok := mongoOp[cn]
		if !ok {
			res.Bad("Y3", key, p.Pos(sw.Pos()), fmt.Sprintf("condition %s has no arm in %s: the filter document is empty and selects every document, the core evaluator does not", cn, core.FuncKey(condFn.Obj)))
			continue
		}
		co, has := coreOps[cn]
		switch cn {
		case "GT", "GTE", "LT", "LTE":
			if !has {
				res.Unres("Y3", key, p.Pos(sw.Pos()), "comparison of the core evaluator for "+cn+" not recognised")
				continue
			}
			// orientation: value OP bound — operand roles come from the cast arguments (C08's analysis)
			tok := co.tok
			if co.cmp != nil {
				rl, _, _, _ := c08origins(p, cinfo, coreFn.Decl, nil)
				roleOf := func(e ast.Expr) string {
					if id, ok := ast.Unparen(e).(*ast.Ident); ok {
						return rl[cinfo.Uses[id]]
					}
					return ""
				}
				lx, ry := roleOf(co.cmp.X), roleOf(co.cmp.Y)
				switch {
				case lx == "c" && ry == "v":
					tok = flipTok(tok)
				case lx == "v" && ry == "c":
				default:
					res.Unres("Y3", key, p.Pos(co.pos), "operands of the core comparison are not recognised as (value, bound): "+types.ExprString(co.cmp))
					continue
				}
			}
			if c14dict[tok] != op {
				res.Bad("Y3", key, p.Pos(sw.Pos()), fmt.Sprintf("condition %s: the core evaluator keeps a row when value %s bound (%s), the Mongo filter uses %s, which means %s", cn, tok, p.Pos(co.pos), op, dictMeaning(op)))
			} else {
				res.OK("Y3", key, p.Pos(sw.Pos()), fmt.Sprintf("core: value %s bound; mongo: %s", tok, op))
			}
		default:
			want := map[string]string{"EQ": "$eq", "NEQ": "$ne", "WITHIN": "$in", "WITHOUT": "$not $in|$nin", "CONTAINS": "$in|$elemMatch|$all"}[cn]
			okOp := false
			for _, w := range strings.Split(want, "|") {
				if w == op {
					okOp = true
				}
			}
			if want == "" {
				res.Unres("Y3", key, p.Pos(sw.Pos()), "no dictionary entry for condition "+cn)
			} else if !okOp {
				res.Bad("Y3", key, p.Pos(sw.Pos()), fmt.Sprintf("condition %s is translated to %s; its meaning in the core evaluator corresponds to %s", cn, op, want))
			} else {
				res.OK("Y3", key, p.Pos(sw.Pos()), "translated to "+op)
			}
		}
	}
}

func flipTok(t token.Token) token.Token {
	switch t {
	case token.GTR:
		return token.LSS
	case token.GEQ:
		return token.LEQ
	case token.LSS:
		return token.GTR
	case token.LEQ:
		return token.GEQ
	}
	return t
}

func dictMeaning(op string) string {
	for t, o := range c14dict {
		if o == op {
			return "value " + t.String() + " bound"
		}
	}
	return op
}

// c14rangeLowering compares the core predicate of INSIDE/OUTSIDE/BETWEEN with
// the conjunction/disjunction of comparisons the Mongo translator lowers it
// to, on every ordering of (value, lower, upper).
func c14rangeLowering(p *core.Prog, res *core.Result, key, cn string, cc *ast.CaseClause, hinfo *types.Info, co coreOp, cinfo *types.Info, mongoOp map[string]string) {
	if co.expr == nil {
		res.Unres("Y3", key, p.Pos(cc.Pos()), "range predicate of the core evaluator not recognised")
		return
	}
	// the lowering: gripql.And|Or(gripql.X(key, lims[i]), gripql.Y(key, lims[j]))
	type atom struct {
		op  string
		lim int
	}
	var conn string
	var atoms []atom
	ast.Inspect(cc, func(n ast.Node) bool {
		c, ok := n.(*ast.CallExpr)
		if !ok || conn != "" {
			return true
		}
		fn := core.CalleeFunc(hinfo, c)
		if fn == nil || fn.Pkg() == nil || fn.Pkg().Name() != "gripql" || (fn.Name() != "And" && fn.Name() != "Or") {
			return true
		}
		conn = fn.Name()
		for _, a := range c.Args {
			ac, ok := ast.Unparen(a).(*ast.CallExpr)
			if !ok {
				continue
			}
			afn := core.CalleeFunc(hinfo, ac)
			if afn == nil || len(ac.Args) != 2 {
				continue
			}
			// which Condition constant does the builder use
			cond := ""
			if bfi := p.Info(afn); bfi != nil && bfi.Decl.Body != nil {
				ast.Inspect(bfi.Decl.Body, func(x ast.Node) bool {
					if id, ok := x.(*ast.Ident); ok && strings.HasPrefix(id.Name, "Condition_") {
						cond = strings.TrimPrefix(id.Name, "Condition_")
					}
					return true
				})
			}
			lim := -1
			if ix, ok := ast.Unparen(ac.Args[1]).(*ast.IndexExpr); ok {
				if tv, ok := hinfo.Types[ix.Index]; ok && tv.Value != nil {
					if v, ok := constant.Int64Val(tv.Value); ok {
						lim = int(v)
					}
				}
			}
			atoms = append(atoms, atom{mongoOp[cond], lim})
		}
		return true
	})
	if conn == "" || len(atoms) != 2 || atoms[0].lim < 0 || atoms[1].lim < 0 {
		res.Unres("Y3", key, p.Pos(cc.Pos()), "lowering of "+cn+" into two comparisons not recognised")
		return
	}
	cmp := func(op string, v, b float64) (bool, bool) {
		switch op {
		case "$gt":
			return v > b, true
		case "$gte":
			return v >= b, true
		case "$lt":
			return v < b, true
		case "$lte":
			return v <= b, true
		}
		return false, false
	}
	evaluable := true
	want := func(e ordEnv) bool {
		lims := []float64{e["a"], e["b"]}
		x, ok1 := cmp(atoms[0].op, e["v"], lims[atoms[0].lim])
		y, ok2 := cmp(atoms[1].op, e["v"], lims[atoms[1].lim])
		if !ok1 || !ok2 {
			evaluable = false
		}
		if conn == "And" {
			return x && y
		}
		return x || y
	}
	alias := func(e ast.Expr) string {
		switch s := types.ExprString(ast.Unparen(e)); {
		case strings.HasPrefix(s, "val"):
			return "v"
		case s == "lower":
			return "a"
		case s == "upper":
			return "b"
		}
		return ""
	}
	bad, got, n, ok := ordCompare(cinfo, co.expr, []string{"v", "a", "b"}, alias, nil, want)
	switch {
	case !ok || !evaluable:
		res.Unres("Y3", key, p.Pos(cc.Pos()), "range predicate not evaluable on the ordering domain")
	case bad != nil:
		res.Bad("Y3", key, p.Pos(cc.Pos()), fmt.Sprintf("condition %s: the core evaluator (%s at %s) and the Mongo lowering %s(%s lims[%d], %s lims[%d]) disagree: for value=%v lower=%v upper=%v core keeps the row: %v, the filter selects it: %v", cn, types.ExprString(co.expr), p.Pos(co.pos), conn, atoms[0].op, atoms[0].lim, atoms[1].op, atoms[1].lim, bad["v"], bad["a"], bad["b"], got, !got))
	default:
		res.OK("Y3", key, p.Pos(cc.Pos()), fmt.Sprintf("core predicate %s equals %s(%s lims[%d], %s lims[%d]) on all %d orderings of (value, lower, upper)", types.ExprString(co.expr), conn, atoms[0].op, atoms[0].lim, atoms[1].op, atoms[1].lim, n))
	}
}

func c14(p *core.Prog, res *core.Result) {
	res.Explanation = "C14: Y1 typing agreement — the per-statement transfer (input type, mark type) → {reject} ∪ {accept→result type [+mark update]} of mongo.Compiler.Compile and of core.StatementProcessor (with core.Validate's first-statement rule folded in where the compiler runs it) is computed for every statement kind the Mongo compiler handles × every gdbi.DataType × every type a mark can have, by specialising each arm's control-flow graph; the outcome sets must coincide. Both compilers are folds of these transfers, so equal tables give equal acceptance and equal result/mark types for all statement sequences. " +
		"Y2 polarity — in the has-expression translator the Not arm passes the complement of the incoming polarity, And/Or/Condition arms pass it unchanged, And/Or emit the De Morgan dual under negative polarity, and the condition translator wraps in $not exactly under negative polarity. " +
		"Y3 operators — every gripql.Condition has a translation; for gt/gte/lt/lte the comparison token of the core evaluator and the Mongo operator correspond under the fixed dictionary; inside/outside/between lower to a connective of two comparisons whose truth table over all orderings of (value, lower, upper) equals the core predicate."
	res.NotDecided = []string{"Mongo's semantics of $not/$in/$exists on missing, array-valued or differently typed fields", "that open guards (list lengths, name validity) test the same predicate in both compilers — only their presence is compared", "pipeline stages other than $match"}
	res.Assumptions = []string{"dictionary of operator meanings: $gt >, $gte >=, $lt <, $lte <=, $eq/$ne equality, $in membership (standard MongoDB semantics on scalars)"}
	res.Rule("Y1", "typing transfer tables of the Mongo and core compilers coincide", 25)
	res.Rule("Y2", "negation polarity is threaded correctly", 7)
	res.Rule("Y3", "operator totality and agreement with the core evaluator", 12)
	c14typing(p, res)
	hasFn := p.Func("mongo", "convertHasExpression")
	condFn := p.Func("mongo", "convertCondition")
	coreFn := p.Func("engine/logic", "MatchesCondition")
	if hasFn == nil || condFn == nil || coreFn == nil {
		res.Fail("convertHasExpression / convertCondition / MatchesCondition not found")
		return
	}
	c14polarity(p, res, hasFn, condFn, "")
	c14condNegation(p, res, condFn, "")
	c14operators(p, res, condFn, hasFn, coreFn)
}

func c14selftest(st *core.Prog, res *core.Result) {
	rel := core.SelfMod + "/c14"
	pk := st.Pkg(rel)
	if pk == nil {
		res.Fail("C14 self-test package did not load")
		return
	}
	for _, fi := range st.AllDecls() {
		if fi.Pkg != pk || fi.Decl.Recv != nil {
			continue
		}
		name := fi.Obj.Name()
		var want core.Status
		switch {
		case strings.HasPrefix(name, "OkHas"):
			want = core.Discharged
		case strings.HasPrefix(name, "BadHas"):
			want = core.Violated
		default:
			continue
		}
		tmp := core.NewResult("C14", "self")
		c14polarity(st, tmp, fi, st.Func(rel, "cond"), name+"|")
		got := core.Discharged
		for _, o := range tmp.Obls {
			if o.Status == core.Violated {
				got = core.Violated
			} else if o.Status == core.Unresolved && got != core.Violated {
				got = core.Unresolved
			}
		}
		if got != want {
			res.Fail("self-test %s: polarity rule gave %s, expected %s", name, got, want)
		} else {
			res.OKTrivial("SELF", "selftest|c14."+name, "-", "polarity rule gives "+string(got)+" as expected")
		}
	}
}
