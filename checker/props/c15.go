package props

import (
	"fmt"
	"go/ast"
	"go/constant"
	"go/token"
	"go/types"
	"strings"

	"gripverif/core"

	"golang.org/x/tools/go/cfg"
)

func init() {
	Registry["C15"] = c15
}

var c15Writes = []string{"AddVertex", "AddEdge", "BulkAdd", "DelVertex", "DelEdge", "AddVertexIndex", "DeleteVertexIndex"}

// refusesAlways: every exit of fi returns a certainly non-nil error.
func refusesAlways(p *core.Prog, fi *core.FuncInfo) (bool, string, []string) {
	info := fi.Pkg.TypesInfo
	fl := &core.Flow{Prog: p, Info: info, Body: fi.Decl.Body}
	fl.Run()
	sig := fi.Obj.Type().(*types.Signature)
	ok := true
	where := ""
	var trace []string
	n := 0
	fl.ExitStates(func(ret *ast.ReturnStmt, st *core.State, b *cfg.Block) {
		n++
		if fl.ErrResultNil(ret, st, sig) != core.No {
			ok = false
			pos := fi.Decl.End()
			if ret != nil {
				pos = ret.Pos()
			}
			if where == "" {
				where = p.Pos(pos)
				trace = fl.TraceTo(b)
			}
		}
	})
	return ok && n > 0, where, trace
}

// reachesMethodOf: the static call tree of fi (repo functions, depth<=5)
// contains a call of a method of the named type.
func reachesMethodOf(p *core.Prog, fi *core.FuncInfo, pkgPath, tname string, depth int, seen map[*types.Func]bool) (bool, string) {
	if fi == nil || fi.Decl.Body == nil || seen[fi.Obj] || depth > 5 {
		return false, ""
	}
	seen[fi.Obj] = true
	info := fi.Pkg.TypesInfo
	found, at := false, ""
	ast.Inspect(fi.Decl.Body, func(n ast.Node) bool {
		call, ok := n.(*ast.CallExpr)
		if !ok || found {
			return !found
		}
		fn := core.CalleeFunc(info, call)
		if fn == nil {
			return true
		}
		if rn := core.RecvNamed(fn); rn != nil && rn.Obj().Name() == tname && rn.Obj().Pkg() != nil && rn.Obj().Pkg().Path() == pkgPath {
			found, at = true, p.Pos(call.Pos())
			return false
		}
		if cfi := p.Info(fn); cfi != nil {
			if f, a := reachesMethodOf(p, cfi, pkgPath, tname, depth+1, seen); f {
				found, at = true, a
			}
		}
		return true
	})
	return found, at
}

func c15(p *core.Prog, res *core.Result) {
	res.Explanation = "C15 (structural clauses): W1 every write entry point of the gripper driver (TabularGraph.{AddVertex,AddEdge,BulkAdd,DelVertex,DelEdge,AddVertexIndex,DeleteVertexIndex}, TabularGDB.{AddGraph,DeleteGraph}) " +
		"returns a certainly non-nil error on every path and its call tree contains no call on the table-service client; " +
		"W2 the synthetic edge-id builder (EdgeSource.GenID) and parser (TabularGraph.ParseEdge) agree: same separator, the parser demands exactly the number of components the builder emits, and hands back source/label/target from the positions the builder put them."
	res.NotDecided = []string{"one vertex per row, edge synthesis, equivalence with the materialised graph (value-level)", "the label-start optimiser keeping only the last leading hasLabel (a value-level rewrite bug)",
		"row/prefix ids that themselves contain the '-' separator"}
	res.Rule("W1", "gripper write entry points refuse on every path and never reach the table-service client", 9)
	res.Rule("W2", "GenID / ParseEdge agreement", 1)
	pkgGripper := core.ModPath + "/gripper"
	check := func(tn string, names []string) {
		named := p.Named("gripper", tn)
		if named == nil {
			res.Fail("gripper.%s not found", tn)
			return
		}
		for _, name := range names {
			fi := p.Method(named, name)
			key := "gripper." + tn + "." + name
			if fi == nil || fi.Decl.Body == nil {
				res.Unres("W1", key, "-", "method not found")
				continue
			}
			res.Fn(key)
			ok, where, trace := refusesAlways(p, fi)
			reach, at := reachesMethodOf(p, fi, pkgGripper, "GripperClient", 0, map[*types.Func]bool{})
			switch {
			case !ok:
				res.Bad("W1", key, where, fmt.Sprintf("%s can return a nil (or possibly nil) error at %s: a write call on a read-only mapped graph is reported as successful", key, where), trace...)
			case reach:
				res.Bad("W1", key, at, fmt.Sprintf("%s reaches a call on the table-service client at %s although writes must be refused", key, at))
			default:
				res.OK("W1", key, p.Pos(fi.Decl.Pos()), "every exit returns a non-nil error; no client call in the call tree")
			}
		}
	}
	check("TabularGraph", c15Writes)
	check("TabularGDB", dbMutators)

	// W2
	gen := p.Func("gripper", "EdgeSource.GenID")
	par := p.Func("gripper", "TabularGraph.ParseEdge")
	if gen == nil || par == nil {
		res.Fail("gripper GenID/ParseEdge not found")
		return
	}
	res.Fn(core.FuncKey(gen.Obj))
	res.Fn(core.FuncKey(par.Obj))
	info := gen.Pkg.TypesInfo
	// builder: every return is a + sep + b + sep + c …
	type shape struct {
		seps  []string
		parts int
		ops   []ast.Expr
	}
	var flatten func(e ast.Expr, out *[]ast.Expr)
	flatten = func(e ast.Expr, out *[]ast.Expr) {
		if be, ok := ast.Unparen(e).(*ast.BinaryExpr); ok && be.Op == token.ADD {
			flatten(be.X, out)
			flatten(be.Y, out)
			return
		}
		*out = append(*out, e)
	}
	var shapes []shape
	ast.Inspect(gen.Decl.Body, func(n ast.Node) bool {
		if r, ok := n.(*ast.ReturnStmt); ok && len(r.Results) == 1 {
			var ops []ast.Expr
			flatten(r.Results[0], &ops)
			sh := shape{ops: ops}
			for _, o := range ops {
				if tv := info.Types[o]; tv.Value != nil && tv.Value.Kind() == constant.String {
					sh.seps = append(sh.seps, constant.StringVal(tv.Value))
				}
			}
			sh.parts = len(sh.seps) + 1
			shapes = append(shapes, sh)
		}
		return true
	})
	// parser: tmp := strings.Split(gid, sep); if len(tmp) != N
	psep, pn := "", int64(-1)
	ast.Inspect(par.Decl.Body, func(n ast.Node) bool {
		switch x := n.(type) {
		case *ast.CallExpr:
			if fn := core.CalleeFunc(info, x); fn != nil && fn.Pkg() != nil && fn.Pkg().Path() == "strings" && fn.Name() == "Split" && len(x.Args) == 2 {
				if tv := info.Types[x.Args[1]]; tv.Value != nil {
					psep = constant.StringVal(tv.Value)
				}
			}
		case *ast.BinaryExpr:
			if c, ok := ast.Unparen(x.X).(*ast.CallExpr); ok && isBuiltin2(info, c, "len") {
				if tv := info.Types[x.Y]; tv.Value != nil {
					pn, _ = constant.Int64Val(tv.Value)
				}
			}
		}
		return true
	})
	key := "gripper.EdgeSource.GenID↔TabularGraph.ParseEdge"
	var problems []string
	if len(shapes) == 0 || psep == "" || pn < 0 {
		res.Unres("W2", key, p.Pos(gen.Decl.Pos()), "builder/parser idiom not recognised")
		return
	}
	for _, sh := range shapes {
		for _, s := range sh.seps {
			if s != psep {
				problems = append(problems, fmt.Sprintf("GenID joins with %q but ParseEdge splits on %q", s, psep))
			}
		}
		if int64(sh.parts) != pn {
			problems = append(problems, fmt.Sprintf("GenID emits %d components but ParseEdge accepts only ids with exactly %d", sh.parts, pn))
		}
		// the label must sit in the middle: ParseEdge returns (tmp[0], tmp[2], tmp[1]) = (source, target, label)
		if len(sh.seps) == 2 && len(sh.ops) >= 5 {
			mid := types.ExprString(sh.ops[len(sh.ops)/2])
			if !strings.Contains(mid, "Label") {
				problems = append(problems, "GenID does not place the edge label between the two separators, where ParseEdge reads it")
			}
		}
	}
	// parser's result order: (src, dst, label) = (tmp[0], tmp[2], tmp[1])
	var order []int64
	ast.Inspect(par.Decl.Body, func(n ast.Node) bool {
		if r, ok := n.(*ast.ReturnStmt); ok && len(r.Results) == 4 {
			var o []int64
			for _, e := range r.Results[:3] {
				if ix, ok := ast.Unparen(e).(*ast.IndexExpr); ok {
					if tv := info.Types[ix.Index]; tv.Value != nil {
						v, _ := constant.Int64Val(tv.Value)
						o = append(o, v)
					}
				}
			}
			if len(o) == 3 {
				order = o
			}
		}
		return true
	})
	if len(order) == 3 && !(order[0] == 0 && order[1] == 2 && order[2] == 1) {
		problems = append(problems, fmt.Sprintf("ParseEdge returns (source, target, label) from positions %v; GenID stores them at (0, 2, 1)", order))
	}
	if len(problems) > 0 {
		res.Bad("W2", key, p.Pos(par.Decl.Pos()), strings.Join(dedup(problems), "; "))
	} else {
		res.OK("W2", key, p.Pos(par.Decl.Pos()), fmt.Sprintf("%d GenID shapes: separator %q, %d components, label in the middle; ParseEdge reads (0,2,1)", len(shapes), psep, pn))
	}
}
