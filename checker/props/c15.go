package props

import (
	"fmt"
	"go/ast"
	"go/constant"
	"go/token"
	"go/types"
	"strings"

	"gripverif/core"

	"golang.org/x/tools/go/cfg"
)

func init() {
	Registry["C15"] = c15
	SelfTests["C15"] = c15selftest
}

var c15Writes = []string{"AddVertex", "AddEdge", "BulkAdd", "DelVertex", "DelEdge", "AddVertexIndex", "DeleteVertexIndex"}

// refusesAlways: every exit of fi returns a certainly non-nil error.
func refusesAlways(p *core.Prog, fi *core.FuncInfo) (bool, string, []string) {
	info := fi.Pkg.TypesInfo
	fl := &core.Flow{Prog: p, Info: info, Body: fi.Decl.Body}
	fl.Run()
	sig := fi.Obj.Type().(*types.Signature)
	ok := true
	where := ""
	var trace []string
	n := 0
	fl.ExitStates(func(ret *ast.ReturnStmt, st *core.State, b *cfg.Block) {
		n++
		if fl.ErrResultNil(ret, st, sig) != core.No {
			ok = false
			pos := fi.Decl.End()
			if ret != nil {
				pos = ret.Pos()
			}
			if where == "" {
				where = p.Pos(pos)
				trace = fl.TraceTo(b)
			}
		}
	})
	return ok && n > 0, where, trace
}

// reachesMethodOf: the static call tree of fi (repo functions, depth<=5)
// contains a call of a method of the named type.
func reachesMethodOf(p *core.Prog, fi *core.FuncInfo, pkgPath, tname string, depth int, seen map[*types.Func]bool) (bool, string) {
	if fi == nil || fi.Decl.Body == nil || seen[fi.Obj] || depth > 5 {
		return false, ""
	}
	seen[fi.Obj] = true
	info := fi.Pkg.TypesInfo
	found, at := false, ""
	ast.Inspect(fi.Decl.Body, func(n ast.Node) bool {
		call, ok := n.(*ast.CallExpr)
		if !ok || found {
			return !found
		}
		fn := core.CalleeFunc(info, call)
		if fn == nil {
			return true
		}
		if rn := core.RecvNamed(fn); rn != nil && rn.Obj().Name() == tname && rn.Obj().Pkg() != nil && rn.Obj().Pkg().Path() == pkgPath {
			found, at = true, p.Pos(call.Pos())
			return false
		}
		if cfi := p.Info(fn); cfi != nil {
			if f, a := reachesMethodOf(p, cfi, pkgPath, tname, depth+1, seen); f {
				found, at = true, a
			}
		}
		return true
	})
	return found, at
}

func c15(p *core.Prog, res *core.Result) {
	res.Explanation = "C15 (structural clauses): W1 every write entry point of the gripper driver (TabularGraph.{AddVertex,AddEdge,BulkAdd,DelVertex,DelEdge,AddVertexIndex,DeleteVertexIndex}, TabularGDB.{AddGraph,DeleteGraph}) " +
		"returns a certainly non-nil error on every path and its call tree contains no call on the table-service client; " +
		"W2 the synthetic edge-id builder (EdgeSource.GenID) and parser (TabularGraph.ParseEdge) agree: same separator, the parser demands exactly the number of components the builder emits, and hands back source/label/target from the positions the builder put them; " +
		"W3 exhaustive scans — every loop over the mapped graph's table lists (the ordered vertex/edge source lists, the per-vertex edge tables) is left early only on cancellation, with an error, or by a point lookup returning the element it found (a certainly non-nil pointer): no break, no bare return, no `return nil`/possibly-nil result from inside the scan."
	res.NotDecided = []string{"that each visited table is read completely (DriverCache.FetchRows under concurrent loading)", "one vertex per row, edge synthesis, equivalence with the materialised graph (value-level)", "the label-start optimiser keeping only the last leading hasLabel (a value-level rewrite bug)",
		"row/prefix ids that themselves contain the '-' separator"}
	res.Rule("W1", "gripper write entry points refuse on every path and never reach the table-service client", 9)
	res.Rule("W2", "GenID / ParseEdge agreement", 1)
	res.Rule("W3", "every loop over the mapped tables visits all of them", 14)
	if tg := p.Named("gripper", "TabularGraph"); tg != nil {
		c15scans(p, res, tg, "W3")
	} else {
		res.Fail("gripper.TabularGraph not found")
	}
	pkgGripper := core.ModPath + "/gripper"
	check := func(tn string, names []string) {
		named := p.Named("gripper", tn)
		if named == nil {
			res.Fail("gripper.%s not found", tn)
			return
		}
		for _, name := range names {
			fi := p.Method(named, name)
			key := "gripper." + tn + "." + name
			if fi == nil || fi.Decl.Body == nil {
				res.Unres("W1", key, "-", "method not found")
				continue
			}
			res.Fn(key)
			ok, where, trace := refusesAlways(p, fi)
			reach, at := reachesMethodOf(p, fi, pkgGripper, "GripperClient", 0, map[*types.Func]bool{})
			switch {
			case !ok:
				res.Bad("W1", key, where, fmt.Sprintf("%s can return a nil (or possibly nil) error at %s: a write call on a read-only mapped graph is reported as successful", key, where), trace...)
			case reach:
				res.Bad("W1", key, at, fmt.Sprintf("%s reaches a call on the table-service client at %s although writes must be refused", key, at))
			default:
				res.OK("W1", key, p.Pos(fi.Decl.Pos()), "every exit returns a non-nil error; no client call in the call tree")
			}
		}
	}
	check("TabularGraph", c15Writes)
	check("TabularGDB", dbMutators)

	// W2
	gen := p.Func("gripper", "EdgeSource.GenID")
	par := p.Func("gripper", "TabularGraph.ParseEdge")
	if gen == nil || par == nil {
		res.Fail("gripper GenID/ParseEdge not found")
		return
	}
	res.Fn(core.FuncKey(gen.Obj))
	res.Fn(core.FuncKey(par.Obj))
	info := gen.Pkg.TypesInfo
	// builder: every return is a + sep + b + sep + c …
	type shape struct {
		seps  []string
		parts int
		ops   []ast.Expr
	}
	var flatten func(e ast.Expr, out *[]ast.Expr)
	flatten = func(e ast.Expr, out *[]ast.Expr) {
		if be, ok := ast.Unparen(e).(*ast.BinaryExpr); ok && be.Op == token.ADD {
			flatten(be.X, out)
			flatten(be.Y, out)
			return
		}
		*out = append(*out, e)
	}
	var shapes []shape
	ast.Inspect(gen.Decl.Body, func(n ast.Node) bool {
		if r, ok := n.(*ast.ReturnStmt); ok && len(r.Results) == 1 {
			var ops []ast.Expr
			flatten(r.Results[0], &ops)
			sh := shape{ops: ops}
			for _, o := range ops {
				if tv := info.Types[o]; tv.Value != nil && tv.Value.Kind() == constant.String {
					sh.seps = append(sh.seps, constant.StringVal(tv.Value))
				}
			}
			sh.parts = len(sh.seps) + 1
			shapes = append(shapes, sh)
		}
		return true
	})
	// parser: tmp := strings.Split(gid, sep); if len(tmp) != N
	psep, pn := "", int64(-1)
	ast.Inspect(par.Decl.Body, func(n ast.Node) bool {
		switch x := n.(type) {
		case *ast.CallExpr:
			if fn := core.CalleeFunc(info, x); fn != nil && fn.Pkg() != nil && fn.Pkg().Path() == "strings" && fn.Name() == "Split" && len(x.Args) == 2 {
				if tv := info.Types[x.Args[1]]; tv.Value != nil {
					psep = constant.StringVal(tv.Value)
				}
			}
		case *ast.BinaryExpr:
			if c, ok := ast.Unparen(x.X).(*ast.CallExpr); ok && isBuiltin2(info, c, "len") {
				if tv := info.Types[x.Y]; tv.Value != nil {
					pn, _ = constant.Int64Val(tv.Value)
				}
			}
		}
		return true
	})
	key := "gripper.EdgeSource.GenID↔TabularGraph.ParseEdge"
	var problems []string
	if len(shapes) == 0 || psep == "" || pn < 0 {
		res.Unres("W2", key, p.Pos(gen.Decl.Pos()), "builder/parser idiom not recognised")
		return
	}
	for _, sh := range shapes {
		for _, s := range sh.seps {
			if s != psep {
				problems = append(problems, fmt.Sprintf("GenID joins with %q but ParseEdge splits on %q", s, psep))
			}
		}
		if int64(sh.parts) != pn {
			problems = append(problems, fmt.Sprintf("GenID emits %d components but ParseEdge accepts only ids with exactly %d", sh.parts, pn))
		}
		// the label must sit in the middle: ParseEdge returns (tmp[0], tmp[2], tmp[1]) = (source, target, label)
		if len(sh.seps) == 2 && len(sh.ops) >= 5 {
			mid := types.ExprString(sh.ops[len(sh.ops)/2])
			if !strings.Contains(mid, "Label") {
				problems = append(problems, "GenID does not place the edge label between the two separators, where ParseEdge reads it")
			}
		}
	}
	// parser's result order: (src, dst, label) = (tmp[0], tmp[2], tmp[1])
	var order []int64
	ast.Inspect(par.Decl.Body, func(n ast.Node) bool {
		if r, ok := n.(*ast.ReturnStmt); ok && len(r.Results) == 4 {
			var o []int64
			for _, e := range r.Results[:3] {
				if ix, ok := ast.Unparen(e).(*ast.IndexExpr); ok {
					if tv := info.Types[ix.Index]; tv.Value != nil {
						v, _ := constant.Int64Val(tv.Value)
						o = append(o, v)
					}
				}
			}
			if len(o) == 3 {
				order = o
			}
		}
		return true
	})
	if len(order) == 3 && !(order[0] == 0 && order[1] == 2 && order[2] == 1) {
		problems = append(problems, fmt.Sprintf("ParseEdge returns (source, target, label) from positions %v; GenID stores them at (0, 2, 1)", order))
	}
	if len(problems) > 0 {
		res.Bad("W2", key, p.Pos(par.Decl.Pos()), strings.Join(dedup(problems), "; "))
	} else {
		res.OK("W2", key, p.Pos(par.Decl.Pos()), fmt.Sprintf("%d GenID shapes: separator %q, %d components, label in the middle; ParseEdge reads (0,2,1)", len(shapes), psep, pn))
	}
}

// ---- W3: scans over the mapped tables are exhaustive --------------------

// c15tableFields returns the fields of the mapped-graph type that enumerate
// its source tables: slice-typed fields (the ordered table lists) and
// map-typed fields whose elements are slices (the per-vertex edge tables).
func c15tableFields(named *types.Named) (lists, maps map[types.Object]bool) {
	lists, maps = map[types.Object]bool{}, map[types.Object]bool{}
	st, ok := named.Underlying().(*types.Struct)
	if !ok {
		return
	}
	for i := 0; i < st.NumFields(); i++ {
		f := st.Field(i)
		switch u := f.Type().Underlying().(type) {
		case *types.Slice:
			lists[f] = true
		case *types.Map:
			if _, ok := u.Elem().Underlying().(*types.Slice); ok {
				maps[f] = true
			}
		}
	}
	return
}

type c15exit struct {
	pos  token.Pos
	what string
}

// c15scanExits checks every loop over a table list of the mapped graph in body
// (the body of a function or of a function literal; sig is its signature) and
// reports the statements that leave such a loop before all tables were
// visited, other than on cancellation, with an error, or with the element a
// point lookup was looking for.
func c15scanExits(info *types.Info, body *ast.BlockStmt, sig *types.Signature, lists, maps map[types.Object]bool, each func(loop ast.Stmt, what string, exits []c15exit)) {
	fieldOf := func(e ast.Expr) types.Object {
		if sel, ok := ast.Unparen(e).(*ast.SelectorExpr); ok {
			return info.Uses[sel.Sel]
		}
		return nil
	}
	// locals that hold one vertex's edge tables: x := t.outEdges[k]
	tableLocals := map[types.Object]bool{}
	ast.Inspect(body, func(n ast.Node) bool {
		if as, ok := n.(*ast.AssignStmt); ok && len(as.Lhs) == len(as.Rhs) {
			for i, r := range as.Rhs {
				if ix, ok := ast.Unparen(r).(*ast.IndexExpr); ok && maps[fieldOf(ix.X)] {
					if o := defOrUse(info, as.Lhs[i]); o != nil {
						tableLocals[o] = true
					}
				}
			}
		}
		return true
	})
	isTables := func(e ast.Expr) bool {
		e = ast.Unparen(e)
		if lists[fieldOf(e)] {
			return true
		}
		if ix, ok := e.(*ast.IndexExpr); ok && maps[fieldOf(ix.X)] {
			return true
		}
		if id, ok := e.(*ast.Ident); ok && tableLocals[info.Uses[id]] {
			return true
		}
		return false
	}
	isCtx := func(e ast.Expr) bool {
		t := info.TypeOf(e)
		return t != nil && types.TypeString(t, nil) == "context.Context"
	}
	isCtxCall := func(e ast.Expr, names ...string) bool {
		c, ok := ast.Unparen(e).(*ast.CallExpr)
		if !ok {
			return false
		}
		sel, ok := c.Fun.(*ast.SelectorExpr)
		if !ok || !isCtx(sel.X) {
			return false
		}
		for _, n := range names {
			if sel.Sel.Name == n {
				return true
			}
		}
		return false
	}
	// cancelCond: the expression is a receive from / a call of ctx.Done()
	cancelCond := func(e ast.Expr) bool {
		found := false
		ast.Inspect(e, func(x ast.Node) bool {
			if ex, ok := x.(ast.Expr); ok && isCtxCall(ex, "Done") {
				found = true
			}
			return true
		})
		return found
	}
	// evalLive evaluates a condition under the assumption that the context is
	// NOT cancelled (ctx.Err() == nil): 0 false, 1 true, 2 unknown.  A branch
	// taken only when the value is impossible under that assumption runs only
	// after cancellation.
	var evalLive func(e ast.Expr) int
	evalLive = func(e ast.Expr) int {
		switch x := ast.Unparen(e).(type) {
		case *ast.UnaryExpr:
			if x.Op == token.NOT {
				switch evalLive(x.X) {
				case 0:
					return 1
				case 1:
					return 0
				}
			}
		case *ast.BinaryExpr:
			switch x.Op {
			case token.LAND:
				a, b := evalLive(x.X), evalLive(x.Y)
				if a == 0 || b == 0 {
					return 0
				}
				if a == 1 && b == 1 {
					return 1
				}
			case token.LOR:
				a, b := evalLive(x.X), evalLive(x.Y)
				if a == 1 || b == 1 {
					return 1
				}
				if a == 0 && b == 0 {
					return 0
				}
			case token.EQL, token.NEQ:
				var other ast.Expr
				if isCtxCall(x.X, "Err") {
					other = x.Y
				} else if isCtxCall(x.Y, "Err") {
					other = x.X
				}
				if other != nil {
					isNil := false
					if id, ok := ast.Unparen(other).(*ast.Ident); ok && id.Name == "nil" {
						isNil = true
					}
					eq := 0 // ctx.Err() == <non-nil error> is false while live
					if isNil {
						eq = 1
					}
					if x.Op == token.NEQ {
						eq = 1 - eq
					}
					return eq
				}
			}
		}
		return 2
	}
	nonNilGuard := func(guards []ast.Expr, o types.Object) bool {
		for _, g := range guards {
			ok := false
			ast.Inspect(g, func(x ast.Node) bool {
				if be, isB := x.(*ast.BinaryExpr); isB && be.Op == token.NEQ {
					a, b := ast.Unparen(be.X), ast.Unparen(be.Y)
					if id, isI := b.(*ast.Ident); isI && id.Name == "nil" {
						if defOrUse(info, a) == o {
							ok = true
						}
					}
					if id, isI := a.(*ast.Ident); isI && id.Name == "nil" {
						if defOrUse(info, b) == o {
							ok = true
						}
					}
				}
				return true
			})
			if ok {
				return true
			}
		}
		return false
	}
	errType := types.Universe.Lookup("error").Type()
	var scan func(loop ast.Stmt, lbody *ast.BlockStmt, what string)
	var findLoops func(n ast.Node, fsig *types.Signature)
	labels := map[ast.Stmt]types.Object{}
	ast.Inspect(body, func(n ast.Node) bool {
		if ls, ok := n.(*ast.LabeledStmt); ok {
			labels[ls.Stmt] = info.Defs[ls.Label]
		}
		return true
	})
	curSig := sig
	scan = func(loop ast.Stmt, lbody *ast.BlockStmt, what string) {
		var exits []c15exit
		var walk func(n ast.Node, target ast.Stmt, guards []ast.Expr, cancel bool)
		walk = func(n ast.Node, target ast.Stmt, guards []ast.Expr, cancel bool) {
			switch s := n.(type) {
			case nil:
				return
			case *ast.FuncLit:
				return
			case *ast.BlockStmt:
				for _, x := range s.List {
					walk(x, target, guards, cancel)
				}
			case *ast.LabeledStmt:
				walk(s.Stmt, target, guards, cancel)
			case *ast.IfStmt:
				g := append(append([]ast.Expr{}, guards...), s.Cond)
				live := evalLive(s.Cond)
				walk(s.Body, target, g, cancel || live == 0)
				if s.Else != nil {
					walk(s.Else, target, guards, cancel || live == 1)
				}
			case *ast.ForStmt:
				walk(s.Body, s, guards, cancel)
			case *ast.RangeStmt:
				walk(s.Body, s, guards, cancel)
			case *ast.SwitchStmt:
				for _, cc := range s.Body.List {
					c := cc.(*ast.CaseClause)
					g, cn := guards, cancel
					for _, e := range c.List {
						g = append(append([]ast.Expr{}, g...), e)
						if s.Tag == nil && len(c.List) == 1 && evalLive(e) == 0 {
							cn = true
						}
					}
					for _, x := range c.Body {
						walk(x, s, g, cn)
					}
				}
			case *ast.TypeSwitchStmt:
				for _, cc := range s.Body.List {
					for _, x := range cc.(*ast.CaseClause).Body {
						walk(x, s, guards, cancel)
					}
				}
			case *ast.SelectStmt:
				for _, cc := range s.Body.List {
					c := cc.(*ast.CommClause)
					cn := cancel
					if c.Comm != nil {
						ast.Inspect(c.Comm, func(x ast.Node) bool {
							if u, ok := x.(*ast.UnaryExpr); ok && u.Op == token.ARROW && cancelCond(u.X) {
								cn = true
							}
							return true
						})
					}
					for _, x := range c.Body {
						walk(x, s, guards, cn)
					}
				}
			case *ast.BranchStmt:
				switch s.Tok {
				case token.BREAK:
					t := target
					if s.Label != nil {
						t = nil
						for st, lo := range labels {
							if lo == info.Uses[s.Label] {
								t = st
							}
						}
					}
					if t == loop && !cancel {
						exits = append(exits, c15exit{s.Pos(), "break out of the scan"})
					}
				case token.GOTO:
					exits = append(exits, c15exit{s.Pos(), "goto out of the scan"})
				}
			case *ast.ReturnStmt:
				if cancel {
					return
				}
				if len(s.Results) == 0 {
					exits = append(exits, c15exit{s.Pos(), "return stops the scan"})
					return
				}
				// an error abort: some result of type error that is not the nil literal
				abort, found, undecided := false, false, ""
				for i, r := range s.Results {
					r = ast.Unparen(r)
					var rt types.Type
					if curSig != nil && i < curSig.Results().Len() {
						rt = curSig.Results().At(i).Type()
					}
					isNil := false
					if id, ok := r.(*ast.Ident); ok && id.Name == "nil" {
						isNil = true
					}
					if rt != nil && types.Identical(rt, errType) {
						if !isNil {
							abort = true
						}
						continue
					}
					if _, isPtr := rtUnder(rt).(*types.Pointer); isPtr {
						switch {
						case isNil:
							undecided = "returns nil (not found) from inside the scan"
						case isAddrOf(r):
							found = true
						default:
							if o := defOrUse(info, r); o != nil && nonNilGuard(guards, o) {
								found = true
							} else {
								undecided = fmt.Sprintf("returns %s, which may be nil, from inside the scan", types.ExprString(r))
							}
						}
					}
				}
				switch {
				case abort:
				case undecided != "":
					exits = append(exits, c15exit{s.Pos(), undecided})
				case found:
				default:
					exits = append(exits, c15exit{s.Pos(), "return stops the scan"})
				}
			default:
				// other statements contain no exits of interest (expressions, sends, assignments)
			}
		}
		walk(lbody, loop, nil, false)
		each(loop, what, exits)
	}
	findLoops = func(n ast.Node, fsig *types.Signature) {
		ast.Inspect(n, func(x ast.Node) bool {
			switch s := x.(type) {
			case *ast.FuncLit:
				if s.Body != n {
					saved := curSig
					ls, _ := info.TypeOf(s).(*types.Signature)
					curSig = ls
					findLoops(s.Body, ls)
					curSig = saved
					return false
				}
			case *ast.RangeStmt:
				if isTables(s.X) {
					saved := curSig
					curSig = fsig
					scan(s, s.Body, types.ExprString(s.X))
					curSig = saved
				}
			case *ast.ForStmt:
				if s.Cond != nil {
					hit := ""
					ast.Inspect(s.Cond, func(y ast.Node) bool {
						if c, ok := y.(*ast.CallExpr); ok && len(c.Args) == 1 {
							if id, ok := c.Fun.(*ast.Ident); ok && id.Name == "len" && isTables(c.Args[0]) {
								hit = types.ExprString(c.Args[0])
							}
						}
						return true
					})
					if hit != "" {
						saved := curSig
						curSig = fsig
						scan(s, s.Body, hit)
						curSig = saved
					}
				}
			}
			return true
		})
	}
	findLoops(body, sig)
}

func rtUnder(t types.Type) types.Type {
	if t == nil {
		return nil
	}
	return t.Underlying()
}

func isAddrOf(e ast.Expr) bool {
	u, ok := ast.Unparen(e).(*ast.UnaryExpr)
	return ok && u.Op == token.AND
}

// c15scans applies W3 to every function of the package of named.
func c15scans(p *core.Prog, res *core.Result, named *types.Named, rule string) int {
	lists, maps := c15tableFields(named)
	n := 0
	for _, fi := range p.AllDecls() {
		if fi.Pkg.Types != named.Obj().Pkg() || fi.Decl.Body == nil || strings.HasSuffix(p.Fset.Position(fi.Decl.Pos()).Filename, "_test.go") {
			continue
		}
		info := fi.Pkg.TypesInfo
		fkey := core.FuncKey(fi.Obj)
		k := 0
		sig, _ := fi.Obj.Type().(*types.Signature)
		c15scanExits(info, fi.Decl.Body, sig, lists, maps, func(loop ast.Stmt, what string, exits []c15exit) {
			k++
			n++
			res.Fn(fkey)
			key := fmt.Sprintf("%s|scan#%d", fkey, k)
			if len(exits) == 0 {
				res.OK(rule, key, p.Pos(loop.Pos()), "the loop over "+what+" is left only when all tables were visited, on cancellation, with an error, or with the element found")
				return
			}
			var ws, path []string
			for _, e := range exits {
				ws = append(ws, fmt.Sprintf("%s at %s", e.what, p.Pos(e.pos)))
				path = append(path, p.Pos(e.pos)+": "+e.what)
			}
			res.Bad(rule, key, p.Pos(loop.Pos()), fmt.Sprintf("%s: the loop over the mapped tables (%s) can end before every table was visited — %s: rows of the remaining tables (a second table mapped to the same label, or a vertex type whose id prefix extends another's) are missing from the result, so the exposed graph is not the graph the mapping describes", fkey, what, strings.Join(ws, "; ")), path...)
		})
	}
	return n
}

func c15selftest(st *core.Prog, res *core.Result) {
	named := st.Named(core.SelfMod+"/c15", "Tab")
	if named == nil {
		res.Fail("C15 self-test package did not load")
		return
	}
	tmp := core.NewResult("C15", "self")
	c15scans(st, tmp, named, "W3")
	n := 0
	for _, o := range tmp.Obls {
		parts := strings.Split(o.Key, "|")
		if len(parts) < 2 {
			continue
		}
		name := parts[1][strings.LastIndex(parts[1], ".")+1:]
		var want core.Status
		switch {
		case strings.HasPrefix(name, "Ok"):
			want = core.Discharged
		case strings.HasPrefix(name, "Bad"):
			want = core.Violated
		default:
			continue
		}
		n++
		if o.Status != want {
			res.Fail("self-test %s: W3 gave %s, expected %s (%s)", name, o.Status, want, o.Note)
		} else {
			res.OKTrivial("SELF", "selftest|c15."+name+"|"+parts[len(parts)-1], "-", "W3 gives "+string(o.Status)+" as expected")
		}
	}
	if n < 9 {
		res.Fail("C15 self-test: only %d scan loops found in the examples", n)
	}
}
