package props

import (
	"fmt"
	"go/ast"
	"go/constant"
	"go/types"
	"sort"
	"strings"

	"gripverif/core"

	"golang.org/x/tools/go/cfg"
)

func init() {
	Registry["C16"] = c16
	SelfTests["C16"] = c16selftest
}

// rejectTable computes, for a validator function, which bytes it rejects in
// which of its inputs.  Inputs are named "recv.Field" for receiver fields and
// "param#i" for parameters.
type rejectTable map[string]map[byte]bool

func (rt rejectTable) add(in string, chars string) {
	if rt[in] == nil {
		rt[in] = map[byte]bool{}
	}
	for i := 0; i < len(chars); i++ {
		rt[in][chars[i]] = true
	}
}

func validatorRejects(p *core.Prog, fi *core.FuncInfo, depth int) rejectTable {
	rt := rejectTable{}
	if fi == nil || fi.Decl.Body == nil || depth > 3 {
		return rt
	}
	info := fi.Pkg.TypesInfo
	var recv types.Object
	if fi.Decl.Recv != nil && len(fi.Decl.Recv.List) > 0 && len(fi.Decl.Recv.List[0].Names) > 0 {
		recv = info.Defs[fi.Decl.Recv.List[0].Names[0]]
	}
	sig := fi.Obj.Type().(*types.Signature)
	params := map[types.Object]int{}
	for i := 0; i < sig.Params().Len(); i++ {
		params[sig.Params().At(i)] = i
	}
	nameOf := func(e ast.Expr) string {
		switch x := ast.Unparen(e).(type) {
		case *ast.SelectorExpr:
			if o := defOrUse(info, x.X); o != nil && o == recv {
				return "recv." + x.Sel.Name
			}
		case *ast.Ident:
			if o := info.Uses[x]; o != nil {
				if i, ok := params[o]; ok {
					return fmt.Sprintf("param#%d", i)
				}
			}
		}
		return ""
	}
	ast.Inspect(fi.Decl.Body, func(n ast.Node) bool {
		call, ok := n.(*ast.CallExpr)
		if !ok {
			return true
		}
		fn := core.CalleeFunc(info, call)
		if fn == nil || len(call.Args) == 0 {
			return true
		}
		in := nameOf(call.Args[0])
		if in == "" {
			return true
		}
		if fn.Pkg() != nil && fn.Pkg().Path() == "strings" && len(call.Args) == 2 {
			tv := info.Types[call.Args[1]]
			if tv.Value == nil {
				return true
			}
			isIndex := strings.HasPrefix(fn.Name(), "Index")
			if okEff, why := matchEffective(info, fi.Decl, call, isIndex); !okEff {
				IneffectiveTests[fi.Obj] = append(IneffectiveTests[fi.Obj], fmt.Sprintf("%s at %s does not protect: %s", types.ExprString(call), p.Pos(call.Pos()), why))
				return true
			}
			switch fn.Name() {
			case "ContainsAny", "IndexAny":
				if tv.Value.Kind() == constant.String {
					rt.add(in, constant.StringVal(tv.Value))
				}
			case "Contains", "Index":
				if tv.Value.Kind() == constant.String && len(constant.StringVal(tv.Value)) == 1 {
					rt.add(in, constant.StringVal(tv.Value))
				}
			case "ContainsRune", "IndexByte", "IndexRune":
				if v, ok := constant.Int64Val(constant.ToInt(tv.Value)); ok && v >= 0 && v < 256 {
					rt.add(in, string([]byte{byte(v)}))
				}
			}
			return true
		}
		// helper(x): whatever the helper rejects in its first parameter
		if cfi := p.Info(fn); cfi != nil && cfi != fi {
			sub := validatorRejects(p, cfi, depth+1)
			if len(sub["param#0"]) > 0 {
				// a Boolean helper: its answer must in turn make this function refuse
				if bs, ok := fn.Type().(*types.Signature); ok && bs.Results().Len() == 1 {
					if b, ok := bs.Results().At(0).Type().Underlying().(*types.Basic); ok && b.Kind() == types.Bool {
						if okEff, why := matchEffective(info, fi.Decl, call, false); !okEff {
							IneffectiveTests[fi.Obj] = append(IneffectiveTests[fi.Obj], fmt.Sprintf("%s at %s does not protect: %s", types.ExprString(call), p.Pos(call.Pos()), why))
							return true
						}
					}
				}
			}
			for b := range sub["param#0"] {
				rt.add(in, string([]byte{b}))
			}
			IneffectiveTests[fi.Obj] = append(IneffectiveTests[fi.Obj], IneffectiveTests[cfi.Obj]...)
		}
		return true
	})
	return rt
}

// sepObligation is one client string stored as a key component.
type sepObligation struct {
	what      string // "Vertex.Gid", "graph name", …
	validator *core.FuncInfo
	input     string // rejectTable input name
	event     string // Flow event that must hold at the store write
}

// c16obligations checks the separator obligations on the store writes of fi.
func c16obligations(p *core.Prog, res *core.Result, kc *keyCodec, fi *core.FuncInfo, rule string) int {
	info := fi.Pkg.TypesInfo
	fkey := core.FuncKey(fi.Obj)
	res.Fn(fkey)
	defs := localDefs(info, fi.Decl.Body)
	n := 0
	fl := &core.Flow{Prog: p, Info: info, Body: fi.Decl.Body}
	fl.Events = func(nd ast.Node, st *core.State) ([]string, bool) {
		for _, c := range core.CallsIn(nd) {
			if ev, chk := validateEvent(info, c); ev != "" {
				return []string{ev}, chk
			}
		}
		return nil, false
	}
	fl.Run()
	var resolve func(e ast.Expr, depth int) (string, *core.FuncInfo, string, string)
	resolve = func(e ast.Expr, depth int) (what string, val *core.FuncInfo, input, event string) {
		if depth > 5 {
			return
		}
		switch x := ast.Unparen(e).(type) {
		case *ast.SelectorExpr:
			t := info.TypeOf(x.X)
			if pt, ok := t.(*types.Pointer); ok {
				t = pt.Elem()
			}
			if nn, ok := t.(*types.Named); ok && nn.Obj().Pkg() != nil && (nn.Obj().Pkg().Path() == pkgGripql || nn.Obj().Pkg().Path() == pkgGdbi) {
				v := p.Method(nn, "Validate")
				return nn.Obj().Name() + "." + x.Sel.Name, v, "recv." + x.Sel.Name, "validate:" + nn.Obj().Name()
			}
		case *ast.Ident:
			if o := info.Uses[x]; o != nil {
				if d, ok := defs[o]; ok {
					return resolve(d, depth+1)
				}
				if v, ok := o.(*types.Var); ok && types.Identical(v.Type(), types.Typ[types.String]) && strings.Contains(strings.ToLower(v.Name()), "graph") {
					return "graph name", p.Func("gripql", "ValidateGraphName"), "param#0", "validate:graphname"
				}
			}
		}
		return
	}
	fl.Walk(func(nd ast.Node, st *core.State, b *cfg.Block) {
		for _, call := range core.CallsIn(nd) {
			op, _, ai := kvOp(info, call)
			if op != "Set" {
				continue
			}
			// the key expression must be a builder call (possibly through a local)
			ke := ast.Unparen(call.Args[ai])
			if id, ok := ke.(*ast.Ident); ok {
				if d, ok := defs[info.Uses[id]]; ok {
					ke = ast.Unparen(d)
				}
			}
			bc, ok := ke.(*ast.CallExpr)
			if !ok {
				continue
			}
			kb := kc.Builders[core.CalleeFunc(info, bc)]
			if kb == nil {
				continue
			}
			for _, comp := range kb.Comps {
				if comp.Kind != "str" || comp.Param >= len(bc.Args) {
					continue
				}
				what, val, input, event := resolve(bc.Args[comp.Param], 0)
				key := fmt.Sprintf("%s|%s(%s)", fkey, kb.FI.Obj.Name(), comp.Name)
				n++
				res.CallSites++
				if what == "" {
					res.Unres(rule, key, p.Pos(bc.Pos()), fmt.Sprintf("component %s of %s comes from %s, which is not a recognised client field", comp.Name, kb.FI.Obj.Name(), types.ExprString(bc.Args[comp.Param])))
					continue
				}
				key = fmt.Sprintf("%s|%s", fkey, what)
				sep := kb.Sep
				rejects := false
				if val != nil {
					rt := validatorRejects(p, val, 0)
					rejects = true
					for i := 0; i < len(sep); i++ {
						if !rt[input][sep[i]] {
							rejects = false
						}
					}
				}
				dominated := st.Held[event]
				if what == "graph name" && !dominated {
					// the graph name of an existing graph was validated when the graph was created
					dominated = graphNameComesFromListing(p, fi)
				}
				switch {
				case rejects && dominated:
					res.OK(rule, key, p.Pos(bc.Pos()), fmt.Sprintf("%s is validated free of the separator %q before it becomes a key component", what, sep))
				case !rejects:
					vn := "<none>"
					if val != nil {
						vn = core.FuncKey(val.Obj)
					}
					note := ""
					if val != nil && len(IneffectiveTests[val.Obj]) > 0 {
						note = " [" + strings.Join(IneffectiveTests[val.Obj], "; ") + "]"
					}
					res.Bad(rule, key, p.Pos(bc.Pos()), fmt.Sprintf("%s becomes component %q of the %q-separated key built by %s at %s, but its validator %s does not reject values containing the separator: such a value is accepted, stored, and then parsed back as different components (another id/label appears, the edge-type byte is read from the wrong component)%s",
						what, comp.Name, sep, kb.FI.Obj.Name(), p.Pos(bc.Pos()), vn, note))
				default:
					res.Bad(rule, key, p.Pos(bc.Pos()), fmt.Sprintf("%s becomes a key component at %s on a path where %s has not been checked", what, p.Pos(bc.Pos()), event), fl.TraceTo(b)...)
				}
			}
		}
	})
	return n
}

// graphNameComesFromListing: for methods of the per-graph handle the graph
// name was matched against ListGraphs when the handle was created, and every
// listed name was written by AddGraph after validation.
func graphNameComesFromListing(p *core.Prog, fi *core.FuncInfo) bool {
	if fi.Pkg == nil {
		return false
	}
	g := p.Func(core.RelPkg(fi.Pkg.PkgPath), "KVGraph.Graph")
	if g == nil {
		return false
	}
	found := false
	for _, c := range core.CallsIn(g.Decl.Body) {
		if fn := core.CalleeFunc(g.Pkg.TypesInfo, c); fn != nil && fn.Name() == "ListGraphs" {
			found = true
		}
	}
	return found
}

func c16(p *core.Prog, res *core.Result) {
	res.Explanation = "C16 (structural clauses): K1 key builder/parser agreement for every separator-joined key of kvgraph and kvindex " +
		"(same separator, parser never reads beyond the components written, result j reads the position of parameter j, prefix builders are component-wise prefixes). " +
		"K2 separator obligations — every client string (gid, from, to, label, graph name) that a write path places into a separator-joined key is, on every path to the store write, " +
		"validated by a function that rejects values containing the separator byte (computed from the constant arguments of strings.Contains*/Index* calls on that field in the validator's call tree). " +
		"K3 labels and field names used as '.'-separated index path components are validated free of '.'."
	res.NotDecided = []string{"round-trip of property values through structpb (NaN/Inf, integer precision)", "unicode normalisation", "sanitised job directory names",
		"polarity of the validator's test (a validator that calls strings.ContainsAny with the separator is assumed to reject on a match)"}
	res.Rule("K1", "key builder/parser agreement (kvgraph, kvindex)", 12)
	res.Rule("K2", "client strings stored as key components are validated free of the key separator", 6)
	res.Rule("K3", "client strings used as non-trailing '.'-path components of index field names are validated free of '.'", 2)
	kc := extractCodec(p, "kvgraph")
	ki := extractCodec(p, "kvindex")
	if kc == nil || ki == nil {
		res.Fail("kvgraph/kvindex codecs not found")
		return
	}
	codecAgreement(p, res, kc, "K1")
	codecAgreement(p, res, ki, "K1")
	n := 0
	for _, name := range []string{"insertVertex", "insertEdge", "KVGraph.AddGraph"} {
		fi := p.Func("kvgraph", name)
		if fi == nil {
			res.Fail("kvgraph.%s not found", name)
			continue
		}
		n += c16obligations(p, res, kc, fi, "K2")
	}
	if n == 0 {
		res.Fail("no separator obligation derived from the kvgraph insert paths")
	}
	c16varlen(p, res, ki)
	c16paths(p, res)
	res.Rule("K5", "a string-prefix test that guards an index/store mutation uses a separator-terminated prefix", 0)
	n5 := 0
	for _, fi := range p.AllDecls() {
		rel := core.RelPkg(fi.Pkg.PkgPath)
		if fi.Decl.Body == nil || (rel != "kvgraph" && rel != "kvindex") || strings.HasSuffix(p.Fset.Position(fi.Decl.Pos()).Filename, "_test.go") {
			continue
		}
		n5 += c16prefixTests(p, res, fi, "K5")
	}
	if n5 == 0 {
		res.OKTrivial("K5", "kvgraph+kvindex|no guarded prefix test", "-", "no strings.HasPrefix test guards a registry or store mutation on the current tree (names are compared component-wise)")
	}
}

var c16mutators = map[string]bool{"RemoveField": true, "AddField": true, "Delete": true, "DeletePrefix": true, "Set": true, "RemoveDoc": true}

// terminatedPrefix: the expression certainly ends with the '.' separator.
func terminatedPrefix(info *types.Info, defs map[types.Object]ast.Expr, e ast.Expr, depth int) bool {
	if depth > 4 {
		return false
	}
	e = ast.Unparen(e)
	if tv, ok := info.Types[e]; ok && tv.Value != nil && tv.Value.Kind() == constant.String {
		return strings.HasSuffix(constant.StringVal(tv.Value), ".")
	}
	switch x := e.(type) {
	case *ast.BinaryExpr:
		return terminatedPrefix(info, defs, x.Y, depth+1)
	case *ast.CallExpr:
		if fn := core.CalleeFunc(info, x); fn != nil && fn.Pkg() != nil && fn.Pkg().Path() == "fmt" && fn.Name() == "Sprintf" && len(x.Args) > 0 {
			if tv, ok := info.Types[x.Args[0]]; ok && tv.Value != nil && tv.Value.Kind() == constant.String {
				return strings.HasSuffix(constant.StringVal(tv.Value), ".")
			}
		}
	case *ast.Ident:
		if d, ok := defs[info.Uses[x]]; ok && d != nil {
			return terminatedPrefix(info, defs, d, depth+1)
		}
	}
	return false
}

// c16prefixTests: `if strings.HasPrefix(name, p) { …mutation… }` needs a terminated p.
func c16prefixTests(p *core.Prog, res *core.Result, fi *core.FuncInfo, rule string) int {
	info := fi.Pkg.TypesInfo
	defs := localDefs(info, fi.Decl.Body)
	fkey := core.FuncKey(fi.Obj)
	n := 0
	ast.Inspect(fi.Decl.Body, func(x ast.Node) bool {
		is, ok := x.(*ast.IfStmt)
		if !ok {
			return true
		}
		var test *ast.CallExpr
		ast.Inspect(is.Cond, func(y ast.Node) bool {
			if c, ok := y.(*ast.CallExpr); ok {
				if fn := core.CalleeFunc(info, c); fn != nil && fn.Pkg() != nil && fn.Pkg().Path() == "strings" && fn.Name() == "HasPrefix" && len(c.Args) == 2 {
					test = c
				}
			}
			return true
		})
		if test == nil {
			return true
		}
		var mut *ast.CallExpr
		ast.Inspect(is.Body, func(y ast.Node) bool {
			if c, ok := y.(*ast.CallExpr); ok && mut == nil {
				if sel, ok := c.Fun.(*ast.SelectorExpr); ok && c16mutators[sel.Sel.Name] {
					if fn := core.CalleeFunc(info, c); fn != nil && fn.Pkg() != nil && (core.InRepo(fn) || strings.HasPrefix(fn.Pkg().Path(), core.SelfMod)) {
						mut = c
					}
				}
			}
			return true
		})
		if mut == nil {
			return true
		}
		n++
		res.Fn(fkey)
		key := fmt.Sprintf("%s|HasPrefix(%s)", fkey, types.ExprString(test.Args[1]))
		if terminatedPrefix(info, defs, test.Args[1], 0) {
			res.OK(rule, key, p.Pos(test.Pos()), "the prefix ends with the '.' separator")
		} else {
			res.Bad(rule, key, p.Pos(test.Pos()), fmt.Sprintf("%s: %s decides %s, but the prefix %s does not end with the name separator: a name that merely starts with the same characters matches too (deleting graph \"proj\" also removes the indices of graph \"proj2\")", fkey, types.ExprString(test), types.ExprString(mut.Fun), types.ExprString(test.Args[1])))
		}
		return true
	})
	return n
}

// c16varlen: a variable-length []byte component that is followed by further
// components can only be parsed back if it is free of the separator.  The only
// producer of such components is kvindex.GetTermBytes: numbers are fixed-width
// (the parser cuts 8 bytes), strings are the raw client value.
func c16varlen(p *core.Prog, res *core.Result, ki *keyCodec) {
	res.Rule("K4", "variable-length byte components of index keys that are followed by other components are separator-free or fixed-width", 1)
	info := ki.Pkg.TypesInfo
	for _, fi := range p.AllDecls() {
		if fi.Pkg != ki.Pkg || fi.Decl.Body == nil {
			continue
		}
		fkey := core.FuncKey(fi.Obj)
		defs := localDefs(info, fi.Decl.Body)
		ast.Inspect(fi.Decl.Body, func(n ast.Node) bool {
			call, ok := n.(*ast.CallExpr)
			if !ok {
				return true
			}
			op, _, ai := kvOp(info, call)
			if op != "Set" {
				return true
			}
			ke := ast.Unparen(call.Args[ai])
			if id, ok := ke.(*ast.Ident); ok {
				if d, ok := defs[info.Uses[id]]; ok {
					ke = ast.Unparen(d)
				}
			}
			bc, ok := ke.(*ast.CallExpr)
			if !ok {
				return true
			}
			kb := ki.Builders[core.CalleeFunc(info, bc)]
			if kb == nil {
				return true
			}
			for ci, comp := range kb.Comps {
				if comp.Kind != "bytes" || ci == len(kb.Comps)-1 || comp.Param >= len(bc.Args) {
					continue
				}
				res.Fn(fkey)
				key := fmt.Sprintf("%s|%s(%s)", fkey, kb.FI.Obj.Name(), comp.Name)
				// origin of the bytes: a call to GetTermBytes on client data
				src := "unknown"
				if o := defOrUse(info, bc.Args[comp.Param]); o != nil {
					ast.Inspect(fi.Decl.Body, func(m ast.Node) bool {
						if as, ok := m.(*ast.AssignStmt); ok && len(as.Rhs) == 1 {
							for _, l := range as.Lhs {
								if defOrUse(info, l) == o {
									if c, ok := as.Rhs[0].(*ast.CallExpr); ok {
										if cf := core.CalleeFunc(info, c); cf != nil {
											src = cf.Name()
										}
									}
								}
							}
						}
						return true
					})
				}
				if src == "GetTermBytes" {
					res.Bad("K4", key, p.Pos(bc.Pos()), fmt.Sprintf("%s stores the raw bytes of a client string value as component %q of the %q-separated key %s, followed by the document id; %sParse splits the suffix on the separator, so a string property value containing %q is read back as a shorter term and a wrong document id (index lookups on that field return ids that were never stored)",
						fkey, comp.Name, kb.Sep, kb.FI.Obj.Name(), kb.FI.Obj.Name(), kb.Sep))
				} else {
					res.Unres("K4", key, p.Pos(bc.Pos()), "origin of the byte component not recognised: "+src)
				}
			}
			return true
		})
	}
}

// c16paths: index field names are "<graph>.v.<label>.<field>" joined by '.';
// each client-supplied component must be validated free of '.'.
func c16paths(p *core.Prog, res *core.Result) {
	pk := p.Pkg("kvgraph")
	info := pk.TypesInfo
	for _, fi := range p.AllDecls() {
		if fi.Pkg != pk || fi.Decl.Body == nil {
			continue
		}
		sig := fi.Obj.Type().(*types.Signature)
		params := map[types.Object]bool{}
		for i := 0; i < sig.Params().Len(); i++ {
			params[sig.Params().At(i)] = true
		}
		fkey := core.FuncKey(fi.Obj)
		ast.Inspect(fi.Decl.Body, func(n ast.Node) bool {
			call, ok := n.(*ast.CallExpr)
			if !ok {
				return true
			}
			fn := core.CalleeFunc(info, call)
			if fn == nil || !(fn.Name() == "AddField" || fn.Name() == "RemoveField") || len(call.Args) != 1 {
				return true
			}
			sp, ok := ast.Unparen(call.Args[0]).(*ast.CallExpr)
			if !ok {
				return true
			}
			if sfn := core.CalleeFunc(info, sp); sfn == nil || sfn.Name() != "Sprintf" || len(sp.Args) < 2 {
				return true
			}
			ftv := info.Types[sp.Args[0]]
			if ftv.Value == nil || !strings.Contains(constant.StringVal(ftv.Value), ".") {
				return true
			}
			res.Fn(fkey)
			nargs := len(sp.Args) - 1
			for i, a := range sp.Args[1:] {
				if i == nargs-1 && nargs > 1 {
					continue // the trailing component is a nested field path: dots are its own separators by design
				}
				o := defOrUse(info, a)
				if o == nil || !params[o] {
					continue // receiver fields (validated graph name)
				}
				key := fmt.Sprintf("%s|%s(arg %d=%s)", fkey, fn.Name(), i+1, o.Name())
				// is the parameter validated (checked call of a function rejecting '.') on every
				// path to this call, or (unexported helper) at every call site?
				validated := validatedBefore(p, fi, call, o, '.')
				if !validated && !fi.Obj.Exported() {
					validated = callersValidate(p, fi, o, '.')
				}
				if validated {
					res.OK("K3", key, p.Pos(call.Pos()), o.Name()+" is validated free of '.' before it becomes a path component")
				} else {
					res.Bad("K3", key, p.Pos(call.Pos()), fmt.Sprintf("%s: client-supplied %s becomes a component of the '.'-separated index field name %s without being validated free of '.': a label such as \"a.b\" registers a field whose path digs into the wrong level of the index document (nothing is ever indexed) and is listed back as label \"a\", field \"b\"",
						fkey, o.Name(), constant.StringVal(ftv.Value)))
				}
			}
			return true
		})
	}
}

// validatedBefore: on every path of fi to call, a checked call of a function
// that rejects byte b in its first parameter was made on variable o.
func validatedBefore(p *core.Prog, fi *core.FuncInfo, call *ast.CallExpr, o types.Object, b byte) bool {
	info := fi.Pkg.TypesInfo
	fl := &core.Flow{Prog: p, Info: info, Body: fi.Decl.Body}
	fl.Events = func(n ast.Node, st *core.State) ([]string, bool) {
		for _, c := range core.CallsIn(n) {
			if vf := core.CalleeFunc(info, c); vf != nil && len(c.Args) == 1 && defOrUse(info, c.Args[0]) == o {
				if vfi := p.Info(vf); vfi != nil && validatorRejects(p, vfi, 0)["param#0"][b] {
					return []string{"validated"}, true
				}
			}
		}
		return nil, false
	}
	fl.Run()
	found, ok := false, true
	fl.Walk(func(n ast.Node, st *core.State, blk *cfg.Block) {
		for _, c := range core.CallsIn(n) {
			if c == call {
				found = true
				if !st.Held["validated"] {
					ok = false
				}
			}
		}
	})
	return found && ok
}

// callersValidate: every call of the unexported fi in its package passes, for
// parameter po, a value on which a validator rejecting byte b was checked.
func callersValidate(p *core.Prog, fi *core.FuncInfo, po types.Object, b byte) bool {
	sig := fi.Obj.Type().(*types.Signature)
	idx := -1
	for i := 0; i < sig.Params().Len(); i++ {
		if sig.Params().At(i) == po {
			idx = i
		}
	}
	if idx < 0 {
		return false
	}
	calls, ok := 0, true
	for _, cf := range p.AllDecls() {
		if cf.Pkg != fi.Pkg || cf.Decl.Body == nil {
			continue
		}
		info := cf.Pkg.TypesInfo
		has := false
		for _, c := range core.CallsIn(cf.Decl.Body) {
			if core.CalleeFunc(info, c) == fi.Obj {
				has = true
			}
		}
		if !has {
			continue
		}
		validatedVars := map[types.Object]bool{}
		fl := &core.Flow{Prog: p, Info: info, Body: cf.Decl.Body}
		fl.Events = func(n ast.Node, st *core.State) ([]string, bool) {
			for _, c := range core.CallsIn(n) {
				if vf := core.CalleeFunc(info, c); vf != nil && len(c.Args) == 1 {
					if vfi := p.Info(vf); vfi != nil && validatorRejects(p, vfi, 0)["param#0"][b] {
						if o := defOrUse(info, c.Args[0]); o != nil {
							validatedVars[o] = true
							return []string{"validated:" + o.Name()}, true
						}
					}
				}
			}
			return nil, false
		}
		fl.Run()
		fl.Walk(func(n ast.Node, st *core.State, blk *cfg.Block) {
			for _, c := range core.CallsIn(n) {
				if core.CalleeFunc(info, c) != fi.Obj || idx >= len(c.Args) {
					continue
				}
				calls++
				o := defOrUse(info, c.Args[idx])
				if o == nil || !st.Held["validated:"+o.Name()] {
					ok = false
				}
			}
		})
	}
	return calls > 0 && ok
}

func c16selftest(st *core.Prog, res *core.Result) {
	keysSelftest(st, res, "C16")
	rel := core.SelfMod + "/c16"
	fi := func(n string) *core.FuncInfo { return st.Func(rel, n) }
	if fi("GoodValidate") == nil {
		res.Fail("C16 self-test package did not load")
		return
	}
	type tc struct {
		fn, in string
		b    byte
		want bool
	}
	for _, c := range []tc{
		{"GoodValidate", "param#0", 0, true}, {"GoodValidate", "param#0", '.', true},
		{"WeakValidate", "param#0", 0, false}, {"WeakValidate", "param#0", '.', true},
		{"T.Validate", "recv.ID", 0, true}, {"T.Validate", "recv.Label", 0, false},
		{"IndexGoodValidate", "param#0", 0, true}, {"IndexOffByOneValidate", "param#0", 0, false},
		{"HelperGoodValidate", "param#0", 0, true}, {"HelperOffByOneValidate", "param#0", 0, false},
		{"InvertedValidate", "param#0", 0, false}, {"GuardedValidate", "param#0", 0, false}, {"VarIndexValidate", "param#0", '.', false},
	} {
		got := validatorRejects(st, fi(c.fn), 0)[c.in][c.b]
		if got != c.want {
			res.Fail("self-test validatorRejects(%s,%s,%q)=%v, expected %v", c.fn, c.in, c.b, got, c.want)
		} else {
			res.OKTrivial("SELF", fmt.Sprintf("selftest|c16.%s.%s.%d", c.fn, c.in, c.b), "-", "reject table as expected")
		}
	}
	_ = sort.Strings
	for _, name := range []string{"OkPrefixTerminated", "BadPrefixBare"} {
		f := fi(name)
		if f == nil {
			res.Fail("self-test function %s missing", name)
			continue
		}
		tmp := core.NewResult("C16", "self")
		c16prefixTests(st, tmp, f, "K5")
		got := core.Discharged
		if len(tmp.Obls) == 0 {
			got = core.Unresolved
		}
		for _, o := range tmp.Obls {
			if o.Status == core.Violated {
				got = core.Violated
			}
		}
		want := core.Discharged
		if strings.HasPrefix(name, "Bad") {
			want = core.Violated
		}
		if got != want {
			res.Fail("self-test %s: prefix rule gave %s, expected %s", name, got, want)
		} else {
			res.OKTrivial("SELF", "selftest|c16."+name, "-", "prefix rule gives "+string(got)+" as expected")
		}
	}
}
