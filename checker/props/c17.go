package props

import (
	"fmt"
	"go/ast"
	"go/token"
	"go/types"
	"sort"
	"strings"

	"gripverif/core"

	"golang.org/x/tools/go/cfg"
)

func init() {
	Registry["C17"] = c17
	SelfTests["C17"] = c17selftest
}

// c17Shared: struct types whose instances are shared by concurrently running
// handlers / pipeline goroutines (confirmed by reading; the field walk from
// server.GripServer re-derives the set and fails on an unlisted type).
var c17Shared = []struct{ rel, name, why string }{
	{"server", "GripServer", "one instance serves every RPC"},
	{"kvindex", "KVIndex", "one index per store, used by every AddVertex/AddIndex/label lookup"},
	{"kvgraph", "KVGraph", "one driver object per store"},
	{"jobstorage", "FSResults", "one job store per server"},
	{"jobstorage", "Job", "written by the spool goroutine while served to clients"},
	{"accounts", "CasbinAccess", "consulted by every request's interceptor"},
	{"engine", "manager", "one manager per query, used by every step goroutine of that query"},
	{"timestamp", "Timestamp", "one per driver"},
}

type fieldAccess struct {
	Fn     *core.FuncInfo
	Pos    token.Pos
	Write  bool
	Locked map[string]bool // mutex expressions held (must) at the access
	What   string
}

// accessesOf collects reads/writes of the fields of named (through the method
// receiver or any expression of that type) in fi, with the locks held.
func accessesOf(p *core.Prog, fi *core.FuncInfo, named *types.Named, out map[string][]fieldAccess) {
	info := fi.Pkg.TypesInfo
	// start-up code: in the method that starts the service goroutines (it contains the go
	// statements that make the object shared), everything before the first go statement is construction
	constructionEnd := token.NoPos
	if fi.Obj.Name() == "Serve" {
		ast.Inspect(fi.Decl.Body, func(n ast.Node) bool {
			if g, ok := n.(*ast.GoStmt); ok && (constructionEnd == token.NoPos || g.Pos() < constructionEnd) {
				constructionEnd = g.Pos()
			}
			return true
		})
	}
	isT := func(e ast.Expr) bool {
		t := info.TypeOf(e)
		if t == nil {
			return false
		}
		if pt, ok := t.(*types.Pointer); ok {
			t = pt.Elem()
		}
		return types.Identical(types.Unalias(t), named)
	}
	// writes: x.f = …, x.f[k] = …, x.f.g = …, x.f op= …, x.f++, delete(x.f, k), x.f = append(x.f, …)
	writes := map[*ast.SelectorExpr]string{}
	var baseField func(e ast.Expr) *ast.SelectorExpr
	baseField = func(e ast.Expr) *ast.SelectorExpr {
		switch x := ast.Unparen(e).(type) {
		case *ast.SelectorExpr:
			if isT(x.X) {
				return x
			}
			return baseField(x.X)
		case *ast.IndexExpr:
			return baseField(x.X)
		case *ast.StarExpr:
			return baseField(x.X)
		}
		return nil
	}
	ast.Inspect(fi.Decl.Body, func(n ast.Node) bool {
		switch s := n.(type) {
		case *ast.AssignStmt:
			for _, l := range s.Lhs {
				if sel := baseField(l); sel != nil {
					writes[sel] = "assignment"
				}
			}
		case *ast.IncDecStmt:
			if sel := baseField(s.X); sel != nil {
				writes[sel] = "increment"
			}
		case *ast.CallExpr:
			if isBuiltin2(info, s, "delete") && len(s.Args) == 2 {
				if sel := baseField(s.Args[0]); sel != nil {
					writes[sel] = "delete"
				}
			}
		}
		return true
	})
	// lock state per node via Flow
	fl := &core.Flow{Prog: p, Info: info, Body: fi.Decl.Body}
	fl.Events = func(n ast.Node, st *core.State) ([]string, bool) {
		if _, ok := n.(*ast.DeferStmt); ok {
			return nil, false // deferred Unlock runs at exit
		}
		var ev []string
		for _, c := range core.CallsIn(n) {
			sel, ok := c.Fun.(*ast.SelectorExpr)
			if !ok {
				continue
			}
			switch sel.Sel.Name {
			case "Lock", "RLock":
				ev = append(ev, "lock:"+types.ExprString(sel.X))
			case "Unlock", "RUnlock":
				ev = append(ev, "-lock:"+types.ExprString(sel.X))
			}
		}
		return ev, false
	}
	fl.Run()
	record := func(sel *ast.SelectorExpr, st *core.State) {
		s := info.Selections[sel]
		if s == nil {
			return
		}
		fv, ok := s.Obj().(*types.Var)
		if !ok || !fv.IsField() {
			return
		}
		// fields of sync / atomic types synchronise themselves
		if tn, ok := types.Unalias(fv.Type()).(*types.Named); ok && tn.Obj().Pkg() != nil && (tn.Obj().Pkg().Path() == "sync" || tn.Obj().Pkg().Path() == "sync/atomic") {
			return
		}
		if pt, ok := fv.Type().(*types.Pointer); ok {
			if tn, ok := types.Unalias(pt.Elem()).(*types.Named); ok && tn.Obj().Pkg() != nil && tn.Obj().Pkg().Path() == "sync" {
				return
			}
		}
		if constructionEnd != token.NoPos && sel.Pos() < constructionEnd {
			return
		}
		a := fieldAccess{Fn: fi, Pos: sel.Pos(), Locked: map[string]bool{}}
		if w, ok := writes[sel]; ok {
			a.Write, a.What = true, w
		}
		for h := range st.Held {
			if strings.HasPrefix(h, "lock:") {
				a.Locked[strings.TrimPrefix(h, "lock:")] = true
			}
		}
		out[fv.Name()] = append(out[fv.Name()], a)
	}
	// aliases: a local assigned the map/slice/pointer value of a shared field refers to the
	// same storage; using the local is an access of the field (x := s.m under the lock,
	// `range x` after the unlock)
	aliasOf := map[types.Object]*types.Var{}
	ast.Inspect(fi.Decl.Body, func(n ast.Node) bool {
		as, ok := n.(*ast.AssignStmt)
		if !ok || len(as.Lhs) != len(as.Rhs) {
			return true
		}
		for i, r := range as.Rhs {
			sel, ok := ast.Unparen(r).(*ast.SelectorExpr)
			if !ok || !isT(sel.X) {
				continue
			}
			sl := info.Selections[sel]
			if sl == nil {
				continue
			}
			fv, ok := sl.Obj().(*types.Var)
			if !ok || !fv.IsField() {
				continue
			}
			switch fv.Type().Underlying().(type) {
			case *types.Map, *types.Slice:
				if o := defOrUse(info, as.Lhs[i]); o != nil {
					aliasOf[o] = fv
				}
			}
		}
		return true
	})
	recordAlias := func(id *ast.Ident, st *core.State) {
		fv := aliasOf[info.Uses[id]]
		if fv == nil {
			return
		}
		if constructionEnd != token.NoPos && id.Pos() < constructionEnd {
			return
		}
		a := fieldAccess{Fn: fi, Pos: id.Pos(), Locked: map[string]bool{}}
		for h := range st.Held {
			if strings.HasPrefix(h, "lock:") {
				a.Locked[strings.TrimPrefix(h, "lock:")] = true
			}
		}
		out[fv.Name()] = append(out[fv.Name()], a)
	}
	seenSel := map[*ast.SelectorExpr]bool{}
	var lits []*ast.FuncLit
	defer func() {
		for i := 0; i < len(lits); i++ { // lits grows while nested literals are found
			lit := lits[i]
			lf := &core.Flow{Prog: p, Info: info, Body: lit.Body, Events: fl.Events}
			lf.Run()
			lf.Walk(func(n ast.Node, st *core.State, b *cfg.Block) {
				ast.Inspect(n, func(x ast.Node) bool {
					if l2, ok := x.(*ast.FuncLit); ok {
						lits = append(lits, l2)
						return false
					}
					if sel, ok := x.(*ast.SelectorExpr); ok && isT(sel.X) && !seenSel[sel] {
						seenSel[sel] = true
						record(sel, st)
					}
					if id, ok := x.(*ast.Ident); ok {
						recordAlias(id, st)
					}
					return true
				})
			})
		}
	}()
	fl.Walk(func(n ast.Node, st *core.State, b *cfg.Block) {
		ast.Inspect(n, func(x ast.Node) bool {
			if lit, ok := x.(*ast.FuncLit); ok {
				// closures run later (goroutines) or synchronously: the locks of the enclosing
				// function do not count, the literal's own Lock/Unlock calls do
				lits = append(lits, lit)
				return false
			}
			if sel, ok := x.(*ast.SelectorExpr); ok && isT(sel.X) && !seenSel[sel] {
				seenSel[sel] = true
				record(sel, st)
			}
			if id, ok := x.(*ast.Ident); ok {
				recordAlias(id, st)
			}
			return true
		})
	})
}

// c17fields applies the guard discipline to one shared type.
func c17fields(p *core.Prog, res *core.Result, named *types.Named, rule string, isCtor func(*core.FuncInfo) bool) int {
	acc := map[string][]fieldAccess{}
	for _, fi := range p.AllDecls() {
		if fi.Decl.Body == nil || isCtor(fi) || strings.HasSuffix(p.Fset.Position(fi.Decl.Pos()).Filename, "_test.go") {
			continue
		}
		// only functions of the type's own package and its methods touch unexported fields
		if fi.Pkg.Types != named.Obj().Pkg() {
			continue
		}
		accessesOf(p, fi, named, acc)
	}
	tkey := core.TypeKey(named)
	var fields []string
	for f := range acc {
		fields = append(fields, f)
	}
	sort.Strings(fields)
	n := 0
	for _, f := range fields {
		as := acc[f]
		var w *fieldAccess
		for i := range as {
			if as[i].Write {
				w = &as[i]
				break
			}
		}
		key := tkey + "." + f
		n++
		if w == nil {
			res.OKTrivial(rule, key, p.Pos(as[0].Pos), fmt.Sprintf("%d accesses, none is a write after construction", len(as)))
			continue
		}
		if len(as) == 1 && w.Fn.Obj.Name() == "Serve" {
			res.OKTrivial(rule, key, p.Pos(w.Pos), "written once by the single start-up method and accessed nowhere else")
			continue
		}
		// a common lock for all accesses
		common := map[string]bool{}
		for l := range as[0].Locked {
			common[l] = true
		}
		var unlocked *fieldAccess
		for i := range as {
			for l := range common {
				if !as[i].Locked[l] {
					delete(common, l)
				}
			}
			if len(as[i].Locked) == 0 && unlocked == nil {
				unlocked = &as[i]
			}
		}
		for _, a := range as {
			res.Fn(core.FuncKey(a.Fn.Obj))
		}
		if len(common) > 0 {
			res.OK(rule, key, p.Pos(w.Pos), fmt.Sprintf("%d accesses, all under a common lock", len(as)))
			continue
		}
		other := unlocked
		if other == nil || other == w {
			for i := range as {
				if &as[i] != w {
					other = &as[i]
					break
				}
			}
		}
		where := ""
		if other != nil {
			kind := "read"
			if other.Write {
				kind = "written"
			}
			where = fmt.Sprintf("; it is %s at %s in %s", kind, p.Pos(other.Pos), core.FuncKey(other.Fn.Obj))
		}
		res.Bad(rule, key, p.Pos(w.Pos), fmt.Sprintf("field %s of the shared %s is written (%s) at %s in %s%s, and no mutex is held at all of its %d accesses: concurrent requests race on it (for a map: 'concurrent map read and map write' aborts the process)",
			f, tkey, w.What, p.Pos(w.Pos), core.FuncKey(w.Fn.Obj), where, len(as)))
	}
	return n
}

// c17captured: local variables shared between a function and the goroutines it
// starts (or between two goroutines) must be accessed under a common mutex
// unless ordered by the go statement itself or by a join.
func c17captured(p *core.Prog, res *core.Result, fi *core.FuncInfo, rule string) int {
	info := fi.Pkg.TypesInfo
	fkey := core.FuncKey(fi.Obj)
	type acc struct {
		proc   int // 0 = function body, i>0 = goroutine literal i
		multi  bool
		write  bool
		pos    token.Pos
		locked map[string]bool
		atomic bool
	}
	var lits []*ast.FuncLit
	multi := map[*ast.FuncLit]bool{}
	// spans of the loops in which goroutines are started: body code inside such a loop runs
	// again after the goroutines of earlier iterations have started
	type span struct{ lo, hi token.Pos }
	var goLoops []span
	var loopStack []span
	var find func(n ast.Node, inLoop bool)
	find = func(n ast.Node, inLoop bool) {
		ast.Inspect(n, func(x ast.Node) bool {
			switch s := x.(type) {
			case *ast.ForStmt:
				loopStack = append(loopStack, span{s.Pos(), s.End()})
				find(s.Body, true)
				loopStack = loopStack[:len(loopStack)-1]
				return false
			case *ast.RangeStmt:
				loopStack = append(loopStack, span{s.Pos(), s.End()})
				find(s.Body, true)
				loopStack = loopStack[:len(loopStack)-1]
				return false
			case *ast.GoStmt:
				if l, ok := s.Call.Fun.(*ast.FuncLit); ok {
					lits = append(lits, l)
					multi[l] = inLoop
					if inLoop && len(loopStack) > 0 {
						goLoops = append(goLoops, loopStack...)
					}
					saved := loopStack
					loopStack = nil
					find(l.Body, false)
					loopStack = saved
					return false
				}
			case *ast.CallExpr:
				if sel, ok := s.Fun.(*ast.SelectorExpr); ok && sel.Sel.Name == "Go" && len(s.Args) == 1 {
					if l, ok := s.Args[0].(*ast.FuncLit); ok {
						lits = append(lits, l)
						multi[l] = inLoop
						if inLoop && len(loopStack) > 0 {
							goLoops = append(goLoops, loopStack...)
						}
						saved := loopStack
						loopStack = nil
						find(l.Body, false)
						loopStack = saved
						return false
					}
				}
			}
			return true
		})
	}
	find(fi.Decl.Body, false)
	if len(lits) == 0 {
		return 0
	}
	nGo := len(lits)
	// helper closures (f := func…) called from a goroutine literal run in that
	// goroutine: they are processes of their own that may run concurrently
	// with themselves
	{
		inGo := func(pos token.Pos) bool {
			for _, l := range lits[:nGo] {
				if pos >= l.Pos() && pos < l.End() {
					return true
				}
			}
			return false
		}
		helpers := map[types.Object]*ast.FuncLit{}
		ast.Inspect(fi.Decl.Body, func(n ast.Node) bool {
			if as, ok := n.(*ast.AssignStmt); ok && len(as.Lhs) == len(as.Rhs) {
				for i, l := range as.Lhs {
					if fl, ok := ast.Unparen(as.Rhs[i]).(*ast.FuncLit); ok {
						if o := defOrUse(info, l); o != nil {
							helpers[o] = fl
						}
					}
				}
			}
			return true
		})
		var hs []*ast.FuncLit
		ast.Inspect(fi.Decl.Body, func(n ast.Node) bool {
			if id, ok := n.(*ast.Ident); ok {
				if fl := helpers[info.Uses[id]]; fl != nil && inGo(id.Pos()) && !multi[fl] {
					multi[fl] = true
					hs = append(hs, fl)
				}
			}
			return true
		})
		sort.Slice(hs, func(i, j int) bool { return hs[i].Pos() < hs[j].Pos() })
		lits = append(lits, hs...)
	}
	procOf := func(pos token.Pos) int {
		best := 0
		for i, l := range lits {
			if pos >= l.Pos() && pos < l.End() {
				best = i + 1 // innermost wins because nested literals come later in lits
			}
		}
		return best
	}
	firstGo := token.Pos(1 << 40)
	for _, l := range lits[:nGo] {
		if l.Pos() < firstGo {
			firstGo = l.Pos()
		}
	}
	// join point of the body: position of the last Wait() call in the body process
	joinPos := token.NoPos
	ast.Inspect(fi.Decl.Body, func(x ast.Node) bool {
		if c, ok := x.(*ast.CallExpr); ok {
			if sel, ok := c.Fun.(*ast.SelectorExpr); ok && sel.Sel.Name == "Wait" && procOf(c.Pos()) == 0 {
				joinPos = c.End()
			}
		}
		return true
	})
	// writes
	writeIdents := map[*ast.Ident]bool{}
	atomicIdents := map[*ast.Ident]bool{}
	ast.Inspect(fi.Decl.Body, func(n ast.Node) bool {
		switch s := n.(type) {
		case *ast.AssignStmt:
			for _, l := range s.Lhs {
				e := ast.Unparen(l)
				for {
					if ix, ok := e.(*ast.IndexExpr); ok {
						e = ast.Unparen(ix.X)
						continue
					}
					break
				}
				if id, ok := e.(*ast.Ident); ok && s.Tok != token.DEFINE {
					writeIdents[id] = true
				}
			}
		case *ast.IncDecStmt:
			if id, ok := ast.Unparen(s.X).(*ast.Ident); ok {
				writeIdents[id] = true
			}
		case *ast.CallExpr:
			if fn := core.CalleeFunc(info, s); fn != nil && fn.Pkg() != nil && fn.Pkg().Path() == "sync/atomic" {
				for _, a := range s.Args {
					if u, ok := ast.Unparen(a).(*ast.UnaryExpr); ok && u.Op == token.AND {
						if id, ok := ast.Unparen(u.X).(*ast.Ident); ok {
							atomicIdents[id] = true
						}
					}
				}
			}
		}
		return true
	})
	// lock regions: per process body, Flow with lock events
	lockedAt := map[*ast.Ident]map[string]bool{}
	bodies := []*ast.BlockStmt{fi.Decl.Body}
	for _, l := range lits {
		bodies = append(bodies, l.Body)
	}
	for _, body := range bodies {
		fl := &core.Flow{Prog: p, Info: info, Body: body}
		fl.Events = func(n ast.Node, st *core.State) ([]string, bool) {
			if _, ok := n.(*ast.DeferStmt); ok {
				return nil, false
			}
			var ev []string
			for _, c := range core.CallsIn(n) {
				if sel, ok := c.Fun.(*ast.SelectorExpr); ok {
					switch sel.Sel.Name {
					case "Lock", "RLock":
						ev = append(ev, "lock:"+types.ExprString(sel.X))
					case "Unlock", "RUnlock":
						ev = append(ev, "-lock:"+types.ExprString(sel.X))
					}
				}
			}
			return ev, false
		}
		fl.Run()
		fl.Walk(func(n ast.Node, st *core.State, b *cfg.Block) {
			ast.Inspect(n, func(x ast.Node) bool {
				if _, ok := x.(*ast.FuncLit); ok {
					return false
				}
				if id, ok := x.(*ast.Ident); ok {
					m := map[string]bool{}
					for h := range st.Held {
						if strings.HasPrefix(h, "lock:") {
							m[h] = true
						}
					}
					lockedAt[id] = m
				}
				return true
			})
		})
	}
	vars := map[types.Object][]acc{}
	ast.Inspect(fi.Decl.Body, func(n ast.Node) bool {
		id, ok := n.(*ast.Ident)
		if !ok {
			return true
		}
		o, ok := info.Uses[id].(*types.Var)
		if !ok || o.IsField() || o.Pos() < fi.Decl.Body.Pos() || o.Pos() > fi.Decl.Body.End() {
			return true
		}
		// declared in the function body outside every literal, or in an enclosing literal of the user
		declProc := procOf(o.Pos())
		useProc := procOf(id.Pos())
		if declProc == useProc && declProc != 0 {
			return true // goroutine-local
		}
		// mutexes, wait groups and contexts synchronise themselves; so does a channel value, but
		// not the variable that holds it: a channel variable that is assigned again while a
		// goroutine reads it is an ordinary shared variable (handled below)
		ts := o.Type().String()
		if strings.Contains(ts, "sync.") || strings.Contains(ts, "context.Context") || strings.Contains(ts, "errgroup.Group") {
			return true
		}
		a := acc{proc: useProc, write: writeIdents[id], pos: id.Pos(), locked: lockedAt[id], atomic: atomicIdents[id]}
		if useProc > 0 {
			a.multi = multi[lits[useProc-1]]
		}
		vars[o] = append(vars[o], a)
		return true
	})
	n := 0
	var objs []types.Object
	for o := range vars {
		objs = append(objs, o)
	}
	sort.Slice(objs, func(i, j int) bool { return objs[i].Pos() < objs[j].Pos() })
	// a shared slice handed out of the critical section by alias and then truncated in place:
	// `batch := q; q = q[:0]` keeps q's backing array, so the other goroutine's append(q, …)
	// overwrites the elements batch still holds, whatever lock protects q itself
	aliasOfShared := map[types.Object]token.Pos{}
	truncated := map[types.Object]token.Pos{}
	ast.Inspect(fi.Decl.Body, func(nd ast.Node) bool {
		as, ok := nd.(*ast.AssignStmt)
		if !ok || len(as.Lhs) != len(as.Rhs) {
			return true
		}
		for i, r := range as.Rhs {
			r = ast.Unparen(r)
			lo := defOrUse(info, as.Lhs[i])
			if id, ok := r.(*ast.Ident); ok {
				if so, ok := info.Uses[id].(*types.Var); ok && lo != nil && lo != so {
					if _, isSlice := so.Type().Underlying().(*types.Slice); isSlice {
						if _, shared := vars[so]; shared {
							aliasOfShared[so] = as.Pos()
						}
					}
				}
			}
			if se, ok := r.(*ast.SliceExpr); ok && se.Low == nil {
				if so := defOrUse(info, se.X); so != nil && so == lo {
					if _, shared := vars[so]; shared {
						truncated[so] = as.Pos()
					}
				}
			}
		}
		return true
	})
	for _, o := range objs {
		as := vars[o]
		if ap, ok := aliasOfShared[o]; ok {
			if tp, ok2 := truncated[o]; ok2 {
				inG := false
				for _, a := range as {
					if a.proc > 0 {
						inG = true
					}
				}
				if inG {
					n++
					res.Fn(fkey)
					res.Bad(rule, fmt.Sprintf("%s|%s|alias", fkey, o.Name()), p.Pos(tp), fmt.Sprintf("%s: the slice %s, shared between goroutines, is copied by reference at %s and then truncated in place at %s (%s = %s[:…]): both keep one backing array, so appends by the other goroutine overwrite the elements the copy still holds — they are lost and later ones are delivered twice", fkey, o.Name(), p.Pos(ap), p.Pos(tp), o.Name(), o.Name()))
					continue
				}
			}
		}
		inGoroutine := false
		for _, a := range as {
			if a.proc > 0 {
				inGoroutine = true
			}
		}
		if !inGoroutine {
			continue
		}
		inGoLoop := func(pos token.Pos) bool {
			for _, sp := range goLoops {
				if pos >= sp.lo && pos < sp.hi {
					return true
				}
			}
			return false
		}
		if _, isChan := types.Unalias(o.Type()).Underlying().(*types.Chan); isChan {
			reassigned := false
			for _, a := range as {
				if a.write && (a.pos > firstGo || inGoLoop(a.pos)) {
					reassigned = true
				}
			}
			if !reassigned {
				continue // the channel variable is fixed before the goroutines start
			}
		}
		// keep the accesses that can run concurrently with a goroutine access
		var live []acc
		for _, a := range as {
			if a.proc == 0 && (a.pos < firstGo && !inGoLoop(a.pos) || (joinPos != token.NoPos && a.pos > joinPos)) {
				continue // before the first go statement (and not in a loop that starts goroutines) / after the join
			}
			live = append(live, a)
		}
		var conflict *[2]acc
		for i := range live {
			for j := range live {
				if i >= j && !(i == j && live[i].multi && live[i].write) {
					continue
				}
				a, b := live[i], live[j]
				if a.proc == b.proc && !(a.multi) {
					continue
				}
				if !a.write && !b.write {
					continue
				}
				if a.atomic && b.atomic {
					continue
				}
				common := false
				for l := range a.locked {
					if b.locked[l] {
						common = true
					}
				}
				if common {
					continue
				}
				if conflict == nil {
					conflict = &[2]acc{a, b}
				}
			}
		}
		n++
		res.Fn(fkey)
		key := fmt.Sprintf("%s|%s", fkey, o.Name())
		if conflict == nil {
			res.OK(rule, key, p.Pos(o.Pos()), "every pair of conflicting accesses is ordered (go statement / join) or holds a common mutex")
		} else {
			w, r := conflict[0], conflict[1]
			if !w.write {
				w, r = r, w
			}
			kind := "read"
			if r.write {
				kind = "written"
			}
			res.Bad(rule, key, p.Pos(w.pos), fmt.Sprintf("%s: local variable %s is shared with a goroutine: it is written at %s and %s at %s by concurrently running code with no common mutex and no join in between (data race)",
				fkey, o.Name(), p.Pos(w.pos), kind, p.Pos(r.pos)))
		}
	}
	return n
}

func c17(p *core.Prog, res *core.Result) {
	res.Explanation = "C17 (guard discipline): G1 for every struct type shared by concurrently running handlers or pipeline goroutines (table confirmed by reading, re-derived by walking the field graph from server.GripServer), " +
		"every field that is written after construction is accessed only while a common mutex of the object is held (must-lockset over go/cfg; fields of sync/atomic types excepted; constructors excluded); " +
		"G3 goroutines started inside a loop use no variable of the loop statement itself (one variable per loop before go 1.22); G4 a slice sent on a channel is not resliced and reused by the sender; G2 in every function that starts goroutines and is reachable from a request, each local variable shared between the function and its goroutines (or between goroutines) is accessed either before the first go statement, after the join, atomically, or under a common mutex."
	res.NotDecided = []string{"linearizability of the final state", "races inside the storage engines and on protobuf message internals", "ownership transfer of travelers/elements through channels (deliberately outside a lockset rule)"}
	res.Assumptions = []string{"every exported method of a shared type can run concurrently with every other one"}
	res.Rule("G1", "fields of shared objects written after construction are always accessed under a common mutex", 8)
	res.Rule("G2", "locals shared with goroutines are ordered or guarded", 6)
	res.Rule("G3", "goroutines started in a loop capture no variable of the loop statement", 2)
	res.Rule("G4", "a slice handed over on a channel is not reused by the sender", 2)

	for _, sh := range c17Shared {
		named := p.Named(sh.rel, sh.name)
		if named == nil {
			res.Fail("shared type %s.%s not found", sh.rel, sh.name)
			continue
		}
		isCtor := func(fi *core.FuncInfo) bool {
			if fi.Decl.Recv != nil {
				return false
			}
			sig := fi.Obj.Type().(*types.Signature)
			for i := 0; i < sig.Results().Len(); i++ {
				t := sig.Results().At(i).Type()
				if pt, ok := t.(*types.Pointer); ok {
					t = pt.Elem()
				}
				if types.Identical(types.Unalias(t), named) {
					return true
				}
				// constructors returning an interface: named "New…" in the type's package
			}
			return strings.HasPrefix(fi.Obj.Name(), "New") && fi.Pkg.Types == named.Obj().Pkg()
		}
		c17fields(p, res, named, "G1", isCtor)
	}
	// functions that start goroutines, in the request-reachable packages
	pkgs := map[string]bool{}
	for _, r := range []string{"server", "engine/queue", "engine/core", "engine/logic", "engine/pipeline", "util", "jobstorage", "gdbi", "kvgraph", "kvindex"} {
		pkgs[core.ModPath+"/"+r] = true
	}
	reach := reachableFrom(p, handlerRoots(p))
	reachObj := map[*types.Func]bool{}
	for f := range reach {
		for f.Parent() != nil {
			f = f.Parent()
		}
		if o, ok := f.Object().(*types.Func); ok && o != nil {
			reachObj[o.Origin()] = true
		}
	}
	res.Extra["request_reachable_functions"] = len(reachObj)
	if len(reachObj) < 300 {
		res.Fail("only %d request-reachable functions (call graph lost its roots?)", len(reachObj))
	}
	for _, fi := range p.AllDecls() {
		if fi.Decl.Body == nil || !pkgs[fi.Pkg.PkgPath] || !reachObj[fi.Obj] || strings.HasSuffix(p.Fset.Position(fi.Decl.Pos()).Filename, "_test.go") {
			continue
		}
		c17captured(p, res, fi, "G2")
		loopVarCapture(p, res, fi, "G3")
		sliceHandOver(p, res, fi, "G4")
	}
}

func c17selftest(st *core.Prog, res *core.Result) {
	rel := core.SelfMod + "/c17"
	pk := st.Pkg(rel)
	if pk == nil {
		res.Fail("C17 self-test package did not load")
		return
	}
	for _, fi := range st.AllDecls() {
		if fi.Pkg != pk || fi.Decl.Recv != nil {
			continue
		}
		name := fi.Obj.Name()
		var want core.Status
		switch {
		case strings.HasPrefix(name, "Ok"):
			want = core.Discharged
		case strings.HasPrefix(name, "Bad"):
			want = core.Violated
		default:
			continue
		}
		tmp := core.NewResult("C17", "self")
		switch {
		case strings.Contains(name, "Loop"):
			loopVarCapture(st, tmp, fi, "G3")
		case strings.Contains(name, "HandOver"):
			sliceHandOver(st, tmp, fi, "G4")
		default:
			c17captured(st, tmp, fi, "G2")
		}
		got := core.Discharged
		for _, o := range tmp.Obls {
			if o.Status == core.Violated {
				got = core.Violated
			}
		}
		if got != want {
			res.Fail("self-test %s: captured-variable rule gave %s, expected %s", name, got, want)
		} else {
			res.OKTrivial("SELF", "selftest|c17."+name, "-", "captured-variable rule gives "+string(got)+" as expected")
		}
	}
	for _, tn := range []string{"Guarded", "Unguarded", "Aliased"} {
		named := st.Named(rel, tn)
		if named == nil {
			res.Fail("self-test type %s missing", tn)
			continue
		}
		tmp := core.NewResult("C17", "self")
		c17fields(st, tmp, named, "G1", func(fi *core.FuncInfo) bool { return strings.HasPrefix(fi.Obj.Name(), "New") })
		got := core.Discharged
		for _, o := range tmp.Obls {
			if o.Status == core.Violated {
				got = core.Violated
			}
		}
		want := core.Discharged
		if tn == "Unguarded" || tn == "Aliased" {
			want = core.Violated
		}
		if got != want {
			res.Fail("self-test type %s: field rule gave %s, expected %s", tn, got, want)
		} else {
			res.OKTrivial("SELF", "selftest|c17."+tn, "-", "field rule gives "+string(got)+" as expected")
		}
	}
}

// ---------------------------------------------------------------------------
// G3: goroutines started in a loop do not capture the loop's own variables
// (language versions before 1.22 have one variable per loop, not per iteration).

func goVersionBefore122(p *core.Prog) (bool, string) {
	for _, pk := range p.Pkgs {
		if pk.Module != nil && pk.Module.GoVersion != "" {
			var maj, min int
			fmt.Sscanf(pk.Module.GoVersion, "%d.%d", &maj, &min)
			return maj == 1 && min < 22, pk.Module.GoVersion
		}
	}
	return true, "unknown"
}

// goroutineLits: function literals started as goroutines inside node (go f(), x.Go(f)).
func goroutineLits(n ast.Node) []*ast.FuncLit {
	var out []*ast.FuncLit
	ast.Inspect(n, func(x ast.Node) bool {
		switch s := x.(type) {
		case *ast.GoStmt:
			if l, ok := s.Call.Fun.(*ast.FuncLit); ok {
				out = append(out, l)
			}
		case *ast.CallExpr:
			if sel, ok := s.Fun.(*ast.SelectorExpr); ok && sel.Sel.Name == "Go" && len(s.Args) == 1 {
				if l, ok := s.Args[0].(*ast.FuncLit); ok {
					out = append(out, l)
				}
			}
		}
		return true
	})
	return out
}

func loopVarCapture(p *core.Prog, res *core.Result, fi *core.FuncInfo, rule string) int {
	info := fi.Pkg.TypesInfo
	fkey := core.FuncKey(fi.Obj)
	old, ver := goVersionBefore122(p)
	n := 0
	ast.Inspect(fi.Decl.Body, func(x ast.Node) bool {
		var vars []types.Object
		var body *ast.BlockStmt
		switch s := x.(type) {
		case *ast.RangeStmt:
			if s.Tok == token.DEFINE {
				for _, e := range []ast.Expr{s.Key, s.Value} {
					if id, ok := e.(*ast.Ident); ok && id.Name != "_" {
						if o := info.Defs[id]; o != nil {
							vars = append(vars, o)
						}
					}
				}
			}
			body = s.Body
		case *ast.ForStmt:
			if as, ok := s.Init.(*ast.AssignStmt); ok && as.Tok == token.DEFINE {
				for _, l := range as.Lhs {
					if id, ok := l.(*ast.Ident); ok {
						if o := info.Defs[id]; o != nil {
							vars = append(vars, o)
						}
					}
				}
			}
			body = s.Body
		}
		if body == nil || len(vars) == 0 {
			return true
		}
		for _, lit := range goroutineLits(body) {
			n++
			res.Fn(fkey)
			key := fmt.Sprintf("%s|loop@%s|go#%d", fkey, vars[0].Name(), n)
			var captured types.Object
			var at token.Pos
			ast.Inspect(lit.Body, func(y ast.Node) bool {
				if id, ok := y.(*ast.Ident); ok && captured == nil {
					for _, v := range vars {
						if info.Uses[id] == v {
							captured, at = v, id.Pos()
						}
					}
				}
				return true
			})
			switch {
			case captured == nil:
				res.OK(rule, key, p.Pos(lit.Pos()), "the goroutine uses no variable of the enclosing loop statement (copies or arguments only)")
			case !old:
				res.OKTrivial(rule, key, p.Pos(lit.Pos()), "go "+ver+": loop variables are per iteration")
			default:
				res.Bad(rule, key, p.Pos(at), fmt.Sprintf("%s: the goroutine started at %s uses the loop variable %s (go.mod says go %s: one variable for all iterations): every goroutine sees the value of the last iteration, so the workers all serve the same item and the others are never served", fkey, p.Pos(lit.Pos()), captured.Name(), ver))
			}
		}
		return true
	})
	return n
}

// ---------------------------------------------------------------------------
// G4: a slice handed to another goroutine through a channel is not written
// again by the sender: after `ch <- s` the next assignment to s is a fresh
// allocation, not a reslice of the same backing array.

func sliceHandOver(p *core.Prog, res *core.Result, fi *core.FuncInfo, rule string) int {
	info := fi.Pkg.TypesInfo
	fkey := core.FuncKey(fi.Obj)
	n := 0
	// slice locals that are sent on a channel
	sent := map[types.Object]token.Pos{}
	ast.Inspect(fi.Decl.Body, func(x ast.Node) bool {
		if snd, ok := x.(*ast.SendStmt); ok {
			if o := defOrUse(info, snd.Value); o != nil {
				if _, isSlice := o.Type().Underlying().(*types.Slice); isSlice {
					if _, seen := sent[o]; !seen {
						sent[o] = snd.Pos()
					}
				}
			}
		}
		return true
	})
	var objs []types.Object
	for o := range sent {
		objs = append(objs, o)
	}
	sort.Slice(objs, func(i, j int) bool { return objs[i].Pos() < objs[j].Pos() })
	for _, o := range objs {
		n++
		res.Fn(fkey)
		key := fmt.Sprintf("%s|%s", fkey, o.Name())
		bad := token.NoPos
		what := ""
		ast.Inspect(fi.Decl.Body, func(x ast.Node) bool {
			as, ok := x.(*ast.AssignStmt)
			if !ok || len(as.Lhs) != len(as.Rhs) || bad != token.NoPos {
				return true
			}
			for i, l := range as.Lhs {
				if defOrUse(info, l) != o || as.Tok == token.DEFINE {
					continue
				}
				switch r := ast.Unparen(as.Rhs[i]).(type) {
				case *ast.SliceExpr:
					if defOrUse(info, r.X) == o {
						bad, what = as.Pos(), types.ExprString(r)
					}
				case *ast.Ident:
					if info.Uses[r] == o {
						continue
					}
				}
			}
			return true
		})
		if bad != token.NoPos {
			res.Bad(rule, key, p.Pos(bad), fmt.Sprintf("%s: the slice %s is sent to another goroutine at %s and then reused as %s at %s: sender and receiver share one backing array, so the receiver sees elements overwritten while it still reads them (elements lost or written twice)", fkey, o.Name(), p.Pos(sent[o]), what, p.Pos(bad)))
		} else {
			res.OK(rule, key, p.Pos(sent[o]), "after the hand-over the variable is only given fresh allocations")
		}
	}
	return n
}
