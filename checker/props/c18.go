package props

import (
	"fmt"
	"go/ast"
	"go/token"
	"go/types"
	"sort"
	"strings"

	"gripverif/core"
)

func init() {
	Registry["C18"] = c18
	SelfTests["C18"] = c18selftest
}

// capturedMutables: variables captured by a `go func(){…}()` literal that are
// assigned elsewhere in the enclosing function (outside the literal, other
// than their declaration) — the goroutine may observe the later value.
func capturedMutables(p *core.Prog, res *core.Result, fi *core.FuncInfo, rule string) int {
	info := fi.Pkg.TypesInfo
	fkey := core.FuncKey(fi.Obj)
	var lits []*ast.FuncLit
	ast.Inspect(fi.Decl.Body, func(n ast.Node) bool {
		if g, ok := n.(*ast.GoStmt); ok {
			if l, ok := g.Call.Fun.(*ast.FuncLit); ok {
				lits = append(lits, l)
			}
		}
		return true
	})
	n := 0
	for li, lit := range lits {
		// variables declared outside the literal and used inside
		used := map[types.Object]token.Pos{}
		ast.Inspect(lit.Body, func(x ast.Node) bool {
			if id, ok := x.(*ast.Ident); ok {
				if o, ok := info.Uses[id].(*types.Var); ok && !o.IsField() && o.Pos() < lit.Pos() && o.Pos() >= fi.Decl.Pos() {
					if _, seen := used[o]; !seen {
						used[o] = id.Pos()
					}
				}
			}
			return true
		})
		var objs []types.Object
		for o := range used {
			objs = append(objs, o)
		}
		sort.Slice(objs, func(i, j int) bool { return objs[i].Pos() < objs[j].Pos() })
		for _, o := range objs {
			// assignments to o outside the literal (the defining := does not count)
			var assigned []token.Pos
			ast.Inspect(fi.Decl.Body, func(x ast.Node) bool {
				if x == lit {
					return false
				}
				switch s := x.(type) {
				case *ast.AssignStmt:
					for _, l := range s.Lhs {
						if id, ok := l.(*ast.Ident); ok && info.Uses[id] == o {
							assigned = append(assigned, s.Pos())
						}
					}
				case *ast.IncDecStmt:
					if id, ok := s.X.(*ast.Ident); ok && info.Uses[id] == o {
						assigned = append(assigned, s.Pos())
					}
				case *ast.RangeStmt:
					for _, kv := range []ast.Expr{s.Key, s.Value} {
						if id, ok := kv.(*ast.Ident); ok && (info.Uses[id] == o || (info.Defs[id] == o && s.Tok == token.DEFINE)) {
							// pre-1.22 loop variables are shared between iterations
							assigned = append(assigned, s.Pos())
						}
					}
				}
				return true
			})
			// writes inside the literal to a variable also read/written outside
			n++
			key := fmt.Sprintf("%s|go#%d|%s", fkey, li+1, o.Name())
			res.Fn(fkey)
			if len(assigned) == 0 {
				res.OK(rule, key, p.Pos(used[o]), "captured variable is never assigned outside the goroutine after its declaration")
			} else {
				res.Bad(rule, key, p.Pos(used[o]), fmt.Sprintf("%s: the goroutine started at %s captures variable %s by reference, and the enclosing function assigns it again at %s: the goroutine can read the later value (e.g. the next graph's stream) instead of the one current when it was started",
					fkey, p.Pos(lit.Pos()), o.Name(), p.Pos(assigned[0])))
			}
		}
	}
	return n
}

func c18(p *core.Prog, res *core.Result) {
	res.Explanation = "C18 (structural clauses): B1 channel typestate of the bulk handler (no close/send on a possibly closed or nil stream); " +
		"B2 send/count pairing — every send on the element stream is paired with one increment of the insert counter and every validation failure with one increment of the error counter; " +
		"B3 batch flush — every batch that is sent when full inside the batching loop is also sent after the loop; " +
		"B4 the embedded driver's BulkAdd touches the timestamp after writing (shared with C03); B5 the per-element write filter enforces before it delivers (shared with C05); " +
		"B6 no variable captured by a loader goroutine is assigned again by the receive loop."
	res.NotDecided = []string{"equality of the final state with one-by-one loading", "the reported count when a driver's BulkAdd itself fails part-way"}
	res.Rule("B1", "bulk handler: channel typestate", 1)
	res.Rule("B2", "bulk handler: send/count pairing", 3)
	res.Rule("B3", "batcher: batches are flushed after the loop", 2)
	res.Rule("B4", "embedded BulkAdd touches the timestamp", 1)
	res.Rule("B5", "bulk write filter enforces per element", 1)
	res.Rule("B6", "loader goroutines capture no variable that is reassigned", 2)
	res.Rule("B7", "the batcher does not reuse a batch slice it has handed to a writer goroutine", 2)
	if sb := p.Func("util", "StreamBatch"); sb != nil {
		sliceHandOver(p, res, sb, "B7")
	} else {
		res.Fail("util.StreamBatch not found")
	}

	bulk := p.Func("server", "GripServer.BulkAdd")
	if bulk == nil {
		res.Fail("server.GripServer.BulkAdd not found")
		return
	}
	info := bulk.Pkg.TypesInfo
	if c06chanState(p, res, bulk, "B1") == 0 {
		res.Fail("no closable channel found in server.BulkAdd")
	}
	capturedMutables(p, res, bulk, "B6")

	// B2: find the counters from the result literal BulkEditResult{InsertCount: x, ErrorCount: y}
	var insertVar, errorVar types.Object
	ast.Inspect(bulk.Decl.Body, func(n ast.Node) bool {
		if cl, ok := n.(*ast.CompositeLit); ok {
			for _, el := range cl.Elts {
				if kv, ok := el.(*ast.KeyValueExpr); ok {
					if id, ok := kv.Key.(*ast.Ident); ok {
						switch id.Name {
						case "InsertCount":
							insertVar = defOrUse(info, kv.Value)
						case "ErrorCount":
							errorVar = defOrUse(info, kv.Value)
						}
					}
				}
			}
		}
		return true
	})
	if insertVar == nil || errorVar == nil {
		res.Unres("B2", "server.GripServer.BulkAdd|counters", p.Pos(bulk.Decl.Pos()), "InsertCount/ErrorCount variables of the result not recognised")
	} else {
		incs := func(blk *ast.BlockStmt, v types.Object) int {
			n := 0
			for _, s := range blk.List {
				if inc, ok := s.(*ast.IncDecStmt); ok && inc.Tok == token.INC && defOrUse(info, inc.X) == v {
					n++
				}
			}
			return n
		}
		sends := func(blk *ast.BlockStmt) int {
			n := 0
			for _, s := range blk.List {
				if _, ok := s.(*ast.SendStmt); ok {
					n++
				}
			}
			return n
		}
		k := 0
		ast.Inspect(bulk.Decl.Body, func(n ast.Node) bool {
			is, ok := n.(*ast.IfStmt)
			if !ok {
				return true
			}
			// if err != nil { errorCount++ … } else { insertCount++; stream <- … }   after a Validate call
			be, ok := is.Cond.(*ast.BinaryExpr)
			if !ok || (be.Op != token.NEQ && be.Op != token.EQL) || !isNilIdent2(info, be.Y) {
				return true
			}
			errObj := defOrUse(info, be.X)
			validated := false
			ast.Inspect(bulk.Decl.Body, func(m ast.Node) bool {
				if as, ok := m.(*ast.AssignStmt); ok && len(as.Rhs) == 1 && as.End() <= is.Pos() {
					if c, ok := as.Rhs[0].(*ast.CallExpr); ok {
						if ev, _ := validateEvent(info, c); ev != "" {
							for _, l := range as.Lhs {
								if defOrUse(info, l) == errObj {
									validated = true
								}
							}
						}
					}
				}
				return true
			})
			if !validated {
				return true
			}
			k++
			key := fmt.Sprintf("server.GripServer.BulkAdd|validate#%d", k)
			var problems []string
			// `err != nil`: body = failure, else = success; `err == nil`: the other way round
			failB, okB := is.Body, (*ast.BlockStmt)(nil)
			okB, _ = is.Else.(*ast.BlockStmt)
			if be.Op == token.EQL {
				failB, okB = okB, is.Body
			}
			if failB == nil || incs(failB, errorVar) != 1 {
				problems = append(problems, "the validation-failure branch does not increment the error counter exactly once")
			}
			if failB != nil && sends(failB) != 0 {
				problems = append(problems, "the validation-failure branch sends the invalid element to the loader")
			}
			eb := okB
			if eb == nil || sends(eb) != 1 || incs(eb, insertVar) != 1 {
				problems = append(problems, "the accepted branch does not pair exactly one send with exactly one increment of the insert counter")
			}
			if len(problems) == 0 {
				res.OK("B2", key, p.Pos(is.Pos()), "failure: errorCount++ and no send; success: one send and one insertCount++")
			} else {
				res.Bad("B2", key, p.Pos(is.Pos()), "server.BulkAdd: "+strings.Join(problems, "; ")+" — the reported counts no longer equal the numbers of valid/invalid elements")
			}
			return true
		})
		if k < 2 {
			res.Fail("B2 found only %d validate/branch sites in server.BulkAdd", k)
		}
		// every send on the stream is inside such a branch
		totalSends := 0
		ast.Inspect(bulk.Decl.Body, func(n ast.Node) bool {
			if _, ok := n.(*ast.SendStmt); ok {
				totalSends++
			}
			return true
		})
		if totalSends == k {
			res.OK("B2", "server.GripServer.BulkAdd|all sends counted", p.Pos(bulk.Decl.Pos()), fmt.Sprintf("%d sends, all in validated success branches", totalSends))
		} else {
			res.Bad("B2", "server.GripServer.BulkAdd|all sends counted", p.Pos(bulk.Decl.Pos()), fmt.Sprintf("%d sends on the element stream but only %d validated success branches: some element reaches the loader without validation/counting", totalSends, k))
		}
	}

	// B3 batch flush in util.StreamBatch
	if sb := p.Func("util", "StreamBatch"); sb != nil {
		c18flush(p, res, sb, "B3")
	} else {
		res.Fail("util.StreamBatch not found")
	}
	// B4
	if fi := p.Func("kvgraph", "KVInterfaceGDB.BulkAdd"); fi != nil {
		mustTouch(p, res, newTouchMust(p), fi, "B4")
	}
	// B5
	if bf := p.Func("accounts", "BulkWriteFilter.RecvMsg"); bf != nil {
		table, _ := constStringMap(p, "accounts", "MethodMap")
		c := &c05ctx{p: p, accounts: "accounts", filterOK: map[types.Object]bool{}, graphExtractors: map[*types.Func]bool{}}
		res.Fn(core.FuncKey(bf.Obj))
		checkRecvFilter(p, res, bf, table["/gripql.Edit/BulkAdd"], c, "B5", "accounts.BulkWriteFilter.RecvMsg")
	}
}

func isNilIdent2(info *types.Info, e ast.Expr) bool {
	id, ok := ast.Unparen(e).(*ast.Ident)
	return ok && id.Name == "nil" && info.Uses[id] == types.Universe.Lookup("nil")
}

// c18flush: a slice that is sent on channel C inside a loop (when full) must be sent on C after the loop.
func c18flush(p *core.Prog, res *core.Result, fi *core.FuncInfo, rule string) int {
	info := fi.Pkg.TypesInfo
	fkey := core.FuncKey(fi.Obj)
	n := 0
	for _, st := range fi.Decl.Body.List {
		var body *ast.BlockStmt
		var loopEnd token.Pos
		switch l := st.(type) {
		case *ast.RangeStmt:
			body, loopEnd = l.Body, l.End()
		case *ast.ForStmt:
			body, loopEnd = l.Body, l.End()
		default:
			continue
		}
		type pair struct{ ch, sl types.Object }
		inLoop := map[pair]token.Pos{}
		ast.Inspect(body, func(x ast.Node) bool {
			if s, ok := x.(*ast.SendStmt); ok {
				ch, sl := defOrUse(info, s.Chan), defOrUse(info, s.Value)
				if ch != nil && sl != nil {
					if _, isSl := sl.Type().Underlying().(*types.Slice); isSl {
						inLoop[pair{ch, sl}] = s.Pos()
					}
				}
			}
			return true
		})
		var ps []pair
		for pr := range inLoop {
			ps = append(ps, pr)
		}
		sort.Slice(ps, func(i, j int) bool { return ps[i].sl.Pos() < ps[j].sl.Pos() })
		for _, pr := range ps {
			n++
			res.Fn(fkey)
			flushed := false
			for _, after := range fi.Decl.Body.List {
				if after.Pos() < loopEnd {
					continue
				}
				if s, ok := after.(*ast.SendStmt); ok && defOrUse(info, s.Chan) == pr.ch && defOrUse(info, s.Value) == pr.sl {
					flushed = true
				}
			}
			key := fmt.Sprintf("%s|%s→%s", fkey, pr.sl.Name(), pr.ch.Name())
			if flushed {
				res.OK(rule, key, p.Pos(inLoop[pr]), "the partial batch is sent after the loop on every path")
			} else {
				res.Bad(rule, key, p.Pos(inLoop[pr]), fmt.Sprintf("%s sends %s on %s only when it is full inside the loop and never after the loop: the last partial batch (stream length not a multiple of the batch size) is dropped", fkey, pr.sl.Name(), pr.ch.Name()))
			}
		}
	}
	return n
}

func c18selftest(st *core.Prog, res *core.Result) {
	rel := core.SelfMod + "/c18"
	pk := st.Pkg(rel)
	if pk == nil {
		res.Fail("C18 self-test package did not load")
		return
	}
	for _, fi := range st.AllDecls() {
		if fi.Pkg != pk {
			continue
		}
		name := fi.Obj.Name()
		var want core.Status
		switch {
		case strings.HasPrefix(name, "Ok"):
			want = core.Discharged
		case strings.HasPrefix(name, "Bad"):
			want = core.Violated
		default:
			continue
		}
		tmp := core.NewResult("C18", "self")
		capturedMutables(st, tmp, fi, "B6")
		c18flush(st, tmp, fi, "B3")
		got := core.Discharged
		for _, o := range tmp.Obls {
			if o.Status == core.Violated {
				got = core.Violated
			}
		}
		if got != want {
			res.Fail("self-test %s: bulk rules gave %s, expected %s", name, got, want)
		} else {
			res.OKTrivial("SELF", "selftest|c18."+name, "-", "bulk rules give "+string(got)+" as expected")
		}
	}
}
