package props

import (
	"fmt"
	"go/ast"
	"go/constant"
	"go/token"
	"go/types"
	"math"
	"sort"
	"strings"

	"gripverif/core"

	"golang.org/x/tools/go/ssa"
)

func init() {
	Registry["C19"] = c19
	SelfTests["C19"] = c19selftest
}

// oneofMembers lists the types of package rel that carry the marker method (e.g. isAggregate_Aggregation).
func oneofMembers(p *core.Prog, rel, marker string) []string {
	pk := p.Pkg(rel)
	if pk == nil {
		return nil
	}
	var out []string
	sc := pk.Types.Scope()
	for _, n := range sc.Names() {
		tn, ok := sc.Lookup(n).(*types.TypeName)
		if !ok {
			continue
		}
		named, ok := tn.Type().(*types.Named)
		if !ok || types.IsInterface(named) {
			continue
		}
		for i := 0; i < named.NumMethods(); i++ {
			if named.Method(i).Name() == marker {
				out = append(out, n)
			}
		}
	}
	sort.Strings(out)
	return out
}

// typeSwitchCases returns, for the first type switch in body whose tag type is
// the interface named ifaceName, the case type names and whether a default exists.
func typeSwitchCases(info *types.Info, body ast.Node, ifaceName string) (cases map[string]*ast.CaseClause, hasDefault bool, found *ast.TypeSwitchStmt) {
	cases = map[string]*ast.CaseClause{}
	ast.Inspect(body, func(n ast.Node) bool {
		ts, ok := n.(*ast.TypeSwitchStmt)
		if !ok || found != nil {
			return found == nil
		}
		var x ast.Expr
		switch a := ts.Assign.(type) {
		case *ast.ExprStmt:
			if ta, ok := a.X.(*ast.TypeAssertExpr); ok {
				x = ta.X
			}
		case *ast.AssignStmt:
			if len(a.Rhs) == 1 {
				if ta, ok := a.Rhs[0].(*ast.TypeAssertExpr); ok {
					x = ta.X
				}
			}
		}
		if x == nil {
			return true
		}
		t := info.TypeOf(x)
		nn, ok := t.(*types.Named)
		if !ok || nn.Obj().Name() != ifaceName {
			return true
		}
		found = ts
		for _, c := range ts.Body.List {
			cc := c.(*ast.CaseClause)
			if cc.List == nil {
				hasDefault = true
				continue
			}
			for _, e := range cc.List {
				ct := info.TypeOf(e)
				if pt, ok := ct.(*types.Pointer); ok {
					ct = pt.Elem()
				}
				if cn, ok := ct.(*types.Named); ok {
					cases[cn.Obj().Name()] = cc
				}
			}
		}
		return false
	})
	return
}

// vacuousCounters: a local numeric variable that starts at zero, is compared
// against a run-time bound, and is never assigned again.
func vacuousCounters(p *core.Prog, res *core.Result, fi *core.FuncInfo, rule string) int {
	info := fi.Pkg.TypesInfo
	fkey := core.FuncKey(fi.Obj)
	type cinfo struct {
		decl     token.Pos
		compared token.Pos
		changed  bool
	}
	vars := map[types.Object]*cinfo{}
	ast.Inspect(fi.Decl.Body, func(n ast.Node) bool {
		switch s := n.(type) {
		case *ast.AssignStmt:
			for i, l := range s.Lhs {
				o := defOrUse(info, l)
				if o == nil {
					continue
				}
				if s.Tok == token.DEFINE && info.Defs[l.(*ast.Ident)] != nil && i < len(s.Rhs) && len(s.Lhs) == len(s.Rhs) {
					if tv := info.Types[s.Rhs[i]]; tv.Value != nil && constant.Sign(constant.ToFloat(tv.Value)) == 0 {
						// a counter starts at zero; a non-zero constant is a limit, not a counter
						if b, ok := o.Type().Underlying().(*types.Basic); ok && b.Info()&types.IsNumeric != 0 {
							vars[o] = &cinfo{decl: s.Pos()}
							continue
						}
					}
				}
				if c := vars[o]; c != nil {
					c.changed = true
				}
			}
		case *ast.IncDecStmt:
			if c := vars[defOrUse(info, s.X)]; c != nil {
				c.changed = true
			}
		case *ast.UnaryExpr:
			if s.Op == token.AND {
				if c := vars[defOrUse(info, s.X)]; c != nil {
					c.changed = true
				}
			}
		case *ast.DeclStmt:
			if gd, ok := s.Decl.(*ast.GenDecl); ok {
				for _, sp := range gd.Specs {
					if vs, ok := sp.(*ast.ValueSpec); ok && len(vs.Values) == 0 {
						for _, id := range vs.Names {
							if o := info.Defs[id]; o != nil {
								if b, ok := o.Type().Underlying().(*types.Basic); ok && b.Info()&types.IsNumeric != 0 {
									vars[o] = &cinfo{decl: s.Pos()}
								}
							}
						}
					}
				}
			}
		}
		return true
	})
	ast.Inspect(fi.Decl.Body, func(n ast.Node) bool {
		be, ok := n.(*ast.BinaryExpr)
		if !ok {
			return true
		}
		switch be.Op {
		case token.LSS, token.LEQ, token.GTR, token.GEQ:
		default:
			return true
		}
		for _, pair := range [][2]ast.Expr{{be.X, be.Y}, {be.Y, be.X}} {
			if c := vars[defOrUse(info, pair[0])]; c != nil {
				if tv := info.Types[pair[1]]; tv.Value == nil && c.compared == token.NoPos {
					c.compared = be.Pos()
				}
			}
		}
		return true
	})
	n := 0
	var objs []types.Object
	for o, c := range vars {
		if c.compared != token.NoPos {
			objs = append(objs, o)
		}
	}
	sort.Slice(objs, func(i, j int) bool { return objs[i].Pos() < objs[j].Pos() })
	for _, o := range objs {
		c := vars[o]
		n++
		res.Fn(fkey)
		key := fmt.Sprintf("%s|%s", fkey, o.Name())
		if c.changed {
			res.OK(rule, key, p.Pos(c.compared), "the counter is advanced somewhere in the function")
		} else {
			res.Bad(rule, key, p.Pos(c.compared), fmt.Sprintf("%s compares the local counter %s (initialised at %s) with a run-time bound at %s but never changes it: the bound can never take effect (e.g. a requested bucket limit is ignored)",
				fkey, o.Name(), p.Pos(c.decl), p.Pos(c.compared)))
		}
	}
	return n
}

func c19(p *core.Prog, res *core.Result) {
	res.Explanation = "C19 (structural clauses): G1 aggregation dispatch totality — every member of the Aggregate oneof has an arm in the aggregate step; " +
		"G2 guards that can never fire in the aggregation code (unique-name map never written, size counter never advanced); " +
		"G3 no unguarded constant index in the finalisers (empty input); " +
		"G4 histogram structure: the membership test, evaluated on every ordering of (value, bucket start, interval), is the half-open interval [b, b+w), the first bucket is floor(min/w)*w and the bucket loop includes the bucket holding the maximum; " +
		"G5 the count aggregation increments exactly once per input row; G6 every aggregation goroutine ranges over its own channel."
	res.NotDecided = []string{"all numeric content: frequencies, percentile values, floating-point gaps between buckets", "term ranking order among equal counts"}
	res.Rule("G1", "every Aggregate oneof member has an arm in aggregate.Process", 6)
	res.Rule("G2", "no vacuous guard in the aggregation compile arm and finalisers", 2)
	res.Rule("G3", "no unguarded constant index in the aggregation finalisers", 1)
	res.Rule("G4", "histogram buckets are aligned half-open intervals covering min..max", 3)
	res.Rule("G5", "count aggregation: one increment per row", 1)
	res.Rule("G6", "each aggregation reads only its own channel", 5)
	res.Rule("G7", "aggregation workers started in the loop over aggregations use a per-iteration copy", 4)
	if af := p.Func("engine/core", "aggregate.Process"); af != nil {
		loopVarCapture(p, res, af, "G7")
	}

	proc := p.Func("engine/core", "aggregate.Process")
	comp := p.Func("engine/core", "StatementProcessor")
	if proc == nil || comp == nil {
		res.Fail("engine/core aggregate.Process / StatementProcessor not found")
		return
	}
	info := proc.Pkg.TypesInfo
	res.Fn(core.FuncKey(proc.Obj))
	res.Fn(core.FuncKey(comp.Obj))
	members := oneofMembers(p, "gripql", "isAggregate_Aggregation")
	cases, _, ts := typeSwitchCases(info, proc.Decl.Body, "isAggregate_Aggregation")
	if ts == nil || len(members) < 4 {
		res.Fail("aggregation type switch or oneof members not found (%d members)", len(members))
		return
	}
	for _, m := range members {
		if _, ok := cases[m]; ok {
			res.OK("G1", "aggregate.Process|"+m, p.Pos(cases[m].Pos()), "arm present")
		} else {
			res.Bad("G1", "aggregate.Process|"+m, p.Pos(ts.Pos()), "aggregation kind "+m+" is accepted by the wire format but has no arm in aggregate.Process: it is logged and silently produces nothing")
		}
	}
	// G2
	vacuousGuards(p, res, comp, "G2")
	vacuousCounters(p, res, proc, "G2")
	vacuousGuards(p, res, proc, "G2")
	// G3 via the SSA index rule on the finaliser closures
	p.BuildSSA()
	if sf := p.SSAFunc(proc.Obj); sf != nil {
		c := &c06ctx{p: p, res: core.NewResult("C19", "tmp"), derefM: map[*ssa.Function]map[int]bool{}}
		fns := append([]*ssa.Function{sf}, sf.AnonFuncs...)
		n := 0
		for _, f := range fns {
			c.p3(f, nil)
		}
		for _, o := range c.res.Obls {
			n++
			o.Rule = "G3"
			o.Key = "G3" + strings.TrimPrefix(o.Key, "P3")
			res.Obls = append(res.Obls, o)
		}
		if n == 0 {
			res.OKTrivial("G3", "aggregate.Process|no constant index", p.Pos(proc.Decl.Pos()), "finalisers contain no constant-index access")
		}
	}
	// G4 histogram
	if cc := cases["Aggregate_Histogram"]; cc != nil {
		c19histogram(p, res, info, cc)
	} else {
		res.Unres("G4", "histogram", p.Pos(ts.Pos()), "no histogram arm")
	}
	// G5 count
	if cc := cases["Aggregate_Count"]; cc != nil {
		ok := false
		var pos token.Pos
		ast.Inspect(cc, func(n ast.Node) bool {
			rs, isR := n.(*ast.RangeStmt)
			if !isR {
				return true
			}
			pos = rs.Pos()
			if len(rs.Body.List) == 1 {
				if inc, isInc := rs.Body.List[0].(*ast.IncDecStmt); isInc && inc.Tok == token.INC {
					ok = true
				}
			}
			return false
		})
		if ok {
			res.OK("G5", "aggregate.Process|count", p.Pos(pos), "the input loop body is exactly one increment")
		} else {
			res.Bad("G5", "aggregate.Process|count", p.Pos(cc.Pos()), "the count aggregation does not increment its counter exactly once per input row")
		}
	}
	// G6: each arm's closure ranges over aChans[a.Name] of its own aggregation variable
	for m, cc := range cases {
		var ranged []string
		ast.Inspect(cc, func(n ast.Node) bool {
			if rs, ok := n.(*ast.RangeStmt); ok {
				if ix, ok := ast.Unparen(rs.X).(*ast.IndexExpr); ok {
					ranged = append(ranged, types.ExprString(ix))
				}
			}
			return true
		})
		key := "aggregate.Process|" + m + "|input"
		if len(ranged) == 1 && strings.HasSuffix(ranged[0], "[a.Name]") {
			res.OK("G6", key, p.Pos(cc.Pos()), "ranges over "+ranged[0])
		} else {
			res.Bad("G6", key, p.Pos(cc.Pos()), fmt.Sprintf("aggregation arm %s does not read exactly its own input channel (ranges over %v): results depend on the other aggregations of the step", m, ranged))
		}
	}
}

func c19histogram(p *core.Prog, res *core.Result, info *types.Info, cc *ast.CaseClause) {
	var outer *ast.ForStmt
	ast.Inspect(cc, func(n ast.Node) bool {
		if fs, ok := n.(*ast.ForStmt); ok && outer == nil && fs.Post != nil {
			outer = fs
		}
		return outer == nil
	})
	if outer == nil {
		res.Unres("G4", "histogram|loop", p.Pos(cc.Pos()), "bucket loop not recognised")
		return
	}
	post, ok := outer.Post.(*ast.AssignStmt)
	if !ok || post.Tok != token.ADD_ASSIGN || len(post.Lhs) != 1 {
		res.Unres("G4", "histogram|loop", p.Pos(outer.Pos()), "bucket loop does not advance by `bucket += interval`")
		return
	}
	bucket := defOrUse(info, post.Lhs[0])
	width := defOrUse(info, post.Rhs[0])
	if bucket != nil && width != nil {
		// alignment: the first bucket equals floor(min/w)*w.  The start expression is evaluated
		// arithmetically (it mentions only the minimum, the interval, constants, + - * / and
		// math.Floor/Ceil/Trunc/Mod/Abs) on a grid that includes negative minima off the bucket edges.
		if init, ok := outer.Init.(*ast.AssignStmt); ok && len(init.Rhs) == 1 {
			var minVar types.Object
			ast.Inspect(init.Rhs[0], func(n ast.Node) bool {
				if id, ok := n.(*ast.Ident); ok {
					if v, ok := info.Uses[id].(*types.Var); ok && v != width {
						if bt, ok := v.Type().Underlying().(*types.Basic); ok && bt.Info()&types.IsNumeric != 0 {
							minVar = v
						}
					}
				}
				return true
			})
			var witness string
			evaluable := minVar != nil
			cells := 0
			for _, m := range []float64{-7.5, -5, -2.5, -0.5, 0, 0.5, 3, 7.5, 10} {
				for _, w := range []float64{1, 2.5, 5} {
					if !evaluable {
						break
					}
					got, ok := arithEval(info, init.Rhs[0], map[types.Object]float64{minVar: m, width: w})
					if !ok {
						evaluable = false
						break
					}
					cells++
					if want := math.Floor(m/w) * w; got != want && witness == "" {
						witness = fmt.Sprintf("for min=%v interval=%v the first bucket starts at %v, expected %v", m, w, got, want)
					}
				}
			}
			switch {
			case !evaluable:
				res.Unres("G4", "histogram|alignment", p.Pos(outer.Pos()), "start of the first bucket is not an arithmetic expression of the minimum and the interval: "+types.ExprString(init.Rhs[0]))
			case witness != "":
				res.Bad("G4", "histogram|alignment", p.Pos(outer.Pos()), fmt.Sprintf("the first histogram bucket (%s) is not floor(min/interval)*interval: %s — the values below it fall into no bucket, or buckets are not aligned to multiples of the interval", types.ExprString(init.Rhs[0]), witness))
			default:
				res.OK("G4", "histogram|alignment", p.Pos(outer.Pos()), fmt.Sprintf("%s equals floor(min/w)*w on %d (min, interval) pairs including negative minima off the bucket edges", types.ExprString(init.Rhs[0]), cells))
			}
		} else {
			res.Unres("G4", "histogram|alignment", p.Pos(outer.Pos()), "bucket loop has no start assignment")
		}
	}
	var inner *ast.RangeStmt
	ast.Inspect(outer.Body, func(n ast.Node) bool {
		if rs, ok := n.(*ast.RangeStmt); ok && inner == nil {
			inner = rs
		}
		return inner == nil
	})
	// the counting loop may live in a helper: count := countInRange(values, bucket, bucket+interval)
	subst := map[types.Object]ast.Expr{}
	if inner == nil {
		ast.Inspect(outer.Body, func(n ast.Node) bool {
			c, ok := n.(*ast.CallExpr)
			if !ok || inner != nil {
				return true
			}
			fn := core.CalleeFunc(info, c)
			if fn == nil {
				return true
			}
			hfi := p.Info(fn)
			if hfi == nil || hfi.Decl.Body == nil || hfi.Pkg.TypesInfo != info {
				return true
			}
			var hr *ast.RangeStmt
			ast.Inspect(hfi.Decl.Body, func(m ast.Node) bool {
				if rs, ok := m.(*ast.RangeStmt); ok && hr == nil {
					hr = rs
				}
				return hr == nil
			})
			if hr == nil {
				return true
			}
			sig := fn.Type().(*types.Signature)
			for i := 0; i < sig.Params().Len() && i < len(c.Args); i++ {
				subst[sig.Params().At(i)] = c.Args[i]
			}
			inner = hr
			return true
		})
	}
	if bucket == nil || width == nil || inner == nil || inner.Value == nil {
		res.Unres("G4", "histogram|loop", p.Pos(outer.Pos()), "bucket/interval/value variables not recognised")
		return
	}
	val := defOrUse(info, inner.Value)
	var cond ast.Expr
	for _, s := range inner.Body.List {
		if is, ok := s.(*ast.IfStmt); ok {
			cond = is.Cond
		}
	}
	if cond != nil && len(subst) > 0 {
		cond = substExpr(info, cond, subst)
	}
	if cond == nil {
		res.Unres("G4", "histogram|membership", p.Pos(inner.Pos()), "membership test not found")
		return
	}
	alias := func(e ast.Expr) string {
		switch defOrUse(info, e) {
		case bucket:
			return "b"
		case width:
			return "w"
		case val:
			return "v"
		}
		return ""
	}
	bad, got, n, ok := ordCompare(info, cond, []string{"v", "b", "w"}, alias,
		func(e ordEnv) bool { return e["w"] >= 1 },
		func(e ordEnv) bool { return e["v"] >= e["b"] && e["v"] < e["b"]+e["w"] })
	switch {
	case !ok:
		res.Unres("G4", "histogram|membership", p.Pos(cond.Pos()), "membership test uses more than comparisons of value, bucket start and interval")
	case bad != nil:
		res.Bad("G4", "histogram|membership", p.Pos(cond.Pos()), fmt.Sprintf("histogram membership test is not the half-open interval [b, b+w): for value=%v bucket=%v width=%v the code yields %v — boundary values are counted in two adjacent buckets or in none", bad["v"], bad["b"], bad["w"], got))
	default:
		res.OK("G4", "histogram|membership", p.Pos(cond.Pos()), fmt.Sprintf("equals b <= v < b+w on all %d orderings of (v, b, w>=1)", n))
	}
	// coverage: loop continues while bucket <= max
	covered := false
	if c, ok := outer.Cond.(*ast.BinaryExpr); ok {
		if (c.Op == token.LEQ && defOrUse(info, c.X) == bucket) || (c.Op == token.GEQ && defOrUse(info, c.Y) == bucket) {
			covered = true
		}
	}
	if covered {
		res.OK("G4", "histogram|coverage", p.Pos(outer.Pos()), "bucket loop runs while bucket <= max")
	} else {
		res.Bad("G4", "histogram|coverage", p.Pos(outer.Pos()), "the bucket loop does not run while bucket <= max: when the maximum is a multiple of the interval its bucket is never emitted and the counts do not sum to the number of values")
	}
}

func c19selftest(st *core.Prog, res *core.Result) {
	rel := core.SelfMod + "/c19"
	pk := st.Pkg(rel)
	if pk == nil {
		res.Fail("C19 self-test package did not load")
		return
	}
	for _, fi := range st.AllDecls() {
		if fi.Pkg != pk {
			continue
		}
		name := fi.Obj.Name()
		var want core.Status
		switch {
		case strings.HasPrefix(name, "Ok"):
			want = core.Discharged
		case strings.HasPrefix(name, "Bad"):
			want = core.Violated
		default:
			continue
		}
		tmp := core.NewResult("C19", "self")
		vacuousCounters(st, tmp, fi, "G2")
		if strings.Contains(name, "Hist") {
			ast.Inspect(fi.Decl.Body, func(n ast.Node) bool {
				if cc, ok := n.(*ast.CaseClause); ok {
					c19histogram(st, tmp, fi.Pkg.TypesInfo, cc)
					return false
				}
				return true
			})
		}
		got := core.Discharged
		for _, o := range tmp.Obls {
			if o.Status == core.Violated {
				got = core.Violated
			} else if o.Status == core.Unresolved && got == core.Discharged {
				got = core.Unresolved
			}
		}
		if got != want {
			res.Fail("self-test %s: aggregation rules gave %s, expected %s", name, got, want)
		} else {
			res.OKTrivial("SELF", "selftest|c19."+name, "-", "aggregation rules give "+string(got)+" as expected")
		}
	}
}

// arithEval evaluates an arithmetic expression over the given variables.
func arithEval(info *types.Info, e ast.Expr, vals map[types.Object]float64) (float64, bool) {
	e = ast.Unparen(e)
	if tv, ok := info.Types[e]; ok && tv.Value != nil && (tv.Value.Kind() == constant.Int || tv.Value.Kind() == constant.Float) {
		f, _ := constant.Float64Val(constant.ToFloat(tv.Value))
		return f, true
	}
	switch x := e.(type) {
	case *ast.Ident:
		if v, ok := vals[info.Uses[x]]; ok {
			return v, true
		}
	case *ast.UnaryExpr:
		if x.Op == token.SUB {
			v, ok := arithEval(info, x.X, vals)
			return -v, ok
		}
	case *ast.BinaryExpr:
		a, ok1 := arithEval(info, x.X, vals)
		b, ok2 := arithEval(info, x.Y, vals)
		if !ok1 || !ok2 {
			return 0, false
		}
		switch x.Op {
		case token.ADD:
			return a + b, true
		case token.SUB:
			return a - b, true
		case token.MUL:
			return a * b, true
		case token.QUO:
			if b == 0 {
				return 0, false
			}
			return a / b, true
		}
	case *ast.CallExpr:
		if tv, ok := info.Types[x.Fun]; ok && tv.IsType() && len(x.Args) == 1 {
			v, ok := arithEval(info, x.Args[0], vals)
			if bt, isB := tv.Type.Underlying().(*types.Basic); ok && isB && bt.Info()&types.IsInteger != 0 {
				return math.Trunc(v), true
			}
			return v, ok
		}
		fn := core.CalleeFunc(info, x)
		if fn == nil || fn.Pkg() == nil || fn.Pkg().Path() != "math" {
			return 0, false
		}
		var args []float64
		for _, a := range x.Args {
			v, ok := arithEval(info, a, vals)
			if !ok {
				return 0, false
			}
			args = append(args, v)
		}
		switch {
		case fn.Name() == "Floor" && len(args) == 1:
			return math.Floor(args[0]), true
		case fn.Name() == "Ceil" && len(args) == 1:
			return math.Ceil(args[0]), true
		case fn.Name() == "Trunc" && len(args) == 1:
			return math.Trunc(args[0]), true
		case fn.Name() == "Abs" && len(args) == 1:
			return math.Abs(args[0]), true
		case fn.Name() == "Mod" && len(args) == 2:
			return math.Mod(args[0], args[1]), true
		case fn.Name() == "Min" && len(args) == 2:
			return math.Min(args[0], args[1]), true
		case fn.Name() == "Max" && len(args) == 2:
			return math.Max(args[0], args[1]), true
		}
	}
	return 0, false
}

// substExpr copies a comparison expression, replacing identifiers that denote
// the given objects (parameters of a helper) by the argument expressions.
func substExpr(info *types.Info, e ast.Expr, m map[types.Object]ast.Expr) ast.Expr {
	switch x := e.(type) {
	case *ast.ParenExpr:
		return &ast.ParenExpr{X: substExpr(info, x.X, m)}
	case *ast.UnaryExpr:
		return &ast.UnaryExpr{Op: x.Op, X: substExpr(info, x.X, m)}
	case *ast.BinaryExpr:
		return &ast.BinaryExpr{X: substExpr(info, x.X, m), Op: x.Op, Y: substExpr(info, x.Y, m)}
	case *ast.Ident:
		if r, ok := m[info.Uses[x]]; ok {
			return &ast.ParenExpr{X: r}
		}
	}
	return e
}
