package props

import (
	"fmt"
	"go/constant"
	"go/token"
	"go/types"
	"sort"
	"strings"

	"gripverif/core"

	"golang.org/x/tools/go/ssa"
)

func init() {
	Registry["C20"] = c20
	SelfTests["C20"] = c20selftest
}

// sqlSeg is one segment of an SQL text.
type sqlSeg struct {
	Kind string // const | int | config | client | unknown
	Desc string // where it comes from
	Ctx  string // lexical context of the segment: 'quoted', "quoted", bare
	Via  string // validator credited (if any)
	// Site is the call instruction, in the function that owns the described
	// parameter, through which the value travels to the sink (nil: the sink itself).
	Site ssa.Instruction
}

// c20ConfigFields: struct fields that hold operator configuration or values
// the driver itself generated, never raw client text.
var c20ConfigFields = map[string]string{
	"psql.Graph.v":                 "vertex table name read from the graphs registry (written by AddGraph from the sanitised graph name)",
	"psql.Graph.e":                 "edge table name read from the graphs registry",
	"existing-sql.Schema.*":        "driver configuration file",
	"existing-sql.Vertex.*":        "driver configuration file",
	"existing-sql.Edge.*":          "driver configuration file",
	"existing-sql.ForeignKey.*":    "driver configuration file",
	"existing-sql.EdgeTable.*":     "driver configuration file",
	"existing-sql.Config.*":        "driver configuration file",
	"existing-sql.generatedEdgeID.*": "", // parsed from the client edge id: NOT configuration (listed to document the decision)
	"psql.graphInfo.VertexTable":     "registry column written by AddGraph from the validated, sanitised graph name",
	"psql.graphInfo.EdgeTable":       "registry column written by AddGraph from the validated, sanitised graph name",
	"psql.Config.*":                  "driver configuration file",
}

type taint struct {
	p        *core.Prog
	inRepo   func(*ssa.Function) bool
	retMemo  map[*ssa.Function][]sqlSeg
	retBusy  map[*ssa.Function]bool
	ifaces   []*types.Interface
	rejects  map[byte]bool // bytes gripql.validate rejects
	validate *types.Func   // gripql.ValidateGraphName
}

func isIntegral(t types.Type) bool {
	b, ok := t.Underlying().(*types.Basic)
	return ok && b.Info()&(types.IsInteger|types.IsFloat|types.IsBoolean) != 0
}

func fieldKey(st types.Type, idx int) (string, string) {
	if pt, ok := st.(*types.Pointer); ok {
		st = pt.Elem()
	}
	n, _ := st.(*types.Named)
	s, _ := st.Underlying().(*types.Struct)
	if n == nil || s == nil || idx >= s.NumFields() || n.Obj().Pkg() == nil {
		return "", ""
	}
	return core.RelPkg(n.Obj().Pkg().Path()) + "." + n.Obj().Name(), s.Field(idx).Name()
}

// sprintfArgs reconstructs the variadic arguments of a call from the SSA
// lowering (new [n]interface{}; stores; slice).
func variadicElems(v ssa.Value) []ssa.Value {
	sl, ok := v.(*ssa.Slice)
	if !ok {
		return nil
	}
	al, ok := sl.X.(*ssa.Alloc)
	if !ok {
		return nil
	}
	elems := map[int64]ssa.Value{}
	max := int64(-1)
	for _, r := range *al.Referrers() {
		ia, ok := r.(*ssa.IndexAddr)
		if !ok {
			continue
		}
		c, ok := ia.Index.(*ssa.Const)
		if !ok {
			continue
		}
		idx, _ := constant.Int64Val(c.Value)
		for _, rr := range *ia.Referrers() {
			if st, ok := rr.(*ssa.Store); ok && st.Addr == ia {
				elems[idx] = st.Val
				if idx > max {
					max = idx
				}
			}
		}
	}
	out := make([]ssa.Value, max+1)
	for i := range out {
		out[i] = elems[int64(i)]
	}
	return out
}

// verbContexts returns, for each verb of a printf format, the verb letter and
// the lexical SQL context it sits in.
func verbContexts(format string) (verbs []byte, ctxs []string) {
	inS, inD := false, false
	for i := 0; i < len(format); i++ {
		c := format[i]
		switch {
		case c == '\'' && !inD:
			inS = !inS
		case c == '"' && !inS:
			inD = !inD
		case c == '%':
			j := i + 1
			for j < len(format) && strings.IndexByte("+-# 0123456789.[]*", format[j]) >= 0 {
				j++
			}
			if j < len(format) {
				if format[j] != '%' {
					verbs = append(verbs, format[j])
					switch {
					case inS:
						ctxs = append(ctxs, "inside '…'")
					case inD:
						ctxs = append(ctxs, "inside \"…\"")
					default:
						ctxs = append(ctxs, "bare (identifier/keyword position)")
					}
				}
				i = j
			}
		}
	}
	return
}

func (t *taint) classify(v ssa.Value, ctx string, depth int, seen map[ssa.Value]bool) []sqlSeg {
	if v == nil {
		return []sqlSeg{{Kind: "unknown", Desc: "missing value", Ctx: ctx}}
	}
	if depth > 14 {
		return []sqlSeg{{Kind: "unknown", Desc: "value flow too deep", Ctx: ctx}}
	}
	if seen[v] {
		return nil
	}
	seen[v] = true
	defer delete(seen, v)
	if isIntegral(v.Type()) {
		return []sqlSeg{{Kind: "int", Ctx: ctx}}
	}
	switch x := v.(type) {
	case *ssa.Const:
		return []sqlSeg{{Kind: "const", Ctx: ctx}}
	case *ssa.MakeInterface:
		return t.classify(x.X, ctx, depth+1, seen)
	case *ssa.ChangeType:
		return t.classify(x.X, ctx, depth+1, seen)
	case *ssa.Convert:
		return t.classify(x.X, ctx, depth+1, seen)
	case *ssa.ChangeInterface:
		return t.classify(x.X, ctx, depth+1, seen)
	case *ssa.Phi:
		var out []sqlSeg
		for _, e := range x.Edges {
			out = append(out, t.classify(e, ctx, depth+1, seen)...)
		}
		return out
	case *ssa.BinOp:
		if x.Op == token.ADD {
			return append(t.classify(x.X, ctx, depth+1, seen), t.classify(x.Y, ctx, depth+1, seen)...)
		}
	case *ssa.Slice:
		return t.classify(x.X, ctx, depth+1, seen)
	case *ssa.Parameter:
		fn := x.Parent()
		desc := fmt.Sprintf("parameter %s of %s", x.Name(), core.SSAKey(fn))
		// everything that is not a method of the driver interfaces is resolved at its callers
		if !t.isEntry(fn) {
			if segs, ok := t.fromCallers(x, ctx, depth, seen); ok {
				return segs
			}
		}
		return []sqlSeg{{Kind: "client", Desc: desc, Ctx: ctx}}
	case *ssa.FreeVar:
		// captured variable: find the binding in the parent
		fn := x.Parent()
		if fn.Parent() != nil {
			for _, instr := range allInstrs(fn.Parent()) {
				if mc, ok := instr.(*ssa.MakeClosure); ok && mc.Fn == fn {
					for i, fv := range fn.FreeVars {
						if fv == x && i < len(mc.Bindings) {
							return t.classify(mc.Bindings[i], ctx, depth+1, seen)
						}
					}
				}
			}
		}
		return []sqlSeg{{Kind: "unknown", Desc: "captured variable " + x.Name(), Ctx: ctx}}
	case *ssa.UnOp:
		if x.Op == token.ARROW {
			// value received from a channel: as tainted as the channel's origin
			segs := t.classify(x.X, ctx, depth+1, seen)
			if len(segs) == 0 {
				return []sqlSeg{{Kind: "client", Desc: "value received from channel " + x.X.Name(), Ctx: ctx}}
			}
			return segs
		}
		if x.Op == token.MUL {
			switch a := x.X.(type) {
			case *ssa.FieldAddr:
				tn, fnm := fieldKey(a.X.Type(), a.Field)
				if why, ok := c20ConfigFields[tn+"."+fnm]; ok && why != "" {
					return []sqlSeg{{Kind: "config", Desc: tn + "." + fnm + ": " + why, Ctx: ctx}}
				}
				if why, ok := c20ConfigFields[tn+".*"]; ok && why != "" {
					return []sqlSeg{{Kind: "config", Desc: tn + "." + fnm + ": " + why, Ctx: ctx}}
				}
				return []sqlSeg{{Kind: "client", Desc: "field " + tn + "." + fnm, Ctx: ctx}}
			case *ssa.Alloc:
				var out []sqlSeg
				for _, r := range *a.Referrers() {
					if st, ok := r.(*ssa.Store); ok && st.Addr == a {
						out = append(out, t.classify(st.Val, ctx, depth+1, seen)...)
					}
					if c, ok := r.(ssa.CallInstruction); ok {
						if m := c.Common().Method; m != nil && strings.Contains(m.Name(), "Scan") {
							out = append(out, sqlSeg{Kind: "stored", Desc: "value scanned from a database row (second-order: stored client text)", Ctx: ctx})
						} else if sc := c.Common().StaticCallee(); sc != nil && strings.Contains(sc.Name(), "Scan") {
							out = append(out, sqlSeg{Kind: "stored", Desc: "value scanned from a database row (second-order: stored client text)", Ctx: ctx})
						}
					}
					// &x passed as a variadic element: Scan(&x)
					if mi, ok := r.(*ssa.MakeInterface); ok {
						for _, r2 := range *mi.Referrers() {
							if st, ok := r2.(*ssa.Store); ok {
								_ = st
								out = append(out, sqlSeg{Kind: "stored", Desc: "value filled through a pointer handed to a call (rows.Scan)", Ctx: ctx})
							}
						}
					}
				}
				if len(out) > 0 {
					return out
				}
			case *ssa.IndexAddr:
				return t.classify(a.X, ctx, depth+1, seen)
			case *ssa.FreeVar, *ssa.Parameter, *ssa.Phi:
				return t.classify(a, ctx, depth+1, seen)
			case *ssa.Global:
				return []sqlSeg{{Kind: "config", Desc: "package variable " + a.Name(), Ctx: ctx}}
			default:
				return t.classify(x.X, ctx, depth+1, seen)
			}
		}
	case *ssa.Field:
		tn, fnm := fieldKey(x.X.Type(), x.Field)
		if why, ok := c20ConfigFields[tn+".*"]; ok && why != "" {
			return []sqlSeg{{Kind: "config", Desc: tn + "." + fnm + ": " + why, Ctx: ctx}}
		}
		return []sqlSeg{{Kind: "client", Desc: "field " + tn + "." + fnm, Ctx: ctx}}
	case *ssa.Alloc:
		// a slice/array built in place: every stored element
		var out []sqlSeg
		for _, r := range *x.Referrers() {
			switch rr := r.(type) {
			case *ssa.IndexAddr:
				for _, r2 := range *rr.Referrers() {
					if st, ok := r2.(*ssa.Store); ok && st.Addr == rr {
						out = append(out, t.classify(st.Val, ctx, depth+1, seen)...)
					}
				}
			case *ssa.Store:
				if rr.Addr == x {
					out = append(out, t.classify(rr.Val, ctx, depth+1, seen)...)
				}
			}
		}
		return out
	case *ssa.MakeSlice:
		// elements arrive through append (handled at the append) or indexed stores
		var out []sqlSeg
		for _, r := range *x.Referrers() {
			if ia, ok := r.(*ssa.IndexAddr); ok {
				for _, r2 := range *ia.Referrers() {
					if st, ok := r2.(*ssa.Store); ok && st.Addr == ia {
						out = append(out, t.classify(st.Val, ctx, depth+1, seen)...)
					}
				}
			}
		}
		return out
	case *ssa.MakeMap:
		var out []sqlSeg
		for _, r := range *x.Referrers() {
			if mu, ok := r.(*ssa.MapUpdate); ok && mu.Map == x {
				out = append(out, t.classify(mu.Key, ctx, depth+1, seen)...)
				out = append(out, t.classify(mu.Value, ctx, depth+1, seen)...)
			}
		}
		return out
	case *ssa.Extract:
		return t.classify(x.Tuple, ctx, depth+1, seen)
	case *ssa.Next:
		if x.IsString {
			return nil
		}
		return t.classify(x.Iter, ctx, depth+1, seen)
	case *ssa.Range:
		return t.classify(x.X, ctx, depth+1, seen)
	case *ssa.Index:
		return t.classify(x.X, ctx, depth+1, seen)
	case *ssa.Lookup:
		return t.classify(x.X, ctx, depth+1, seen)
	case *ssa.TypeAssert:
		return t.classify(x.X, ctx, depth+1, seen)
	case *ssa.Call:
		return t.classifyCall(x, ctx, depth, seen)
	}
	return []sqlSeg{{Kind: "unknown", Desc: fmt.Sprintf("%T %s", v, v.Name()), Ctx: ctx}}
}

// isEntry: methods of types implementing gdbi.GraphInterface / gdbi.GraphDB
// receive client strings directly.
func (t *taint) isEntry(fn *ssa.Function) bool {
	if fn.Parent() != nil || fn.Signature.Recv() == nil {
		return false
	}
	obj, _ := fn.Object().(*types.Func)
	if obj == nil || !obj.Exported() {
		return false
	}
	rt := fn.Signature.Recv().Type()
	for _, it := range t.ifaces {
		if types.Implements(rt, it) {
			// only the interface's own methods are entry points
			for i := 0; i < it.NumMethods(); i++ {
				if it.Method(i).Name() == obj.Name() {
					return true
				}
			}
		}
	}
	return false
}

func allInstrs(fn *ssa.Function) []ssa.Instruction {
	var out []ssa.Instruction
	for _, b := range fn.Blocks {
		out = append(out, b.Instrs...)
	}
	return out
}

func (t *taint) classifyCall(c *ssa.Call, ctx string, depth int, seen map[ssa.Value]bool) []sqlSeg {
	cc := c.Common()
	if b, ok := cc.Value.(*ssa.Builtin); ok {
		switch b.Name() {
		case "append":
			var out []sqlSeg
			out = append(out, t.classify(cc.Args[0], ctx, depth+1, seen)...)
			if len(cc.Args) > 1 {
				if el := variadicElems(cc.Args[1]); el != nil {
					for _, e := range el {
						out = append(out, t.classify(e, ctx, depth+1, seen)...)
					}
				} else {
					out = append(out, t.classify(cc.Args[1], ctx, depth+1, seen)...)
				}
			}
			return out
		}
		return []sqlSeg{{Kind: "unknown", Desc: "builtin " + b.Name(), Ctx: ctx}}
	}
	callee := cc.StaticCallee()
	if callee == nil {
		return []sqlSeg{{Kind: "unknown", Desc: "dynamic call " + cc.String(), Ctx: ctx}}
	}
	full := ""
	if callee.Pkg != nil {
		full = callee.Pkg.Pkg.Path() + "." + callee.Name()
	}
	switch full {
	case "fmt.Sprintf":
		f, ok := cc.Args[0].(*ssa.Const)
		if !ok || f.Value == nil || f.Value.Kind() != constant.String {
			return []sqlSeg{{Kind: "unknown", Desc: "Sprintf with a non-constant format", Ctx: ctx}}
		}
		format := constant.StringVal(f.Value)
		verbs, ctxs := verbContexts(format)
		var args []ssa.Value
		if len(cc.Args) > 1 {
			args = variadicElems(cc.Args[1])
		}
		out := []sqlSeg{{Kind: "const", Ctx: ctx}}
		for i, vb := range verbs {
			if i >= len(args) {
				break
			}
			actx := ctxs[i]
			if ctx != "" && !strings.HasPrefix(actx, "inside") {
				actx = ctx // a fragment inherits the context of the place it is spliced into, unless it quotes itself
			}
			if vb == 'd' || vb == 'f' || vb == 'g' || vb == 't' || vb == 'x' {
				out = append(out, sqlSeg{Kind: "int", Ctx: actx})
				continue
			}
			out = append(out, t.classify(args[i], actx, depth+1, seen)...)
		}
		return out
	case "strings.Join":
		return t.classify(cc.Args[0], ctx, depth+1, seen)
	case "strings.Replace", "strings.ReplaceAll", "strings.TrimPrefix", "strings.TrimSuffix", "strings.TrimSpace", "strings.ToLower", "strings.ToUpper", "strings.Title":
		return t.classify(cc.Args[0], ctx, depth+1, seen)
	case "strings.Split", "strings.SplitN":
		return t.classify(cc.Args[0], ctx, depth+1, seen)
	case "strconv.Itoa", "strconv.FormatInt", "strconv.FormatUint", "strconv.FormatFloat", "strconv.FormatBool":
		return []sqlSeg{{Kind: "int", Ctx: ctx}}
	}
	if t.inRepo(callee) && callee.Blocks != nil {
		// repository helper: classify what it returns, with parameters bound to the arguments
		if t.retBusy[callee] {
			return []sqlSeg{{Kind: "unknown", Desc: "recursive helper " + core.SSAKey(callee), Ctx: ctx}}
		}
		t.retBusy[callee] = true
		defer delete(t.retBusy, callee)
		var out []sqlSeg
		for _, in := range allInstrs(callee) {
			ret, ok := in.(*ssa.Return)
			if !ok {
				continue
			}
			for _, r := range ret.Results {
				if _, isStr := r.Type().Underlying().(*types.Basic); !isStr {
					if _, isSl := r.Type().Underlying().(*types.Slice); !isSl {
						continue
					}
				}
				for _, s := range t.classify(r, ctx, depth+1, seen) {
					if s.Kind == "client" && strings.HasPrefix(s.Desc, "parameter ") {
						// bind: parameter k of the helper = argument k of this call
						bound := false
						for k, pr := range callee.Params {
							if strings.HasPrefix(s.Desc, "parameter "+pr.Name()+" of ") && k < len(cc.Args) {
								out = append(out, t.classify(cc.Args[k], s.Ctx, depth+1, seen)...)
								bound = true
							}
						}
						if bound {
							continue
						}
					}
					out = append(out, s)
				}
			}
		}
		return out
	}
	return []sqlSeg{{Kind: "unknown", Desc: "result of " + full, Ctx: ctx}}
}

// fromCallers classifies a parameter of an unexported function / closure by its call sites.
func (t *taint) fromCallers(par *ssa.Parameter, ctx string, depth int, seen map[ssa.Value]bool) ([]sqlSeg, bool) {
	fn := par.Parent()
	idx := -1
	for i, p := range fn.Params {
		if p == par {
			idx = i
		}
	}
	if idx < 0 {
		return nil, false
	}
	var out []sqlSeg
	found := false
	for f := range t.p.AllFuncs() {
		if !t.inRepo(f) {
			continue
		}
		for _, in := range allInstrs(f) {
			c, ok := in.(ssa.CallInstruction)
			if !ok || c.Common().StaticCallee() != fn {
				continue
			}
			if idx < len(c.Common().Args) {
				found = true
				for _, sg := range t.classify(c.Common().Args[idx], ctx, depth+1, seen) {
					if sg.Site == nil {
						sg.Site = c
					}
					out = append(out, sg)
				}
			}
		}
	}
	return out, found
}

// sqlSink describes one database call receiving SQL text.
type sqlSink struct {
	Fn    *ssa.Function
	Call  ssa.CallInstruction
	Name  string
	Query ssa.Value
}

func findSQLSinks(p *core.Prog, rels []string) []sqlSink {
	var out []sqlSink
	want := map[string]bool{}
	for _, r := range rels {
		want[core.ModPath+"/"+r] = true
	}
	// argument index of the SQL text per method name
	qidx := map[string]int{"Exec": 0, "Query": 0, "Queryx": 0, "QueryRow": 0, "QueryRowx": 0, "Prepare": 0, "Preparex": 0, "MustExec": 0,
		"NamedExec": 0, "NamedQuery": 0, "PrepareNamed": 0, "Get": 1, "Select": 1,
		"ExecContext": 1, "QueryContext": 1, "QueryRowContext": 1, "PrepareContext": 1, "QueryxContext": 1, "QueryRowxContext": 1, "GetContext": 2, "SelectContext": 2}
	var fns []*ssa.Function
	for f := range p.AllFuncs() {
		root := f
		for root.Parent() != nil {
			root = root.Parent()
		}
		if root.Pkg != nil && (want[root.Pkg.Pkg.Path()] || strings.HasPrefix(root.Pkg.Pkg.Path(), core.SelfMod+"/c20")) && f.Blocks != nil {
			fns = append(fns, f)
		}
	}
	sort.Slice(fns, func(i, j int) bool { return core.SSAKey(fns[i]) < core.SSAKey(fns[j]) })
	for _, f := range fns {
		for _, in := range allInstrs(f) {
			c, ok := in.(ssa.CallInstruction)
			if !ok {
				continue
			}
			cc := c.Common()
			var m *types.Func
			args := cc.Args
			if cc.IsInvoke() {
				m = cc.Method
			} else if sc := cc.StaticCallee(); sc != nil {
				m, _ = sc.Object().(*types.Func)
				if sc.Signature.Recv() != nil && len(args) > 0 {
					args = args[1:]
				}
			}
			if m == nil {
				continue
			}
			rn := core.RecvNamed(m)
			if rn == nil || rn.Obj().Pkg() == nil {
				continue
			}
			pp := rn.Obj().Pkg().Path()
			if pp != "database/sql" && pp != "github.com/jmoiron/sqlx" {
				continue
			}
			// Stmt.Exec / Stmt.Query take only bound parameters
			if rn.Obj().Name() == "Stmt" || rn.Obj().Name() == "NamedStmt" || rn.Obj().Name() == "Rows" || rn.Obj().Name() == "Row" {
				continue
			}
			qi, ok := qidx[m.Name()]
			if !ok || qi >= len(args) {
				continue
			}
			out = append(out, sqlSink{Fn: f, Call: c, Name: rn.Obj().Name() + "." + m.Name(), Query: args[qi]})
		}
	}
	return out
}

// validatedVars: SSA values passed to a checked gripql.ValidateGraphName call
// that dominates block b.
func (t *taint) validatorDominates(fn *ssa.Function, sink ssa.Instruction) map[ssa.Value]bool {
	out := map[ssa.Value]bool{}
	for _, in := range allInstrs(fn) {
		c, ok := in.(*ssa.Call)
		if !ok {
			continue
		}
		sc := c.Common().StaticCallee()
		if sc == nil || sc.Object() != t.validate || len(c.Common().Args) != 1 {
			continue
		}
		// the error must be tested: an If on `err != nil` whose false branch dominates the sink
		for _, r := range *c.Referrers() {
			bo, ok := r.(*ssa.BinOp)
			if !ok || (bo.Op != token.NEQ && bo.Op != token.EQL) {
				continue
			}
			for _, r2 := range *bo.Referrers() {
				iff, ok := r2.(*ssa.If)
				if !ok {
					continue
				}
				okBlock := iff.Block().Succs[1]
				if bo.Op == token.EQL {
					okBlock = iff.Block().Succs[0]
				}
				if okBlock.Dominates(sink.Block()) {
					out[c.Common().Args[0]] = true
				}
			}
		}
	}
	return out
}

// quoteSafe: the bytes that must be rejected for a value to be inert in ctx.
func c20needs(ctx string) []byte {
	switch {
	case strings.HasPrefix(ctx, "inside '"):
		return []byte{'\'', '\\'}
	case strings.HasPrefix(ctx, "inside \""):
		return []byte{'"', '\\'}
	}
	return []byte{' ', '\t', '\n', '\r', ';', '(', ')', ',', '\'', '"', '\\', '/', '*', '=', '<', '>', '|'}
}

func c20(p *core.Prog, res *core.Result) {
	res.Explanation = "C20 (structural clause): for the PostgreSQL and existing-SQL drivers, the SQL text argument of every database/sql and sqlx call is decomposed over SSA value flow " +
		"(constants, fmt.Sprintf with constant format, +, strings.Join, appends, phis, helper returns bound to their arguments, parameters of unexported helpers resolved at their callers) into segments. " +
		"A segment is clean if it is a constant, a number, an allow-listed configuration field, or a value on which a checked ValidateGraphName dominates the call and whose rejected bytes cover the lexical context ('…', \"…\" or bare) computed from the constant format text. " +
		"Every other segment is client-derived (default deny) and is a violation: client strings may reach the database only as bound parameters."
	res.NotDecided = []string{"server-side prepared statement behaviour", "second-order flows through values read back from the database other than the allow-listed registry columns",
		"SQL built by the database itself"}
	res.Assumptions = []string{"configuration files are written by the operator, not by clients", "table names in the graphs registry were written by AddGraph from a validated, sanitised graph name"}
	res.Rule("T1", "no client-derived segment in the SQL text of a database call", 30)
	t := newTaint(p)
	if t.validate == nil {
		res.Fail("gripql.ValidateGraphName not found")
		return
	}
	sinks := findSQLSinks(p, []string{"psql", "existing-sql", "util"})
	res.Extra["sql_sinks"] = len(sinks)
	c20report(p, res, t, sinks, "T1")
}

func newTaint(p *core.Prog) *taint {
	p.BuildSSA()
	t := &taint{p: p, retMemo: map[*ssa.Function][]sqlSeg{}, retBusy: map[*ssa.Function]bool{}, rejects: map[byte]bool{}}
	t.inRepo = func(f *ssa.Function) bool {
		for f.Parent() != nil {
			f = f.Parent()
		}
		return f.Pkg != nil && (strings.HasPrefix(f.Pkg.Pkg.Path(), core.ModPath) || strings.HasPrefix(f.Pkg.Pkg.Path(), core.SelfMod))
	}
	if vfi := p.Func("gripql", "validate"); vfi != nil {
		for b := range validatorRejects(p, vfi, 0)["param#0"] {
			t.rejects[b] = true
		}
	}
	for _, n := range []string{"GraphInterface", "GraphDB"} {
		if it := p.Iface("gdbi", n); it != nil {
			t.ifaces = append(t.ifaces, it)
		}
	}
	if pk := p.Pkg("gripql"); pk != nil {
		t.validate, _ = pk.Types.Scope().Lookup("ValidateGraphName").(*types.Func)
	}
	return t
}

func c20report(p *core.Prog, res *core.Result, t *taint, sinks []sqlSink, rule string) {
	ord := map[string]int{}
	for _, s := range sinks {
		fkey := core.SSAKey(s.Fn)
		res.Fn(fkey)
		res.CallSites++
		ord[fkey+s.Name]++
		base := fmt.Sprintf("%s|%s#%d", fkey, s.Name, ord[fkey+s.Name])
		segs := t.classify(s.Query, "", 0, map[ssa.Value]bool{})
		validatedHere := t.validatorDominates(s.Fn, s.Call)
		// a value is credited when it is (derived from) a validated SSA value
		var bad []string
		for _, sg := range segs {
			if sg.Kind == "const" || sg.Kind == "int" || sg.Kind == "config" {
				continue
			}
			if sg.Kind == "stored" && res.Tier != "thorough" && res.Tier != "self" {
				continue // second-order flows are reported in the thorough tier only
			}
			credited := false
			validated := validatedHere
			if sg.Site != nil {
				validated = t.validatorDominates(sg.Site.Parent(), sg.Site)
			}
			if len(validated) > 0 && strings.HasPrefix(sg.Desc, "parameter ") {
				for v := range validated {
					if pr, ok := v.(*ssa.Parameter); ok && strings.HasPrefix(sg.Desc, "parameter "+pr.Name()+" of ") {
						missing := []string{}
						for _, b := range c20needs(sg.Ctx) {
							if !t.rejects[b] {
								missing = append(missing, fmt.Sprintf("%q", string([]byte{b})))
							}
						}
						if len(missing) == 0 {
							credited = true
						} else {
							sg.Desc += " (validated, but the validator lets " + strings.Join(missing, " ") + " through)"
						}
					}
				}
			}
			if credited {
				continue
			}
			ctx := sg.Ctx
			if ctx == "" {
				ctx = "bare (whole text)"
			}
			bad = append(bad, fmt.Sprintf("%s [%s] %s", sg.Kind, ctx, sg.Desc))
		}
		bad = dedup(bad)
		sort.Strings(bad)
		pos := p.Pos(s.Call.Pos())
		if len(bad) == 0 {
			res.OK(rule, base, pos, fmt.Sprintf("SQL text of %s is built from %d clean segment(s)", s.Name, len(segs)))
		} else {
			res.Bad(rule, base, pos, fmt.Sprintf("%s in %s receives SQL text containing client-derived segments: %s — a client string can change the token structure of the statement; it must be passed as a bound parameter", s.Name, fkey, strings.Join(bad, "; ")))
		}
	}
}

func c20selftest(st *core.Prog, res *core.Result) {
	t := newTaint(st)
	var sinks []sqlSink
	for _, s := range findSQLSinks(st, nil) {
		sinks = append(sinks, s)
	}
	if len(sinks) < 4 {
		res.Fail("C20 self-test package did not load (%d sinks)", len(sinks))
		return
	}
	tmp := core.NewResult("C20", "self")
	c20report(st, tmp, t, sinks, "T")
	got := map[string]core.Status{}
	for _, o := range tmp.Obls {
		name := o.Key[strings.Index(o.Key, "|")+1:]
		name = name[:strings.Index(name, "|")]
		name = name[strings.LastIndex(name, ".")+1:]
		if strings.Contains(name, "#") {
			name = name[:strings.Index(name, "#")]
		}
		if cur, ok := got[name]; !ok || cur == core.Discharged {
			got[name] = o.Status
		}
	}
	for name, g := range got {
		want := core.Discharged
		if strings.HasPrefix(name, "Bad") {
			want = core.Violated
		} else if !strings.HasPrefix(name, "Ok") {
			continue
		}
		if g != want {
			res.Fail("self-test %s: taint rule gave %s, expected %s", name, g, want)
		} else {
			res.OKTrivial("SELF", "selftest|c20."+name, "-", "taint rule gives "+string(g)+" as expected")
		}
	}
}
