package props

import (
	"fmt"
	"go/ast"
	"go/constant"
	"go/token"
	"go/types"
	"sort"

	"gripverif/core"

	"golang.org/x/tools/go/cfg"
)

// chanUse is one send / close / receive on a channel variable, with the
// function literal (goroutine or synchronous callback) it occurs in.
type chanUse struct {
	Kind   string // send | close | deferclose | recv | range
	Pos    token.Pos
	Node   ast.Node
	Lits   []*ast.FuncLit // enclosing function literals, outermost first
	Async  *ast.FuncLit   // innermost enclosing literal started with `go` (nil: runs in the function's own goroutine)
	InLoop bool           // lexically inside a for/range statement (within its goroutine)
}

// chanInfo describes a channel variable of one function.
type chanInfo struct {
	Obj      types.Object
	MakePos  token.Pos
	Cap      int // constant capacity, -1 if not constant, 0 unbuffered
	Returned bool
	Param    bool
	Uses     []chanUse
}

// funcChans collects the channel variables made in (or passed to) body.
func funcChans(info *types.Info, ftype *ast.FuncType, body *ast.BlockStmt) map[types.Object]*chanInfo {
	chans := map[types.Object]*chanInfo{}
	if ftype != nil && ftype.Params != nil {
		for _, f := range ftype.Params.List {
			for _, nm := range f.Names {
				if o := info.Defs[nm]; o != nil {
					if _, ok := o.Type().Underlying().(*types.Chan); ok {
						chans[o] = &chanInfo{Obj: o, Param: true, Cap: -1, MakePos: nm.Pos()}
					}
				}
			}
		}
	}
	// makes
	ast.Inspect(body, func(n ast.Node) bool {
		as, ok := n.(*ast.AssignStmt)
		if !ok || len(as.Lhs) != len(as.Rhs) {
			return true
		}
		for i, r := range as.Rhs {
			call, ok := ast.Unparen(r).(*ast.CallExpr)
			if !ok || !isBuiltin2(info, call, "make") || len(call.Args) == 0 {
				continue
			}
			if _, isChan := info.TypeOf(call.Args[0]).Underlying().(*types.Chan); !isChan {
				continue
			}
			o := defOrUse(info, as.Lhs[i])
			if o == nil {
				continue
			}
			ci := chans[o]
			if ci == nil {
				ci = &chanInfo{Obj: o, MakePos: call.Pos()}
				chans[o] = ci
			}
			ci.Cap = 0
			if len(call.Args) > 1 {
				ci.Cap = -1
				if tv := info.Types[call.Args[1]]; tv.Value != nil {
					if v, ok := constant.Int64Val(constant.ToInt(tv.Value)); ok {
						ci.Cap = int(v)
					}
				}
			}
		}
		return true
	})
	// uses, with the stack of enclosing literals / loops
	type frame struct {
		lit   *ast.FuncLit
		async bool
	}
	var lits []frame
	loopDepth := []int{0}
	var walk func(n ast.Node)
	asyncLits := map[*ast.FuncLit]bool{}
	ast.Inspect(body, func(n ast.Node) bool {
		if g, ok := n.(*ast.GoStmt); ok {
			if l, ok := g.Call.Fun.(*ast.FuncLit); ok {
				asyncLits[l] = true
			}
			for _, a := range g.Call.Args {
				if l, ok := a.(*ast.FuncLit); ok {
					asyncLits[l] = true
				}
			}
		}
		if c, ok := n.(*ast.CallExpr); ok {
			// errgroup.Go(func) / wg.Go
			if sel, ok := c.Fun.(*ast.SelectorExpr); ok && sel.Sel.Name == "Go" {
				for _, a := range c.Args {
					if l, ok := a.(*ast.FuncLit); ok {
						asyncLits[l] = true
					}
				}
			}
		}
		return true
	})
	record := func(o types.Object, kind string, n ast.Node) {
		ci := chans[o]
		if ci == nil {
			return
		}
		u := chanUse{Kind: kind, Pos: n.Pos(), Node: n, InLoop: loopDepth[len(loopDepth)-1] > 0}
		for _, f := range lits {
			u.Lits = append(u.Lits, f.lit)
			if f.async {
				u.Async = f.lit
			}
		}
		ci.Uses = append(ci.Uses, u)
	}
	walk = func(n ast.Node) {
		ast.Inspect(n, func(x ast.Node) bool {
			switch s := x.(type) {
			case *ast.FuncLit:
				lits = append(lits, frame{s, asyncLits[s]})
				if asyncLits[s] {
					loopDepth = append(loopDepth, 0)
				} else {
					loopDepth = append(loopDepth, loopDepth[len(loopDepth)-1])
				}
				walk(s.Body)
				loopDepth = loopDepth[:len(loopDepth)-1]
				lits = lits[:len(lits)-1]
				return false
			case *ast.ForStmt:
				if s.Init != nil {
					walk(s.Init)
				}
				loopDepth[len(loopDepth)-1]++
				if s.Cond != nil {
					walk(s.Cond)
				}
				if s.Post != nil {
					walk(s.Post)
				}
				walk(s.Body)
				loopDepth[len(loopDepth)-1]--
				return false
			case *ast.RangeStmt:
				if o := defOrUse(info, s.X); o != nil {
					record(o, "range", s)
				} else {
					walk(s.X)
				}
				loopDepth[len(loopDepth)-1]++
				walk(s.Body)
				loopDepth[len(loopDepth)-1]--
				return false
			case *ast.SendStmt:
				if o := defOrUse(info, s.Chan); o != nil {
					record(o, "send", s)
				}
			case *ast.UnaryExpr:
				if s.Op == token.ARROW {
					if o := defOrUse(info, s.X); o != nil {
						record(o, "recv", s)
					}
				}
			case *ast.DeferStmt:
				if isBuiltin2(info, s.Call, "close") && len(s.Call.Args) == 1 {
					if o := defOrUse(info, s.Call.Args[0]); o != nil {
						record(o, "deferclose", s)
					}
					return false
				}
			case *ast.CallExpr:
				if isBuiltin2(info, s, "close") && len(s.Args) == 1 {
					if o := defOrUse(info, s.Args[0]); o != nil {
						record(o, "close", s)
					}
				}
			case *ast.ReturnStmt:
				for _, r := range s.Results {
					if o := defOrUse(info, r); o != nil && chans[o] != nil && len(lits) == 0 {
						chans[o].Returned = true
					}
				}
			}
			return true
		})
	}
	walk(body)
	return chans
}

// closedOnAllPaths: every exit of the goroutine body lit (or of the function
// body when lit is nil) is preceded by close(ch) or a deferred close.
func closedOnAllPaths(p *core.Prog, info *types.Info, body *ast.BlockStmt, ch types.Object) (bool, []string) {
	fl := &core.Flow{Prog: p, Info: info, Body: body}
	fl.Events = func(n ast.Node, st *core.State) ([]string, bool) {
		var c *ast.CallExpr
		switch s := n.(type) {
		case *ast.DeferStmt:
			c = s.Call
			// defer func() { ...; close(ch) }()
			if lit, ok := s.Call.Fun.(*ast.FuncLit); ok {
				for _, cc := range core.CallsIn(lit.Body) {
					if isBuiltin2(info, cc, "close") && len(cc.Args) == 1 && defOrUse(info, cc.Args[0]) == ch {
						return []string{"closed"}, false
					}
				}
			}
		case *ast.ExprStmt:
			c, _ = s.X.(*ast.CallExpr)
		}
		if c != nil && isBuiltin2(info, c, "close") && len(c.Args) == 1 && defOrUse(info, c.Args[0]) == ch {
			return []string{"closed"}, false
		}
		return nil, false
	}
	fl.Run()
	ok := true
	var trace []string
	n := 0
	fl.ExitStates(func(ret *ast.ReturnStmt, st *core.State, b *cfg.Block) {
		n++
		if !st.Held["closed"] {
			ok = false
			if trace == nil {
				trace = fl.TraceTo(b)
			}
		}
	})
	return ok && n > 0, trace
}

// producerRules applies the close-discipline (A5b) and synchronous-producer
// (A5d) rules to every channel that fi makes and returns.
func producerRules(p *core.Prog, res *core.Result, fi *core.FuncInfo, ruleSync, ruleClose string) int {
	info := fi.Pkg.TypesInfo
	chans := funcChans(info, fi.Decl.Type, fi.Decl.Body)
	fkey := core.FuncKey(fi.Obj)
	var objs []types.Object
	for o, ci := range chans {
		if ci.Returned && !ci.Param {
			objs = append(objs, o)
		}
	}
	sort.Slice(objs, func(i, j int) bool { return objs[i].Pos() < objs[j].Pos() })
	for _, o := range objs {
		ci := chans[o]
		res.Fn(fkey)
		key := fkey + "|" + o.Name()
		// A5d: sends in the function's own goroutine on a channel it returns
		syncSends, syncLoop := 0, false
		var firstSync token.Pos
		producers := map[*ast.FuncLit]bool{}
		closers := map[*ast.FuncLit]bool{}
		ownClose := false
		for _, u := range ci.Uses {
			switch u.Kind {
			case "send":
				if u.Async == nil {
					syncSends++
					if u.InLoop {
						syncLoop = true
					}
					if firstSync == token.NoPos {
						firstSync = u.Pos
					}
				} else {
					producers[u.Async] = true
				}
			case "close", "deferclose":
				if u.Async == nil {
					ownClose = true
				} else {
					closers[u.Async] = true
				}
			}
		}
		// goroutines started as `go f(..., ch, ...)` on a repository function
		type goCallee struct {
			fi  *core.FuncInfo
			obj types.Object
		}
		var goCallees []goCallee
		ast.Inspect(fi.Decl.Body, func(n ast.Node) bool {
			g, ok := n.(*ast.GoStmt)
			if !ok {
				return true
			}
			if fn := core.CalleeFunc(info, g.Call); fn != nil {
				if cfi := p.Info(fn); cfi != nil && cfi.Decl.Body != nil {
					sig := fn.Type().(*types.Signature)
					for i, a := range g.Call.Args {
						if defOrUse(info, a) == o && i < sig.Params().Len() {
							// parameter object inside the callee's own package info
							var po types.Object
							k := 0
							for _, f := range cfi.Decl.Type.Params.List {
								for _, nm := range f.Names {
									if k == i {
										po = cfi.Pkg.TypesInfo.Defs[nm]
									}
									k++
								}
							}
							if po != nil {
								goCallees = append(goCallees, goCallee{cfi, po})
							}
						}
					}
				}
			}
			return true
		})
		if ruleSync != "" {
			switch {
			case syncSends == 0:
				res.OK(ruleSync, key, p.Pos(ci.MakePos), "every send on the returned channel happens in a goroutine")
			case !syncLoop && ci.Cap >= syncSends:
				res.OK(ruleSync, key, p.Pos(ci.MakePos), fmt.Sprintf("%d synchronous send(s) fit the constant capacity %d", syncSends, ci.Cap))
			default:
				res.Bad(ruleSync, key, p.Pos(firstSync), fmt.Sprintf("%s sends on channel %s (capacity %d) in its own goroutine%s before returning it: nobody can receive until the function returns, so once more than %d items are produced the call never returns",
					fkey, o.Name(), ci.Cap, map[bool]string{true: " inside a loop", false: ""}[syncLoop], ci.Cap))
			}
		}
		if ruleClose != "" {
			switch {
			case len(producers) == 0 && syncSends > 0:
				// synchronous producer: the function itself must close
				if ownClose {
					if ok, tr := closedOnAllPaths(p, info, fi.Decl.Body, o); ok {
						res.OK(ruleClose, key, p.Pos(ci.MakePos), "closed on every path of the producing function")
					} else {
						res.Bad(ruleClose, key, p.Pos(ci.MakePos), fkey+" returns channel "+o.Name()+" without closing it on every path: the consumer's range never ends", tr...)
					}
				} else {
					res.Bad(ruleClose, key, p.Pos(ci.MakePos), fkey+" never closes the channel "+o.Name()+" it produces on and returns: the consumer's range never ends")
				}
			case len(producers) == 0 && len(goCallees) == 1:
				gc := goCallees[0]
				res.Fn(core.FuncKey(gc.fi.Obj))
				if ok, tr := closedOnAllPaths(p, gc.fi.Pkg.TypesInfo, gc.fi.Decl.Body, gc.obj); ok {
					res.OK(ruleClose, key, p.Pos(gc.fi.Decl.Pos()), "the producer goroutine "+core.FuncKey(gc.fi.Obj)+" closes the channel on every path")
				} else {
					res.Bad(ruleClose, key, p.Pos(gc.fi.Decl.Pos()), "the goroutine "+core.FuncKey(gc.fi.Obj)+" producing on the returned channel "+o.Name()+" can exit without closing it: the consumer's range never ends", tr...)
				}
			case len(producers) == 0:
				if ownClose || len(closers) > 0 {
					res.OKTrivial(ruleClose, key, p.Pos(ci.MakePos), "no producer; channel closed")
				} else {
					res.Unres(ruleClose, key, p.Pos(ci.MakePos), "returned channel has neither a producer nor a close in this function (handed to another function?)")
				}
			case len(producers) == 1:
				var lit *ast.FuncLit
				for l := range producers {
					lit = l
				}
				if ok, tr := closedOnAllPaths(p, info, lit.Body, o); ok {
					res.OK(ruleClose, key, p.Pos(lit.Pos()), "the only producer goroutine closes the channel on every path")
				} else if (len(closers) > 0 && !closers[lit]) || ownClose {
					res.Unres(ruleClose, key, p.Pos(lit.Pos()), "channel is closed outside its only producer goroutine; join not analysed")
				} else {
					res.Bad(ruleClose, key, p.Pos(lit.Pos()), "the goroutine producing on the returned channel "+o.Name()+" can exit without closing it: the consumer's range never ends", tr...)
				}
			default:
				res.Unres(ruleClose, key, p.Pos(ci.MakePos), fmt.Sprintf("%d producer goroutines on one returned channel", len(producers)))
			}
		}
	}
	return len(objs)
}
