package props

import (
	"fmt"
	"go/ast"
	"go/constant"
	"go/token"
	"go/types"
	"sort"
	"strings"

	"gripverif/core"

	"golang.org/x/tools/go/packages"
)

// keyComp is one component of a separator-joined key.
type keyComp struct {
	Kind  string // family | str | bytes | byte | empty
	Param int    // index of the builder parameter feeding it (-1 otherwise)
	Name  string
}

// keyBuilder is a function `return bytes.Join([][]byte{c0..cn}, sep)`.
type keyBuilder struct {
	FI       *core.FuncInfo
	Family   string // name of the package-level prefix variable
	FamByte  string // its literal value
	Comps    []keyComp
	IsPrefix bool // last component empty: the result ends with a separator
	Sep      string
	Bare     bool // returns the family prefix variable itself
}

// keyParser is a function splitting a key and returning components.
type keyParser struct {
	FI      *core.FuncInfo
	Sep     string
	N       int   // SplitN limit (0 = Split)
	Returns []int // result j reads tmp[Returns[j]] (-1: not a plain read)
	MaxIdx  int
	Complex bool // reads beyond plain tmp[i] (e.g. fixed-width suffix)
}

type keyCodec struct {
	Pkg      *packages.Package
	Builders map[*types.Func]*keyBuilder
	Parsers  map[*types.Func]*keyParser
	Families map[string]string // prefix var name -> literal
}

func bytesLit(info *types.Info, e ast.Expr) (string, bool) {
	// []byte("x") or []byte{0}
	switch x := ast.Unparen(e).(type) {
	case *ast.CallExpr:
		if len(x.Args) == 1 {
			if tv, ok := info.Types[x.Args[0]]; ok && tv.Value != nil && tv.Value.Kind() == constant.String {
				if _, isSlice := info.TypeOf(x).Underlying().(*types.Slice); isSlice {
					return constant.StringVal(tv.Value), true
				}
			}
		}
	case *ast.CompositeLit:
		if _, isSlice := info.TypeOf(x).Underlying().(*types.Slice); !isSlice {
			return "", false
		}
		var b []byte
		for _, el := range x.Elts {
			tv, ok := info.Types[el]
			if !ok || tv.Value == nil {
				return "", false
			}
			v, ok := constant.Int64Val(constant.ToInt(tv.Value))
			if !ok {
				return "", false
			}
			b = append(b, byte(v))
		}
		return string(b), true
	}
	return "", false
}

func isBytesFunc(info *types.Info, call *ast.CallExpr, names ...string) string {
	fn := core.CalleeFunc(info, call)
	if fn == nil || fn.Pkg() == nil || fn.Pkg().Path() != "bytes" {
		return ""
	}
	for _, n := range names {
		if fn.Name() == n {
			return n
		}
	}
	return ""
}

// extractCodec finds the key builders and parsers of package rel.
// joinViaHelper marks synthesised bytes.Join calls that stand for a call of a join helper.
var joinViaHelper = map[*ast.CallExpr]bool{}

// joinHelperSep: call invokes a repository function of the form
// func f(parts ...[]byte) []byte { return bytes.Join(parts, <sep literal>) }; returns the separator expression.
func joinHelperSep(p *core.Prog, info *types.Info, call *ast.CallExpr) (ast.Expr, bool) {
	fn := core.CalleeFunc(info, call)
	if fn == nil || call.Ellipsis != token.NoPos {
		return nil, false
	}
	sig, ok := fn.Type().(*types.Signature)
	if !ok || !sig.Variadic() || sig.Params().Len() != 1 {
		return nil, false
	}
	fi := p.Info(fn)
	if fi == nil || fi.Decl.Body == nil || len(fi.Decl.Body.List) != 1 {
		return nil, false
	}
	ret, ok := fi.Decl.Body.List[0].(*ast.ReturnStmt)
	if !ok || len(ret.Results) != 1 {
		return nil, false
	}
	jc, ok := ast.Unparen(ret.Results[0]).(*ast.CallExpr)
	if !ok || isBytesFunc(fi.Pkg.TypesInfo, jc, "Join") == "" || len(jc.Args) != 2 {
		return nil, false
	}
	if o := defOrUse(fi.Pkg.TypesInfo, jc.Args[0]); o == nil || o != sig.Params().At(0) {
		return nil, false
	}
	if _, ok := bytesLit(fi.Pkg.TypesInfo, jc.Args[1]); !ok {
		return nil, false
	}
	return jc.Args[1], true
}

func extractCodec(p *core.Prog, rel string) *keyCodec {
	pk := p.Pkg(rel)
	if pk == nil {
		return nil
	}
	info := pk.TypesInfo
	kc := &keyCodec{Pkg: pk, Builders: map[*types.Func]*keyBuilder{}, Parsers: map[*types.Func]*keyParser{}, Families: map[string]string{}}
	// family prefix variables: package-level []byte vars with a literal value
	for _, f := range pk.Syntax {
		for _, d := range f.Decls {
			gd, ok := d.(*ast.GenDecl)
			if !ok || gd.Tok != token.VAR {
				continue
			}
			for _, sp := range gd.Specs {
				vs := sp.(*ast.ValueSpec)
				for i, id := range vs.Names {
					if i < len(vs.Values) {
						if lit, ok := bytesLit(info, vs.Values[i]); ok {
							kc.Families[id.Name] = lit
						}
					}
				}
			}
		}
	}
	for _, fi := range p.AllDecls() {
		if fi.Pkg != pk || fi.Decl.Body == nil || fi.Decl.Recv != nil {
			continue
		}
		sig := fi.Obj.Type().(*types.Signature)
		params := map[types.Object]int{}
		for i := 0; i < sig.Params().Len(); i++ {
			params[sig.Params().At(i)] = i
		}
		body := fi.Decl.Body.List
		// builder
		if len(body) == 1 && sig.Results().Len() == 1 {
			if ret, ok := body[0].(*ast.ReturnStmt); ok && len(ret.Results) == 1 {
				if id, ok := ret.Results[0].(*ast.Ident); ok {
					if lit, ok := kc.Families[id.Name]; ok && info.Uses[id] != nil && info.Uses[id].Parent() == pk.Types.Scope() {
						kc.Builders[fi.Obj] = &keyBuilder{FI: fi, Family: id.Name, FamByte: lit, Bare: true, IsPrefix: true,
							Comps: []keyComp{{Kind: "family", Param: -1, Name: id.Name}}}
						continue
					}
				}
				if call, ok := ret.Results[0].(*ast.CallExpr); ok {
					// joinKey(a, b, …) where joinKey(parts ...[]byte) = bytes.Join(parts, sep)
					if jsep, isHelper := joinHelperSep(p, info, call); isHelper {
						call = &ast.CallExpr{Fun: call.Fun, Lparen: call.Lparen, Rparen: call.Rparen,
							Args: []ast.Expr{&ast.CompositeLit{Lbrace: call.Lparen, Elts: call.Args, Rbrace: call.Rparen}, jsep}}
						ret = &ast.ReturnStmt{Return: ret.Return, Results: []ast.Expr{call}}
						joinViaHelper[call] = true
					}
				}
				if call, ok := ret.Results[0].(*ast.CallExpr); ok && (isBytesFunc(info, call, "Join") != "" || joinViaHelper[call]) && len(call.Args) == 2 {
					cl, ok := call.Args[0].(*ast.CompositeLit)
					sep, ok2 := bytesLit(info, call.Args[1])
					if ok && ok2 {
						kb := &keyBuilder{FI: fi, Sep: sep}
						good := true
						for i, el := range cl.Elts {
							c := keyComp{Param: -1}
							switch x := ast.Unparen(el).(type) {
							case *ast.Ident:
								if x.Name == "nil" && info.Uses[x] == types.Universe.Lookup("nil") {
									c.Kind = "empty"
									break
								}
								if o := info.Uses[x]; o != nil {
									if pi, isP := params[o]; isP {
										c.Kind, c.Param, c.Name = "bytes", pi, x.Name
									} else if lit, isF := kc.Families[x.Name]; isF && i == 0 {
										c.Kind, c.Name = "family", x.Name
										kb.Family, kb.FamByte = x.Name, lit
									} else {
										good = false
									}
								}
							case *ast.CallExpr: // []byte(param)
								if len(x.Args) == 1 {
									if o := defOrUse(info, x.Args[0]); o != nil {
										if pi, isP := params[o]; isP {
											c.Kind, c.Param, c.Name = "str", pi, o.Name()
											break
										}
									}
								}
								good = false
							case *ast.CompositeLit: // {} or {b} or {byte(b)}
								if len(x.Elts) == 0 {
									c.Kind = "empty"
								} else if len(x.Elts) == 1 {
									e := ast.Unparen(x.Elts[0])
									if cv, ok := e.(*ast.CallExpr); ok && len(cv.Args) == 1 {
										e = ast.Unparen(cv.Args[0])
									}
									if o := defOrUse(info, e); o != nil {
										if pi, isP := params[o]; isP {
											c.Kind, c.Param, c.Name = "byte", pi, o.Name()
											break
										}
									}
									good = false
								} else {
									good = false
								}
							default:
								good = false
							}
							kb.Comps = append(kb.Comps, c)
						}
						if good && len(kb.Comps) > 0 && kb.Family != "" {
							kb.IsPrefix = kb.Comps[len(kb.Comps)-1].Kind == "empty"
							kc.Builders[fi.Obj] = kb
							continue
						}
					}
				}
			}
		}
		// parser: first statement tmp := bytes.Split(key, sep)
		if sig.Params().Len() == 1 && len(body) >= 2 {
			as, ok := body[0].(*ast.AssignStmt)
			if !ok || len(as.Lhs) != 1 || len(as.Rhs) != 1 {
				continue
			}
			call, ok := as.Rhs[0].(*ast.CallExpr)
			if !ok {
				continue
			}
			which := isBytesFunc(info, call, "Split", "SplitN")
			if which == "" || len(call.Args) < 2 {
				continue
			}
			if o := defOrUse(info, call.Args[0]); o == nil || params[o] != 0 {
				continue
			}
			sep, ok := bytesLit(info, call.Args[1])
			if !ok {
				continue
			}
			kp := &keyParser{FI: fi, Sep: sep}
			if which == "SplitN" && len(call.Args) == 3 {
				if tv := info.Types[call.Args[2]]; tv.Value != nil {
					n, _ := constant.Int64Val(tv.Value)
					kp.N = int(n)
				}
			}
			tmp := defOrUse(info, as.Lhs[0])
			// local single-assignment definitions
			defs := localDefs(info, fi.Decl.Body)
			var idxOf func(e ast.Expr, depth int) int
			idxOf = func(e ast.Expr, depth int) int {
				if depth > 6 {
					return -1
				}
				switch x := ast.Unparen(e).(type) {
				case *ast.IndexExpr:
					if o := defOrUse(info, x.X); o == tmp {
						if tv := info.Types[x.Index]; tv.Value != nil {
							n, _ := constant.Int64Val(tv.Value)
							return int(n)
						}
						return -1
					}
					// tmp[i][0]
					return idxOf(x.X, depth+1)
				case *ast.CallExpr: // string(x), TermType(x)
					if len(x.Args) == 1 {
						return idxOf(x.Args[0], depth+1)
					}
				case *ast.Ident:
					if o := info.Uses[x]; o != nil {
						if d, ok := defs[o]; ok {
							return idxOf(d, depth+1)
						}
					}
				}
				return -1
			}
			rets := 0
			ast.Inspect(fi.Decl.Body, func(n ast.Node) bool {
				if ix, ok := n.(*ast.IndexExpr); ok {
					if o := defOrUse(info, ix.X); o == tmp {
						if tv := info.Types[ix.Index]; tv.Value != nil {
							v, _ := constant.Int64Val(tv.Value)
							if int(v) > kp.MaxIdx {
								kp.MaxIdx = int(v)
							}
						}
					}
				}
				if r, ok := n.(*ast.ReturnStmt); ok {
					rets++
					if rets == 1 || len(kp.Returns) == 0 {
						kp.Returns = nil
						for _, e := range r.Results {
							kp.Returns = append(kp.Returns, idxOf(e, 0))
						}
					}
				}
				return true
			})
			if rets > 1 {
				kp.Complex = true
			}
			kc.Parsers[fi.Obj] = kp
		}
	}
	// derived builders: `return append(Base(args…), param…)` — the base key continued by raw
	// bytes.  The result ends with whatever the parameter ends with, i.e. it is not
	// separator-terminated, whatever the base was.
	for _, fi := range p.AllDecls() {
		if fi.Pkg != pk || fi.Decl.Body == nil || fi.Decl.Recv != nil || kc.Builders[fi.Obj] != nil {
			continue
		}
		body := fi.Decl.Body.List
		if len(body) != 1 {
			continue
		}
		ret, ok := body[0].(*ast.ReturnStmt)
		if !ok || len(ret.Results) != 1 {
			continue
		}
		call, ok := ast.Unparen(ret.Results[0]).(*ast.CallExpr)
		if !ok || !isBuiltin2(info, call, "append") || len(call.Args) != 2 || call.Ellipsis == token.NoPos {
			continue
		}
		bc, ok := ast.Unparen(call.Args[0]).(*ast.CallExpr)
		if !ok {
			continue
		}
		bfn := core.CalleeFunc(info, bc)
		if bfn == nil {
			continue
		}
		base := kc.Builders[bfn]
		if base == nil {
			continue
		}
		sig := fi.Obj.Type().(*types.Signature)
		pi := -1
		if o := defOrUse(info, call.Args[1]); o != nil {
			for i := 0; i < sig.Params().Len(); i++ {
				if sig.Params().At(i) == o {
					pi = i
				}
			}
		}
		if pi < 0 {
			continue
		}
		kb := &keyBuilder{FI: fi, Family: base.Family, FamByte: base.FamByte, Sep: base.Sep}
		for _, c := range base.Comps {
			if c.Kind != "empty" {
				kb.Comps = append(kb.Comps, c)
			}
		}
		kb.Comps = append(kb.Comps, keyComp{Kind: "bytes", Param: pi, Name: sig.Params().At(pi).Name()})
		kb.IsPrefix = false
		kc.Builders[fi.Obj] = kb
	}
	return kc
}

// keyOrigin classifies where a key expression comes from.
type keyOrigin struct {
	Kind    string // full | prefix | iter | unknown
	Family  string
	Builder string
	Why     string
}

// originResolver traces key expressions inside one package.
type originResolver struct {
	p       *core.Prog
	kc      *keyCodec
	info    *types.Info
	fieldRH map[*types.Var][]ast.Expr // struct field -> expressions stored into it (package-wide)
}

func newOriginResolver(p *core.Prog, kc *keyCodec, extra ...*keyCodec) *originResolver {
	r := &originResolver{p: p, kc: kc, info: kc.Pkg.TypesInfo, fieldRH: map[*types.Var][]ast.Expr{}}
	for _, f := range kc.Pkg.Syntax {
		ast.Inspect(f, func(n ast.Node) bool {
			switch x := n.(type) {
			case *ast.CompositeLit:
				t := r.info.TypeOf(x)
				if t == nil {
					return true
				}
				if pt, ok := t.(*types.Pointer); ok {
					t = pt.Elem()
				}
				st, ok := t.Underlying().(*types.Struct)
				if !ok {
					return true
				}
				for i, el := range x.Elts {
					if kv, ok := el.(*ast.KeyValueExpr); ok {
						if id, ok := kv.Key.(*ast.Ident); ok {
							if fv, ok := r.info.Uses[id].(*types.Var); ok && fv.IsField() {
								r.fieldRH[fv] = append(r.fieldRH[fv], kv.Value)
							}
						}
					} else if i < st.NumFields() {
						r.fieldRH[st.Field(i)] = append(r.fieldRH[st.Field(i)], el)
					}
				}
			case *ast.AssignStmt:
				for i, l := range x.Lhs {
					if sel, ok := l.(*ast.SelectorExpr); ok && len(x.Lhs) == len(x.Rhs) {
						if s := r.info.Selections[sel]; s != nil {
							if fv, ok := s.Obj().(*types.Var); ok && fv.IsField() {
								r.fieldRH[fv] = append(r.fieldRH[fv], x.Rhs[i])
							}
						}
					}
				}
			}
			return true
		})
	}
	return r
}

// origins returns the possible origins of key expression e inside function body fn.
func (r *originResolver) origins(fn ast.Node, e ast.Expr, depth int, seen map[types.Object]bool) []keyOrigin {
	if depth > 8 {
		return []keyOrigin{{Kind: "unknown", Why: "depth"}}
	}
	info := r.info
	switch x := ast.Unparen(e).(type) {
	case *ast.CallExpr:
		if callee := core.CalleeFunc(info, x); callee != nil {
			if kb := r.kc.Builders[callee]; kb != nil {
				k := "full"
				if kb.IsPrefix {
					k = "prefix"
				}
				return []keyOrigin{{Kind: k, Family: kb.Family, Builder: callee.Name()}}
			}
			if (callee.Name() == "Key") && len(x.Args) == 0 {
				fam := ""
				ast.Inspect(fn, func(n ast.Node) bool {
					fs, ok := n.(*ast.ForStmt)
					if !ok || fs.Init == nil || x.Pos() < fs.Pos() || x.End() > fs.End() {
						return true
					}
					for _, c := range core.CallsIn(fs.Init) {
						if cf := core.CalleeFunc(info, c); cf != nil && (cf.Name() == "Seek" || cf.Name() == "SeekReverse") && len(c.Args) == 1 {
							for _, o := range r.origins(fn, c.Args[0], depth+1, map[types.Object]bool{}) {
								if o.Family != "" {
									fam = o.Family
								}
							}
						}
					}
					return true
				})
				return []keyOrigin{{Kind: "iter", Family: fam, Why: "iterator key"}}
			}
			// copy helpers: copyBytes(x), append([]byte{}, x...)
			if len(x.Args) == 1 && (callee.Name() == "copyBytes" || callee.Name() == "Clone") {
				return r.origins(fn, x.Args[0], depth+1, seen)
			}
		}
		if isBuiltin2(info, x, "append") && len(x.Args) >= 2 {
			return r.origins(fn, x.Args[len(x.Args)-1], depth+1, seen)
		}
	case *ast.Ident:
		o := info.Uses[x]
		if o == nil {
			o = info.Defs[x]
		}
		if o == nil {
			break
		}
		if lit, ok := r.kc.Families[x.Name]; ok && o.Parent() == r.kc.Pkg.Types.Scope() {
			_ = lit
			return []keyOrigin{{Kind: "prefix", Family: x.Name, Builder: x.Name}}
		}
		if seen[o] {
			return nil
		}
		seen[o] = true
		var out []keyOrigin
		found := false
		ast.Inspect(fn, func(n ast.Node) bool {
			switch s := n.(type) {
			case *ast.AssignStmt:
				for i, l := range s.Lhs {
					if defOrUse(info, l) != o {
						continue
					}
					if len(s.Lhs) == len(s.Rhs) {
						found = true
						out = append(out, r.origins(fn, s.Rhs[i], depth+1, seen)...)
					} else {
						found = true
						out = append(out, keyOrigin{Kind: "unknown", Why: "multi-value assignment"})
					}
				}
			case *ast.RangeStmt:
				if s.Value != nil && defOrUse(info, s.Value) == o {
					found = true
					out = append(out, r.sliceElems(fn, s.X, depth+1, seen)...)
				}
			case *ast.ValueSpec:
				for i, id := range s.Names {
					if info.Defs[id] == o && i < len(s.Values) {
						found = true
						out = append(out, r.origins(fn, s.Values[i], depth+1, seen)...)
					}
				}
			}
			return true
		})
		if !found {
			return []keyOrigin{{Kind: "unknown", Why: "parameter or captured variable " + x.Name}}
		}
		return out
	case *ast.SelectorExpr:
		if s := info.Selections[x]; s != nil {
			if fv, ok := s.Obj().(*types.Var); ok && fv.IsField() {
				var out []keyOrigin
				for _, rh := range r.fieldRH[fv] {
					out = append(out, r.originsAnywhere(rh, depth+1)...)
				}
				if len(out) == 0 {
					return []keyOrigin{{Kind: "unknown", Why: "field " + fv.Name() + " never assigned from a builder"}}
				}
				return out
			}
		}
	case *ast.SliceExpr:
		return []keyOrigin{{Kind: "unknown", Why: "slice expression"}}
	}
	return []keyOrigin{{Kind: "unknown", Why: fmt.Sprintf("%T", ast.Unparen(e))}}
}

// originsAnywhere resolves an expression found outside the current function
// (struct field initialisers): the enclosing function is looked up.
func (r *originResolver) originsAnywhere(e ast.Expr, depth int) []keyOrigin {
	for _, f := range r.kc.Pkg.Syntax {
		if e.Pos() >= f.Pos() && e.End() <= f.End() {
			for _, d := range f.Decls {
				if fd, ok := d.(*ast.FuncDecl); ok && fd.Body != nil && e.Pos() >= fd.Pos() && e.End() <= fd.End() {
					return r.origins(fd.Body, e, depth, map[types.Object]bool{})
				}
			}
		}
	}
	return []keyOrigin{{Kind: "unknown", Why: "initialiser outside a function"}}
}

// sliceElems: origins of the elements of slice expression s (appends in fn).
func (r *originResolver) sliceElems(fn ast.Node, s ast.Expr, depth int, seen map[types.Object]bool) []keyOrigin {
	o := defOrUse(r.info, s)
	if o == nil {
		return []keyOrigin{{Kind: "unknown", Why: "slice expression"}}
	}
	var out []keyOrigin
	ast.Inspect(fn, func(n ast.Node) bool {
		as, ok := n.(*ast.AssignStmt)
		if !ok || len(as.Lhs) != 1 || len(as.Rhs) != 1 || defOrUse(r.info, as.Lhs[0]) != o {
			return true
		}
		if call, ok := as.Rhs[0].(*ast.CallExpr); ok && isBuiltin2(r.info, call, "append") {
			for _, a := range call.Args[1:] {
				out = append(out, r.origins(fn, a, depth+1, seen)...)
			}
		}
		return true
	})
	if len(out) == 0 {
		out = append(out, keyOrigin{Kind: "unknown", Why: "slice " + o.Name() + " has no append in this function"})
	}
	return out
}

func isBuiltin2(info *types.Info, call *ast.CallExpr, name string) bool {
	if id, ok := ast.Unparen(call.Fun).(*ast.Ident); ok && id.Name == name {
		_, isB := info.Uses[id].(*types.Builtin)
		return isB
	}
	return false
}

// kvOp classifies a call as a key-value operation; argIdx is the key argument.
func kvOp(info *types.Info, call *ast.CallExpr) (op string, want string, argIdx int) {
	fn := core.CalleeFunc(info, call)
	if fn == nil {
		return "", "", 0
	}
	if fn.Pkg() != nil && fn.Pkg().Path() == "bytes" && fn.Name() == "HasPrefix" && len(call.Args) == 2 {
		return "HasPrefix", "prefix", 1
	}
	n := core.RecvNamed(fn)
	if n == nil || n.Obj().Pkg() == nil || !strings.HasPrefix(n.Obj().Pkg().Path(), pkgKvi) {
		return "", "", 0
	}
	switch fn.Name() {
	case "Set", "Delete", "Get", "HasKey":
		return fn.Name(), "full", 0
	case "DeletePrefix", "Seek", "SeekReverse":
		return fn.Name(), "prefix", 0
	}
	return "", "", 0
}

// keyKindTyping applies rule KF1 to every kv operation of the codec's package.
func keyKindTyping(p *core.Prog, res *core.Result, kc *keyCodec, rule string) int {
	r := newOriginResolver(p, kc)
	info := kc.Pkg.TypesInfo
	sites := 0
	for _, fi := range p.AllDecls() {
		if fi.Pkg != kc.Pkg || fi.Decl.Body == nil {
			continue
		}
		fkey := core.FuncKey(fi.Obj)
		ord := map[string]int{}
		ast.Inspect(fi.Decl.Body, func(n ast.Node) bool {
			call, ok := n.(*ast.CallExpr)
			if !ok {
				return true
			}
			op, want, ai := kvOp(info, call)
			if op == "" || ai >= len(call.Args) {
				return true
			}
			sites++
			res.CallSites++
			res.Fn(fkey)
			argText := types.ExprString(call.Args[ai])
			ord[op+argText]++
			key := fmt.Sprintf("%s|%s(%s)", fkey, op, argText)
			if ord[op+argText] > 1 {
				key += fmt.Sprintf("#%d", ord[op+argText])
			}
			os := r.origins(fi.Decl.Body, call.Args[ai], 0, map[types.Object]bool{})
			var badO, unk []string
			kinds := map[string]bool{}
			for _, o := range os {
				switch o.Kind {
				case "unknown":
					unk = append(unk, o.Why)
				case "iter":
					kinds["full"] = true
					if want == "prefix" && op != "SeekReverse" && op != "Seek" {
						badO = append(badO, "an iterator key (a full key)")
					}
				default:
					kinds[o.Kind+":"+o.Builder] = true
					if o.Kind != want && !(want == "prefix" && (op == "Seek" || op == "SeekReverse")) {
						badO = append(badO, fmt.Sprintf("%s (a %s key of family %s)", o.Builder, o.Kind, o.Family))
					}
				}
			}
			var ks []string
			for k := range kinds {
				ks = append(ks, k)
			}
			sort.Strings(ks)
			switch {
			case len(badO) > 0:
				sort.Strings(badO)
				what := "an exact-key operation: it matches no stored key, so the operation silently does nothing"
				if want == "prefix" {
					what = "a prefix operation"
				}
				res.Bad(rule, key, p.Pos(call.Pos()), fmt.Sprintf("%s at %s receives %s but is %s", op, p.Pos(call.Pos()), strings.Join(dedup(badO), ", "), what))
			case len(unk) > 0 && len(ks) == 0:
				res.OKTrivial(rule, key, p.Pos(call.Pos()), "key origin outside the resolver ("+strings.Join(dedup(unk), "; ")+"): not classified")
			default:
				res.OK(rule, key, p.Pos(call.Pos()), op+" receives "+strings.Join(ks, ", "))
			}
			return true
		})
	}
	return sites
}

func dedup(in []string) []string {
	seen := map[string]bool{}
	var out []string
	for _, s := range in {
		if !seen[s] {
			seen[s] = true
			out = append(out, s)
		}
	}
	return out
}

// codecAgreement checks builder/parser pairs (XKey / XKeyParse) of a codec.
func codecAgreement(p *core.Prog, res *core.Result, kc *keyCodec, rule string) int {
	n := 0
	var names []string
	byName := map[string]*keyParser{}
	for fn, kp := range kc.Parsers {
		names = append(names, fn.Name())
		byName[fn.Name()] = kp
	}
	sort.Strings(names)
	for _, pn := range names {
		kp := byName[pn]
		bn := strings.TrimSuffix(pn, "Parse")
		var kb *keyBuilder
		for fn, b := range kc.Builders {
			if fn.Name() == bn {
				kb = b
			}
		}
		key := core.RelPkg(kc.Pkg.PkgPath) + "." + pn
		res.Fn(key)
		n++
		if kb == nil {
			res.Unres(rule, key, p.Pos(kp.FI.Decl.Pos()), "parser without a builder named "+bn)
			continue
		}
		var problems []string
		if kp.Sep != kb.Sep {
			problems = append(problems, fmt.Sprintf("parser splits on %q but builder joins with %q", kp.Sep, kb.Sep))
		}
		if kp.MaxIdx >= len(kb.Comps) {
			problems = append(problems, fmt.Sprintf("parser reads component %d but the builder writes only %d components (index out of range on every key)", kp.MaxIdx, len(kb.Comps)))
		}
		if !kp.Complex {
			for j, idx := range kp.Returns {
				if idx < 0 || idx >= len(kb.Comps) {
					continue
				}
				if kb.Comps[idx].Param != j {
					problems = append(problems, fmt.Sprintf("result %d of %s reads component %d, where %s stores its parameter %d (%s): Parse(Build(x)) returns the components in another order",
						j, pn, idx, bn, kb.Comps[idx].Param, kb.Comps[idx].Name))
				}
			}
		} else {
			// multi-return parser (fixed-width number terms): first return is checked component-wise
			for j, idx := range kp.Returns {
				if idx >= 0 && idx < len(kb.Comps) && kb.Comps[idx].Param != j {
					problems = append(problems, fmt.Sprintf("result %d reads component %d but the builder stores parameter %d there", j, idx, kb.Comps[idx].Param))
				}
			}
		}
		if len(problems) > 0 {
			res.Bad(rule, key, p.Pos(kp.FI.Decl.Pos()), strings.Join(problems, "; "))
		} else {
			res.OK(rule, key, p.Pos(kp.FI.Decl.Pos()), fmt.Sprintf("%s ↔ %s: same separator, %d components, every result reads the position of its own parameter", bn, pn, len(kb.Comps)))
		}
	}
	// prefix builders are component-wise prefixes of a full builder of their family
	var bnames []string
	byB := map[string]*keyBuilder{}
	for fn, b := range kc.Builders {
		bnames = append(bnames, fn.Name())
		byB[fn.Name()] = b
	}
	sort.Strings(bnames)
	for _, bn := range bnames {
		b := byB[bn]
		if !b.IsPrefix || b.Bare {
			continue
		}
		key := core.RelPkg(kc.Pkg.PkgPath) + "." + bn
		n++
		ok := false
		for _, fb := range byB {
			if fb.IsPrefix || fb.Family != b.Family || len(fb.Comps) < len(b.Comps)-1 {
				continue
			}
			match := true
			for i := 0; i < len(b.Comps)-1; i++ {
				if b.Comps[i].Kind != fb.Comps[i].Kind {
					match = false
				} else if b.Comps[i].Kind != "family" && b.Comps[i].Name != fb.Comps[i].Name {
					// same role names must sit at the same position (src/dst swapped is a mismatch);
					// a name the full builder does not use (e.g. "id") is matched by kind only
					for _, fc := range fb.Comps {
						if fc.Name == b.Comps[i].Name {
							match = false
						}
					}
				}
			}
			if match {
				ok = true
			}
		}
		if ok {
			res.OK(rule, key, p.Pos(b.FI.Decl.Pos()), "component-wise prefix of a full key builder of family "+b.Family)
		} else {
			res.Bad(rule, key, p.Pos(b.FI.Decl.Pos()), "prefix builder "+bn+" is not a component-wise prefix of any full key builder of family "+b.Family+": scans with it miss or over-match stored keys")
		}
	}
	return n
}
