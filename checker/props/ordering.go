package props

import (
	"go/ast"
	"go/constant"
	"go/token"
	"go/types"
)

// Ordering-domain evaluation (A16): a condition that touches run-time numbers
// only through comparisons is evaluated on every weak ordering of its terms and
// compared with the documented predicate.  No repository code is executed: the
// checker interprets the comparison expression itself.

// ordEnv maps the canonical text of a term to its value in one ordering.
type ordEnv map[string]float64

// ordEvalNum evaluates a numeric term: a known term, a constant, a conversion
// of one, or +/- of two.
func ordEvalNum(info *types.Info, e ast.Expr, env ordEnv, alias func(ast.Expr) string) (float64, bool) {
	e = ast.Unparen(e)
	if name := alias(e); name != "" {
		if v, ok := env[name]; ok {
			return v, true
		}
	}
	if tv, ok := info.Types[e]; ok && tv.Value != nil {
		if f, ok := constant.Float64Val(constant.ToFloat(tv.Value)); ok || tv.Value.Kind() == constant.Int || tv.Value.Kind() == constant.Float {
			return f, true
		}
	}
	switch x := e.(type) {
	case *ast.CallExpr: // conversion int(x), float64(x)
		if len(x.Args) == 1 {
			if tv, ok := info.Types[x.Fun]; ok && tv.IsType() {
				return ordEvalNum(info, x.Args[0], env, alias)
			}
		}
	case *ast.BinaryExpr:
		a, ok1 := ordEvalNum(info, x.X, env, alias)
		b, ok2 := ordEvalNum(info, x.Y, env, alias)
		if ok1 && ok2 {
			switch x.Op {
			case token.ADD:
				return a + b, true
			case token.SUB:
				return a - b, true
			}
		}
	case *ast.UnaryExpr:
		if x.Op == token.SUB {
			if a, ok := ordEvalNum(info, x.X, env, alias); ok {
				return -a, true
			}
		}
	}
	return 0, false
}

// ordEvalBool evaluates a Boolean combination of comparisons.
func ordEvalBool(info *types.Info, e ast.Expr, env ordEnv, alias func(ast.Expr) string) (bool, bool) {
	e = ast.Unparen(e)
	if _, isId := e.(*ast.Ident); isId && alias(e) == "#true" {
		return true, true
	}
	switch x := e.(type) {
	case *ast.UnaryExpr:
		if x.Op == token.NOT {
			v, ok := ordEvalBool(info, x.X, env, alias)
			return !v, ok
		}
	case *ast.BinaryExpr:
		switch x.Op {
		case token.LAND, token.LOR:
			a, ok1 := ordEvalBool(info, x.X, env, alias)
			b, ok2 := ordEvalBool(info, x.Y, env, alias)
			if x.Op == token.LAND {
				if ok1 && !a || ok2 && !b {
					return false, true
				}
				return a && b, ok1 && ok2
			}
			if ok1 && a || ok2 && b {
				return true, true
			}
			return a || b, ok1 && ok2
		case token.LSS, token.LEQ, token.GTR, token.GEQ, token.EQL, token.NEQ:
			a, ok1 := ordEvalNum(info, x.X, env, alias)
			b, ok2 := ordEvalNum(info, x.Y, env, alias)
			if !ok1 || !ok2 {
				return false, false
			}
			switch x.Op {
			case token.LSS:
				return a < b, true
			case token.LEQ:
				return a <= b, true
			case token.GTR:
				return a > b, true
			case token.GEQ:
				return a >= b, true
			case token.EQL:
				return a == b, true
			case token.NEQ:
				return a != b, true
			}
		}
	}
	if tv, ok := info.Types[e]; ok && tv.Value != nil && tv.Value.Kind() == constant.Bool {
		return constant.BoolVal(tv.Value), true
	}
	return false, false
}

// ordCompare evaluates cond on every assignment of values 0..n-1 (n = number of
// terms; this covers every weak ordering) that satisfies pre, and compares it
// with want.  It returns the first disagreeing assignment, the number of
// orderings evaluated, and whether the condition could be evaluated at all.
func ordCompare(info *types.Info, cond ast.Expr, terms []string, alias func(ast.Expr) string,
	pre func(ordEnv) bool, want func(ordEnv) bool) (bad ordEnv, got bool, n int, evaluable bool) {
	return ordCompareX(info, cond, terms, alias, pre, want, nil)
}

// ordCompareX additionally gives listed terms one extra sentinel value
// (e.g. -1 for "unbounded"), tried against every ordering of the others.
func ordCompareX(info *types.Info, cond ast.Expr, terms []string, alias func(ast.Expr) string,
	pre func(ordEnv) bool, want func(ordEnv) bool, sentinel map[string]float64) (bad ordEnv, got bool, n int, evaluable bool) {
	k := len(terms)
	idx := make([]int, k)
	evaluable = true
	for {
		env := ordEnv{}
		for i, t := range terms {
			env[t] = float64(idx[i])
			if sv, ok := sentinel[t]; ok && idx[i] == k {
				env[t] = sv
			}
		}
		if pre == nil || pre(env) {
			v, ok := ordEvalBool(info, cond, env, alias)
			if !ok {
				return nil, false, n, false
			}
			n++
			if v != want(env) && bad == nil {
				bad, got = env, v
			}
		}
		i := 0
		for i < k {
			idx[i]++
			if idx[i] <= k {
				break
			}
			idx[i] = 0
			i++
		}
		if i == k {
			break
		}
	}
	return bad, got, n, evaluable
}
