package props

import (
	"fmt"
	"go/ast"
	"go/token"
	"go/types"
	"sort"
	"strings"

	"gripverif/core"

	"golang.org/x/tools/go/cfg"
)

// A process network view of one function: the function body and every
// goroutine literal it starts are "processes" that send on, receive from,
// range over and close channels.  Channels are identified by a key: a
// variable name, a field path ("o.output"), or a family of slice elements
// ("toWorkers[*]"); parameters of a goroutine literal are bound to the keys of
// the arguments it is started with.

type chanProc struct {
	Lit      *ast.FuncLit // nil: the function's own body
	Name     string
	Group    string // errgroup/WaitGroup the process belongs to (g.Go / wg.Done), "" if none
	Sends    map[string]token.Pos
	Closes   map[string]token.Pos
	ClosesOK map[string]bool // closed on every exit of the process
	Ranges   map[string]token.Pos
	Recvs    map[string]token.Pos
	Early    map[string]token.Pos // range key -> position of a return/break leaving the input loop early
	Waits    map[string]bool      // groups waited on (g.Wait()) before the closes
	Multi    bool                 // started once per element of a family (inside a loop)
	bind     map[types.Object]string
}

type procNet struct {
	Named map[string]string // channel key -> named function started with `go f(…, ch, …)`
	FI    *core.FuncInfo
	Procs []*chanProc
	Made  map[string]token.Pos // channels created in this function
	Ret   map[string]bool      // keys returned by the function
}

func isChanType(t types.Type) bool {
	if t == nil {
		return false
	}
	_, ok := t.Underlying().(*types.Chan)
	return ok
}

func (pr *chanProc) key(info *types.Info, e ast.Expr) string {
	e = ast.Unparen(e)
	switch x := e.(type) {
	case *ast.Ident:
		if o := info.Uses[x]; o != nil {
			if k, ok := pr.bind[o]; ok {
				return k
			}
		}
		return x.Name
	case *ast.SelectorExpr:
		return types.ExprString(x)
	case *ast.IndexExpr:
		return pr.key(info, x.X) + "[*]"
	}
	return ""
}

func buildProcNet(p *core.Prog, fi *core.FuncInfo) *procNet {
	info := fi.Pkg.TypesInfo
	net := &procNet{FI: fi, Made: map[string]token.Pos{}, Ret: map[string]bool{}, Named: map[string]string{}}
	newProc := func(lit *ast.FuncLit, name string) *chanProc {
		return &chanProc{Lit: lit, Name: name, Sends: map[string]token.Pos{}, Closes: map[string]token.Pos{}, ClosesOK: map[string]bool{},
			Ranges: map[string]token.Pos{}, Recvs: map[string]token.Pos{}, Early: map[string]token.Pos{}, Waits: map[string]bool{}, bind: map[types.Object]string{}}
	}
	main := newProc(nil, "body")
	net.Procs = append(net.Procs, main)
	litProc := map[*ast.FuncLit]*chanProc{}
	// discover goroutine literals (go func(){}(), g.Go(func(){}), nested ones too)
	var discover func(n ast.Node, parent *chanProc, inLoop bool)
	discover = func(n ast.Node, parent *chanProc, inLoop bool) {
		ast.Inspect(n, func(x ast.Node) bool {
			switch s := x.(type) {
			case *ast.ForStmt:
				if s.Init != nil {
					discover(s.Init, parent, inLoop)
				}
				discover(s.Body, parent, true)
				return false
			case *ast.RangeStmt:
				discover(s.Body, parent, true)
				return false
			case *ast.GoStmt:
				if _, isLit := s.Call.Fun.(*ast.FuncLit); !isLit {
					if fn := core.CalleeFunc(info, s.Call); fn != nil {
						for _, a := range s.Call.Args {
							if isChanType(info.TypeOf(a)) {
								net.Named[parent.key(info, a)] = fn.Name()
							}
						}
					}
				}
				if lit, ok := s.Call.Fun.(*ast.FuncLit); ok {
					pr := newProc(lit, fmt.Sprintf("go#%d", len(net.Procs)))
					pr.Multi = inLoop
					for k, v := range parent.bind {
						pr.bind[k] = v
					}
					i := 0
					for _, f := range lit.Type.Params.List {
						for _, nm := range f.Names {
							if i < len(s.Call.Args) && isChanType(info.TypeOf(s.Call.Args[i])) {
								if o := info.Defs[nm]; o != nil {
									pr.bind[o] = parent.key(info, s.Call.Args[i])
								}
							}
							i++
						}
					}
					net.Procs = append(net.Procs, pr)
					litProc[lit] = pr
					discover(lit.Body, pr, false)
					return false
				}
			case *ast.CallExpr:
				if sel, ok := s.Fun.(*ast.SelectorExpr); ok && sel.Sel.Name == "Go" && len(s.Args) == 1 {
					if lit, ok := s.Args[0].(*ast.FuncLit); ok {
						pr := newProc(lit, fmt.Sprintf("go#%d", len(net.Procs)))
						pr.Multi = inLoop
						pr.Group = types.ExprString(sel.X)
						for k, v := range parent.bind {
							pr.bind[k] = v
						}
						net.Procs = append(net.Procs, pr)
						litProc[lit] = pr
						discover(lit.Body, pr, false)
						return false
					}
				}
			case *ast.FuncLit:
				// synchronous callback: belongs to the parent process
				discover(s.Body, parent, inLoop)
				return false
			}
			return true
		})
	}
	discover(fi.Decl.Body, main, false)

	// collect uses per process
	var collect func(n ast.Node, pr *chanProc)
	collect = func(n ast.Node, pr *chanProc) {
		ast.Inspect(n, func(x ast.Node) bool {
			switch s := x.(type) {
			case *ast.FuncLit:
				if other := litProc[s]; other != nil {
					collect(s.Body, other)
					return false
				}
			case *ast.AssignStmt:
				for i, r := range s.Rhs {
					if c, ok := ast.Unparen(r).(*ast.CallExpr); ok && isBuiltin2(info, c, "make") && len(c.Args) > 0 && isChanType(info.TypeOf(c.Args[0])) && i < len(s.Lhs) {
						net.Made[pr.key(info, s.Lhs[i])] = c.Pos()
					}
				}
			case *ast.KeyValueExpr:
				if c, ok := ast.Unparen(s.Value).(*ast.CallExpr); ok && isBuiltin2(info, c, "make") && len(c.Args) > 0 && isChanType(info.TypeOf(c.Args[0])) {
					if id, ok := s.Key.(*ast.Ident); ok {
						net.Made["."+id.Name] = c.Pos()
					}
				}
			case *ast.SendStmt:
				if k := pr.key(info, s.Chan); k != "" {
					if _, ok := pr.Sends[k]; !ok {
						pr.Sends[k] = s.Pos()
					}
				}
			case *ast.UnaryExpr:
				if s.Op == token.ARROW && isChanType(info.TypeOf(s.X)) {
					if k := pr.key(info, s.X); k != "" {
						pr.Recvs[k] = s.Pos()
					}
				}
			case *ast.RangeStmt:
				// for _, ch := range chans: the value variable stands for an element of the family
				if t := info.TypeOf(s.X); t != nil && s.Value != nil {
					var elem types.Type
					switch u := t.Underlying().(type) {
					case *types.Slice:
						elem = u.Elem()
					case *types.Array:
						elem = u.Elem()
					case *types.Map:
						elem = u.Elem()
					}
					if elem != nil && isChanType(elem) {
						if id, ok := s.Value.(*ast.Ident); ok {
							if o := info.Defs[id]; o != nil {
								if k := pr.key(info, s.X); k != "" {
									pr.bind[o] = k + "[*]"
								}
							}
						}
					}
				}
				if isChanType(info.TypeOf(s.X)) {
					if k := pr.key(info, s.X); k != "" {
						pr.Ranges[k] = s.Pos()
						// early exits from the input loop
						ast.Inspect(s.Body, func(y ast.Node) bool {
							switch e := y.(type) {
							case *ast.FuncLit:
								return false
							case *ast.ReturnStmt:
								pr.Early[k] = e.Pos()
							case *ast.BranchStmt:
								if e.Tok == token.BREAK && e.Label == nil && !insideInnerLoopOrSwitch(s.Body, e) {
									pr.Early[k] = e.Pos()
								}
								if e.Tok == token.GOTO {
									pr.Early[k] = e.Pos()
								}
							}
							return true
						})
					}
				}
			case *ast.CallExpr:
				if isBuiltin2(info, s, "close") && len(s.Args) == 1 {
					if k := pr.key(info, s.Args[0]); k != "" {
						if _, ok := pr.Closes[k]; !ok {
							pr.Closes[k] = s.Pos()
						}
					}
				}
				if sel, ok := s.Fun.(*ast.SelectorExpr); ok {
					switch sel.Sel.Name {
					case "Wait":
						pr.Waits[types.ExprString(sel.X)] = true
					case "Done":
						if len(s.Args) == 0 && !strings.Contains(types.ExprString(sel.X), "ctx") && !strings.Contains(strings.ToLower(types.ExprString(sel.X)), "context") {
							if pr.Group == "" {
								pr.Group = types.ExprString(sel.X)
							}
						}
					}
				}
			case *ast.ReturnStmt:
				if pr == main {
					for _, r := range s.Results {
						if isChanType(info.TypeOf(r)) {
							net.Ret[pr.key(info, r)] = true
						}
					}
				}
			}
			return true
		})
	}
	collect(fi.Decl.Body, main)

	// closes on every exit
	for _, pr := range net.Procs {
		body := fi.Decl.Body
		if pr.Lit != nil {
			body = pr.Lit.Body
		}
		for k := range pr.Closes {
			k := k
			ok, _ := closedOnAllPathsMatch(p, info, body, func(e ast.Expr) bool { return pr.key(info, e) == k }, litProc, pr.Lit)
			pr.ClosesOK[k] = ok
		}
	}
	return net
}

func insideInnerLoopOrSwitch(body *ast.BlockStmt, target ast.Node) bool {
	inner := false
	var walk func(n ast.Node, depth int) bool
	walk = func(n ast.Node, depth int) bool {
		found := false
		ast.Inspect(n, func(x ast.Node) bool {
			if found {
				return false
			}
			if x == target {
				found = true
				if depth > 0 {
					inner = true
				}
				return false
			}
			switch s := x.(type) {
			case *ast.ForStmt:
				if walk(s.Body, depth+1) {
					found = true
				}
				return false
			case *ast.RangeStmt:
				if walk(s.Body, depth+1) {
					found = true
				}
				return false
			case *ast.SwitchStmt:
				if walk(s.Body, depth+1) {
					found = true
				}
				return false
			case *ast.TypeSwitchStmt:
				if walk(s.Body, depth+1) {
					found = true
				}
				return false
			case *ast.SelectStmt:
				if walk(s.Body, depth+1) {
					found = true
				}
				return false
			case *ast.FuncLit:
				return false
			}
			return true
		})
		return found
	}
	walk(body, 0)
	return inner
}

// closedOnAllPathsMatch: every exit of body is preceded by a close of a channel
// matching the predicate (plain close, deferred close, or — for a family of
// channels — a top-level loop whose body closes each element).
func closedOnAllPathsMatch(p *core.Prog, info *types.Info, body *ast.BlockStmt, match func(ast.Expr) bool, litProc map[*ast.FuncLit]*chanProc, self *ast.FuncLit) (bool, []string) {
	isClose := func(c *ast.CallExpr) bool {
		return c != nil && isBuiltin2(info, c, "close") && len(c.Args) == 1 && match(c.Args[0])
	}
	closingLoops := map[ast.Node]bool{}
	for _, st := range body.List {
		var lb *ast.BlockStmt
		switch l := st.(type) {
		case *ast.ForStmt:
			lb = l.Body
		case *ast.RangeStmt:
			lb = l.Body
		}
		if lb == nil {
			continue
		}
		for _, s := range lb.List {
			if es, ok := s.(*ast.ExprStmt); ok {
				if c, ok := es.X.(*ast.CallExpr); ok && isClose(c) {
					closingLoops[st] = true
				}
			}
			if is, ok := s.(*ast.IfStmt); ok { // if ch != nil { close(ch) }
				for _, s2 := range is.Body.List {
					if es, ok := s2.(*ast.ExprStmt); ok {
						if c, ok := es.X.(*ast.CallExpr); ok && isClose(c) {
							closingLoops[st] = true
						}
					}
				}
			}
		}
	}
	fl := &core.Flow{Prog: p, Info: info, Body: body}
	fl.Events = func(n ast.Node, st *core.State) ([]string, bool) {
		switch s := n.(type) {
		case *ast.DeferStmt:
			if isClose(s.Call) {
				return []string{"closed"}, false
			}
			if lit, ok := s.Call.Fun.(*ast.FuncLit); ok {
				for _, cc := range core.CallsIn(lit.Body) {
					if isClose(cc) {
						return []string{"closed"}, false
					}
				}
			}
		case *ast.ExprStmt:
			if c, ok := s.X.(*ast.CallExpr); ok && isClose(c) {
				return []string{"closed"}, false
			}
		}
		return nil, false
	}
	// a closing loop counts as the close event at its head: mark by position
	if len(closingLoops) > 0 {
		prev := fl.Events
		fl.Events = func(n ast.Node, st *core.State) ([]string, bool) {
			for l := range closingLoops {
				var first ast.Node
				switch x := l.(type) {
				case *ast.ForStmt:
					if x.Init != nil {
						first = x.Init
					} else if x.Cond != nil {
						first = x.Cond
					}
				case *ast.RangeStmt:
					first = x.X
				}
				if first != nil && n == first {
					return []string{"closed"}, false
				}
			}
			return prev(n, st)
		}
	}
	fl.Run()
	ok := true
	var trace []string
	n := 0
	fl.ExitStates(func(ret *ast.ReturnStmt, st *core.State, b *cfg.Block) {
		n++
		if !st.Held["closed"] {
			ok = false
			if trace == nil {
				trace = fl.TraceTo(b)
			}
		}
	})
	return ok && n > 0, trace
}

// checkNet applies the close-discipline rules to the channels selected by want.
// outputs: keys that must be closed exactly when the input is exhausted.
func checkNet(p *core.Prog, res *core.Result, net *procNet, rule string, outputs []string, inputs []string) {
	fkey := core.FuncKey(net.FI.Obj)
	res.Fn(fkey)
	pos := func(pr *chanProc) string {
		if pr.Lit != nil {
			return p.Pos(pr.Lit.Pos())
		}
		return p.Pos(net.FI.Decl.Pos())
	}
	// every channel made here and consumed somewhere, plus the declared outputs
	keys := map[string]bool{}
	for _, k := range outputs {
		keys[k] = true
	}
	for k := range net.Made {
		for _, pr := range net.Procs {
			if _, ok := pr.Ranges[k]; ok {
				keys[k] = true
			}
			if _, ok := pr.Recvs[k]; ok {
				keys[k] = true
			}
		}
	}
	var ks []string
	for k := range keys {
		ks = append(ks, k)
	}
	sort.Strings(ks)
	for _, k := range ks {
		key := fkey + "|" + k
		var senders, closers []*chanProc
		for _, pr := range net.Procs {
			if _, ok := pr.Sends[k]; ok {
				senders = append(senders, pr)
			}
			if _, ok := pr.Closes[k]; ok {
				closers = append(closers, pr)
			}
		}
		if fn, ok := net.Named[k]; ok {
			res.OKTrivial(rule, key, p.Pos(net.FI.Decl.Pos()), "produced and closed by the named goroutine "+fn+" (checked by the producer rule)")
			continue
		}
		switch {
		case len(closers) == 0 && len(senders) == 0:
			res.OKTrivial(rule, key, p.Pos(net.FI.Decl.Pos()), "channel is neither produced nor closed here (handed to a callee)")
		case len(closers) == 0:
			res.Bad(rule, key, pos(senders[0]), fmt.Sprintf("%s: channel %s is produced at %s but never closed: its consumer's range never ends, the stage never finishes", fkey, k, pos(senders[0])))
		case len(closers) > 1:
			var where []string
			for _, c := range closers {
				where = append(where, pos(c))
			}
			res.Bad(rule, key, pos(closers[0]), fmt.Sprintf("%s: channel %s is closed by %d different processes (%s): a double close panics, an early close loses items", fkey, k, len(closers), strings.Join(where, ", ")))
		default:
			cl := closers[0]
			if !cl.ClosesOK[k] {
				res.Bad(rule, key, p.Pos(cl.Closes[k]), fmt.Sprintf("%s: the process at %s does not close %s on every exit: on the remaining paths the consumer's range never ends", fkey, pos(cl), k))
				continue
			}
			bad := ""
			for _, s := range senders {
				if s == cl {
					continue
				}
				// other producers must be joined by the closer (g.Wait / wg.Wait) before the close
				if s.Group == "" || !cl.Waits[s.Group] {
					bad = fmt.Sprintf("producer at %s is not joined (errgroup/WaitGroup Wait) by the closing process at %s", pos(s), pos(cl))
				}
			}
			if bad != "" {
				res.Bad(rule, key, p.Pos(cl.Closes[k]), fmt.Sprintf("%s: channel %s: %s — the channel can be closed while a producer still sends (send on closed channel) or before its items are out", fkey, k, bad))
				continue
			}
			if cl.Multi && !strings.HasSuffix(k, "[*]") {
				res.Bad(rule, key, p.Pos(cl.Closes[k]), fmt.Sprintf("%s: channel %s is closed by a process that is started once per loop iteration: it is closed several times", fkey, k))
				continue
			}
			res.OK(rule, key, p.Pos(cl.Closes[k]), fmt.Sprintf("closed exactly once, on every exit of its closing process (%d producer(s), joined)", len(senders)))
		}
	}
	// inputs are ranged to exhaustion by exactly one process
	for _, k := range inputs {
		key := fkey + "|drain " + k
		var readers []*chanProc
		for _, pr := range net.Procs {
			if _, ok := pr.Ranges[k]; ok {
				readers = append(readers, pr)
			} else if _, ok := pr.Recvs[k]; ok {
				readers = append(readers, pr)
			}
		}
		switch {
		case len(readers) == 0:
			res.Unres(rule, key, p.Pos(net.FI.Decl.Pos()), "input "+k+" is not read in this function (handed to a callee)")
		case len(readers) > 1:
			res.Bad(rule, key, pos(readers[1]), fmt.Sprintf("%s: input %s is read by %d processes: items are split between them and per-channel order is lost", fkey, k, len(readers)))
		default:
			r := readers[0]
			if ep, ok := r.Early[k]; ok {
				res.Bad(rule, key, p.Pos(ep), fmt.Sprintf("%s: the loop over input %s can be left at %s before the input is exhausted: the upstream stage blocks on its next send and never terminates", fkey, k, p.Pos(ep)))
			} else if r.Multi {
				res.Bad(rule, key, pos(r), fmt.Sprintf("%s: input %s is read by a process started once per loop iteration", fkey, k))
			} else {
				res.OK(rule, key, pos(r), "read to exhaustion by exactly one process")
			}
		}
	}
	// single consumer per internal channel
	for _, k := range ks {
		n := 0
		for _, pr := range net.Procs {
			if strings.HasSuffix(k, "[*]") && pr.Multi {
				continue // one consumer per element of the family
			}
			if _, ok := pr.Ranges[k]; ok {
				n++
			} else if _, ok := pr.Recvs[k]; ok {
				n++
			}
		}
		if n > 1 {
			res.Bad(rule, fkey+"|"+k+"|consumers", p.Pos(net.FI.Decl.Pos()), fmt.Sprintf("%s: channel %s is consumed by %d processes: FIFO order per channel is lost", fkey, k, n))
		}
	}
	// internal channels are read to exhaustion too: a consumer that leaves its loop early
	// strands the producer on its next send
	isInput := map[string]bool{}
	for _, k := range inputs {
		isInput[k] = true
	}
	for _, k := range ks {
		if isInput[k] {
			continue
		}
		for _, pr := range net.Procs {
			if ep, ok := pr.Early[k]; ok {
				res.Bad(rule, fkey+"|drain "+k, p.Pos(ep), fmt.Sprintf("%s: the loop over the internal channel %s can be left at %s before the channel is exhausted: the process feeding it blocks on its next send once the buffer is full, and the step never finishes", fkey, k, p.Pos(ep)))
			}
		}
	}
}
