// Package props holds one driver per property.
package props

import (
	"embed"
	"io/fs"
	"strings"

	"gripverif/core"
)

// Driver analyses prog and records obligations in res.
type Driver func(p *core.Prog, res *core.Result)

// Registry maps property id to driver.
var Registry = map[string]Driver{}

//go:embed testdata
var testdata embed.FS

// SelfTestFiles returns every self-test source file (path relative to the
// self-test module root -> content); they live under props/testdata/<pkg>/.
func SelfTestFiles() map[string]string {
	out := map[string]string{}
	fs.WalkDir(testdata, "testdata", func(path string, d fs.DirEntry, err error) error {
		if err == nil && !d.IsDir() && strings.HasSuffix(path, ".go") {
			b, _ := testdata.ReadFile(path)
			out[strings.TrimPrefix(path, "testdata/")] = string(b)
		}
		return nil
	})
	return out
}

// SelfTest is the self-test of one property's rules, run against the
// self-test program st on every run; it records SELF obligations in res.
type SelfTest func(st *core.Prog, res *core.Result)

// SelfTests maps property id to its rule self-test.
var SelfTests = map[string]SelfTest{}
