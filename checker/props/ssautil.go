package props

import (
	"go/constant"
	"go/token"
	"go/types"
	"strings"

	"gripverif/core"

	"golang.org/x/tools/go/ssa"
)

// condFact is a branch condition known to hold (or not) in a block.
type condFact struct {
	Cond  ssa.Value
	Truth bool
}

// domFacts returns the branch conditions that are decided on every path to
// block b: for each ancestor edge (p -> d) of the dominator tree where p ends in
// an If and d is the unique target of one of its outcomes.
func domFacts(b *ssa.BasicBlock) []condFact {
	var out []condFact
	for d := b; d != nil; d = d.Idom() {
		p := d.Idom()
		if p == nil {
			break
		}
		iff, ok := p.Instrs[len(p.Instrs)-1].(*ssa.If)
		if !ok || len(d.Preds) != 1 || d.Preds[0] != p {
			continue
		}
		if p.Succs[0] == d && p.Succs[1] != d {
			out = append(out, condFact{iff.Cond, true})
		} else if p.Succs[1] == d && p.Succs[0] != d {
			out = append(out, condFact{iff.Cond, false})
		}
	}
	return out
}

// sameValue: SSA has no CSE; two loads of the same field of the same base (or
// two calls of the same pure getter on the same receiver) denote the same
// value for guard recognition.
func sameValue(a, b ssa.Value) bool {
	if a == b {
		return true
	}
	switch x := a.(type) {
	case *ssa.UnOp:
		y, ok := b.(*ssa.UnOp)
		if !ok || x.Op != y.Op || x.Op != token.MUL {
			return false
		}
		fa, ok1 := x.X.(*ssa.FieldAddr)
		fb, ok2 := y.X.(*ssa.FieldAddr)
		if ok1 && ok2 {
			return fa.Field == fb.Field && sameValue(fa.X, fb.X)
		}
		return sameValue(x.X, y.X) && x.X == y.X
	case *ssa.Field:
		y, ok := b.(*ssa.Field)
		return ok && x.Field == y.Field && sameValue(x.X, y.X)
	case *ssa.Call:
		y, ok := b.(*ssa.Call)
		if !ok {
			return false
		}
		// pure getters of generated protobuf code and of the traveler interface
		nx, ny := calleeName(x.Common()), calleeName(y.Common())
		if nx == "" || nx != ny || !(strings.HasPrefix(nx, "Get") || nx == "AsInterface") {
			return false
		}
		ax, ay := recvOf(x.Common()), recvOf(y.Common())
		return ax != nil && ay != nil && sameValue(ax, ay) && len(x.Common().Args) == len(y.Common().Args)
	case *ssa.ChangeType:
		if y, ok := b.(*ssa.ChangeType); ok {
			return sameValue(x.X, y.X)
		}
	}
	return false
}

func calleeName(cc *ssa.CallCommon) string {
	if cc.IsInvoke() {
		return cc.Method.Name()
	}
	if sc := cc.StaticCallee(); sc != nil {
		return sc.Name()
	}
	return ""
}

func recvOf(cc *ssa.CallCommon) ssa.Value {
	if cc.IsInvoke() {
		return cc.Value
	}
	if sc := cc.StaticCallee(); sc != nil && sc.Signature.Recv() != nil && len(cc.Args) > 0 {
		return cc.Args[0]
	}
	return nil
}

func isNilConst(v ssa.Value) bool {
	c, ok := v.(*ssa.Const)
	return ok && c.Value == nil
}

// knownNonNil: a dominating branch established v != nil.
func knownNonNil(b *ssa.BasicBlock, v ssa.Value) bool {
	for _, f := range domFacts(b) {
		if factNonNil(f.Cond, f.Truth, v, 0) {
			return true
		}
	}
	return false
}

func factNonNil(cond ssa.Value, truth bool, v ssa.Value, depth int) bool {
	if depth > 4 {
		return false
	}
	switch c := cond.(type) {
	case *ssa.BinOp:
		if c.Op == token.NEQ || c.Op == token.EQL {
			var other ssa.Value
			if isNilConst(c.Y) {
				other = c.X
			} else if isNilConst(c.X) {
				other = c.Y
			}
			if other != nil && sameValue(other, v) {
				return (c.Op == token.NEQ) == truth
			}
		}
	case *ssa.UnOp:
		if c.Op == token.NOT {
			return factNonNil(c.X, !truth, v, depth+1)
		}
	}
	return false
}

// lenLowerBound returns the lower bound on len(x) established by the
// dominating branches of block b (0 if none).
func lenLowerBound(b *ssa.BasicBlock, x ssa.Value) int64 {
	lb := int64(0)
	for _, f := range domFacts(b) {
		c, ok := f.Cond.(*ssa.BinOp)
		if !ok {
			continue
		}
		var k int64
		var op token.Token
		if l, ok := lenOf(c.X); ok && sameValue(l, x) {
			kc, ok := c.Y.(*ssa.Const)
			if !ok || kc.Value == nil {
				continue
			}
			k, _ = constant.Int64Val(constant.ToInt(kc.Value))
			op = c.Op
		} else if l, ok := lenOf(c.Y); ok && sameValue(l, x) {
			kc, ok := c.X.(*ssa.Const)
			if !ok || kc.Value == nil {
				continue
			}
			k, _ = constant.Int64Val(constant.ToInt(kc.Value))
			// k OP len  ==  len OP' k
			switch c.Op {
			case token.LSS:
				op = token.GTR
			case token.LEQ:
				op = token.GEQ
			case token.GTR:
				op = token.LSS
			case token.GEQ:
				op = token.LEQ
			default:
				op = c.Op
			}
		} else {
			continue
		}
		var got int64
		switch {
		case op == token.GTR && f.Truth:
			got = k + 1
		case op == token.GEQ && f.Truth:
			got = k
		case op == token.EQL && f.Truth:
			got = k
		case op == token.NEQ && !f.Truth:
			got = k
		case op == token.LSS && !f.Truth:
			got = k
		case op == token.LEQ && !f.Truth:
			got = k + 1
		case op == token.NEQ && f.Truth && k == 0:
			got = 1
		case op == token.EQL && !f.Truth && k == 0:
			got = 1
		}
		if got > lb {
			lb = got
		}
	}
	return lb
}

func lenOf(v ssa.Value) (ssa.Value, bool) {
	c, ok := v.(*ssa.Call)
	if !ok {
		return nil, false
	}
	if b, ok := c.Common().Value.(*ssa.Builtin); ok && b.Name() == "len" && len(c.Common().Args) == 1 {
		return c.Common().Args[0], true
	}
	return nil, false
}

// producerMinLen: minimum length guaranteed by the expression that produced x.
func producerMinLen(x ssa.Value) int64 {
	switch v := x.(type) {
	case *ssa.Call:
		if sc := v.Common().StaticCallee(); sc != nil && sc.Pkg != nil {
			switch sc.Pkg.Pkg.Path() + "." + sc.Name() {
			case "strings.Split", "strings.SplitN", "bytes.Split", "bytes.SplitN", "strings.SplitAfter":
				// Split returns at least one element unless sep and s are both empty / n == 0
				return 1
			}
		}
	case *ssa.Slice:
		if a, ok := v.X.(*ssa.Alloc); ok && v.Low == nil && v.High == nil {
			if pt, ok := a.Type().(*types.Pointer); ok {
				if arr, ok := pt.Elem().Underlying().(*types.Array); ok {
					return arr.Len()
				}
			}
		}
	case *ssa.MakeSlice:
		if c, ok := v.Len.(*ssa.Const); ok && c.Value != nil {
			n, _ := constant.Int64Val(constant.ToInt(c.Value))
			return n
		}
	}
	return 0
}

// reachableFrom computes the repository functions reachable in the VTA call
// graph from the given roots (closures of reachable functions included).
func reachableFrom(p *core.Prog, roots []*ssa.Function) map[*ssa.Function]bool {
	cg := p.CallGraph()
	reach := map[*ssa.Function]bool{}
	var work []*ssa.Function
	push := func(f *ssa.Function) {
		if f != nil && !reach[f] {
			reach[f] = true
			work = append(work, f)
		}
	}
	for _, r := range roots {
		push(r)
	}
	for len(work) > 0 {
		f := work[0]
		work = work[1:]
		if n := cg.Nodes[f]; n != nil {
			for _, e := range n.Out {
				push(e.Callee.Func)
			}
		}
		for _, a := range f.AnonFuncs {
			push(a)
		}
	}
	return reach
}

// handlerRoots: exported methods of server.GripServer (the RPC handlers) and
// Serve.
func handlerRoots(p *core.Prog) []*ssa.Function {
	p.BuildSSA()
	var roots []*ssa.Function
	gs := p.Named("server", "GripServer")
	if gs == nil {
		return nil
	}
	ms := p.SSA.MethodSets.MethodSet(types.NewPointer(gs))
	for i := 0; i < ms.Len(); i++ {
		if f := p.SSA.MethodValue(ms.At(i)); f != nil && f.Object() != nil && f.Object().Exported() {
			roots = append(roots, f)
		}
	}
	return roots
}

func ssaRootPkg(f *ssa.Function) string {
	for f.Parent() != nil {
		f = f.Parent()
	}
	if f.Pkg == nil {
		if f.Origin() != nil && f.Origin().Pkg != nil {
			return f.Origin().Pkg.Pkg.Path()
		}
		return ""
	}
	return f.Pkg.Pkg.Path()
}
