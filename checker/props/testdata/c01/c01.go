// Package c01 holds tiny traveler constructors and bounded steps.
package c01

import "context"

type DataElement struct{ ID string }
type DataElementID struct{ Vertex string }

type BaseTraveler struct {
	Current *DataElement
	Marks   map[string]*DataElement
	Path    []DataElementID
}

func (t *BaseTraveler) OkAddCurrent(r *DataElement) *BaseTraveler {
	o := BaseTraveler{Marks: map[string]*DataElement{}, Path: make([]DataElementID, len(t.Path)+1)}
	for k, v := range t.Marks {
		o.Marks[k] = v
	}
	for i := range t.Path {
		o.Path[i] = t.Path[i]
	}
	o.Path[len(t.Path)] = DataElementID{Vertex: r.ID}
	o.Current = r
	return &o
}

func (t *BaseTraveler) BadSharedMarks(r *DataElement) *BaseTraveler {
	o := BaseTraveler{Path: make([]DataElementID, len(t.Path))}
	o.Marks = t.Marks
	copy(o.Path, t.Path)
	o.Current = r
	return &o
}

func (t *BaseTraveler) BadAppendPath(r *DataElement) *BaseTraveler {
	o := BaseTraveler{Marks: map[string]*DataElement{}}
	for k, v := range t.Marks {
		o.Marks[k] = v
	}
	o.Path = append(t.Path, DataElementID{Vertex: r.ID})
	o.Current = r
	return &o
}

func (t *BaseTraveler) BadWritesReceiver(label string, r *DataElement) *BaseTraveler {
	o := BaseTraveler{Marks: map[string]*DataElement{}, Path: make([]DataElementID, len(t.Path))}
	t.Marks[label] = r
	for k, v := range t.Marks {
		o.Marks[k] = v
	}
	o.Current = t.Current
	return &o
}

type Trav interface{ IsSignal() bool }

type Limit struct{ count uint32 }

func (l *Limit) OkLimit(ctx context.Context, in chan Trav, out chan Trav) {
	go func() {
		defer close(out)
		var i uint32
		for t := range in {
			if t.IsSignal() {
				out <- t
				continue
			}
			if i < l.count {
				out <- t
			}
			i++
		}
	}()
}

func (l *Limit) OkLimitRewritten(ctx context.Context, in chan Trav, out chan Trav) {
	go func() {
		defer close(out)
		var i uint32
		for t := range in {
			if t.IsSignal() {
				out <- t
				continue
			}
			if !(l.count <= i) {
				out <- t
			}
			i++
		}
	}()
}

func (l *Limit) BadLimitOffByOne(ctx context.Context, in chan Trav, out chan Trav) {
	go func() {
		defer close(out)
		var i uint32
		for t := range in {
			if t.IsSignal() {
				out <- t
				continue
			}
			if i <= l.count {
				out <- t
			}
			i++
		}
	}()
}

func (l *Limit) BadLimitCountsSignals(ctx context.Context, in chan Trav, out chan Trav) {
	go func() {
		defer close(out)
		var i uint32
		for t := range in {
			if i < l.count {
				out <- t
			}
		}
	}()
}

type KeyStep struct{ keys []string }

func exists(t Trav, k string) bool { return k != "" && t != nil }

func (h *KeyStep) OkFlagConjunction(in chan Trav, out chan Trav) {
	for t := range in {
		found := true
		for _, k := range h.keys {
			if !exists(t, k) {
				found = false
			}
		}
		if found {
			out <- t
		}
	}
}

func (h *KeyStep) OkFlagAccumulate(in chan Trav, out chan Trav) {
	for t := range in {
		found := true
		for _, k := range h.keys {
			found = found && exists(t, k)
		}
		if found {
			out <- t
		}
	}
}

func (h *KeyStep) OkFlagEarlyExit(in chan Trav, out chan Trav) {
	for t := range in {
		found := true
		for _, k := range h.keys {
			found = exists(t, k)
			if !found {
				break
			}
		}
		if found {
			out <- t
		}
	}
}

func (h *KeyStep) BadFlagLastWins(in chan Trav, out chan Trav) {
	for t := range in {
		found := false
		for _, k := range h.keys {
			found = exists(t, k)
		}
		if found {
			out <- t
		}
	}
}
