// Package c02 holds tiny positive and negative examples for the load-elision rules L5–L8.
package c02

import (
	"strconv"

	"github.com/bmeg/grip/engine/inspect"
	"github.com/bmeg/grip/engine/pipeline"
	"github.com/bmeg/grip/gripql"
	"github.com/bmeg/grip/jsonpath"
	"github.com/bmeg/grip/util/protoutil"
)

// ---- L6

func OkL6Equality(stmts []*gripql.GraphStatement) int {
	steps := inspect.PipelineSteps(stmts)
	asMap := inspect.PipelineAsSteps(stmts)
	n := 0
	for i := range steps {
		for _, a := range asMap {
			if a == steps[i] {
				n++
			}
		}
	}
	return n
}

func OkL6Numeric(stmts []*gripql.GraphStatement) int {
	steps := inspect.PipelineSteps(stmts)
	n := 0
	for _, a := range inspect.PipelineAsSteps(stmts) {
		x, _ := strconv.Atoi(a)
		y, _ := strconv.Atoi(steps[len(steps)-1])
		if x <= y {
			n++
		}
	}
	return n
}

func OkL6OtherStrings(labels []string) bool {
	return len(labels) > 1 && labels[0] < labels[1]
}

func BadL6Order(stmts []*gripql.GraphStatement) int {
	steps := inspect.PipelineSteps(stmts)
	asMap := inspect.PipelineAsSteps(stmts)
	n := 0
	for i := range steps {
		for _, a := range asMap {
			if a <= steps[i] {
				n++
			}
		}
	}
	return n
}

func BadL6State(ps *pipeline.State) bool {
	cur := ps.CurStep
	for k := range ps.StepOutputs {
		if k > cur {
			return true
		}
	}
	return false
}

// ---- L7

func OkL7AllMembers(e *gripql.HasExpression) []string {
	out := []string{}
	if c := e.GetCondition(); c != nil {
		out = append(out, jsonpath.GetNamespace(c.Key))
	}
	for _, s := range e.GetAnd().GetExpressions() {
		out = append(out, OkL7AllMembers(s)...)
	}
	for _, s := range e.GetOr().GetExpressions() {
		out = append(out, OkL7AllMembers(s)...)
	}
	if n := e.GetNot(); n != nil {
		out = append(out, OkL7AllMembers(n)...)
	}
	return out
}

func OkL7Switch(a *gripql.Aggregate) string {
	switch x := a.GetAggregation().(type) {
	case *gripql.Aggregate_Term:
		return x.Term.Field
	case *gripql.Aggregate_Histogram:
		return x.Histogram.Field
	case *gripql.Aggregate_Percentile:
		return x.Percentile.Field
	case *gripql.Aggregate_Field:
		return x.Field.Field
	case *gripql.Aggregate_Type:
		return x.Type.Field
	}
	return "" // count() names no field
}

func OkL7Default(a *gripql.Aggregate) string {
	switch x := a.GetAggregation().(type) {
	case *gripql.Aggregate_Term:
		return x.Term.Field
	default:
		return "*"
	}
}

func BadL7NoNot(e *gripql.HasExpression) []string {
	out := []string{}
	if c := e.GetCondition(); c != nil {
		out = append(out, jsonpath.GetNamespace(c.Key))
	}
	for _, s := range e.GetAnd().GetExpressions() {
		out = append(out, BadL7NoNot(s)...)
	}
	for _, s := range e.GetOr().GetExpressions() {
		out = append(out, BadL7NoNot(s)...)
	}
	return out
}

func BadL7Getters(a *gripql.Aggregate) string {
	if f := a.GetTerm().GetField(); f != "" {
		return f
	}
	if f := a.GetHistogram().GetField(); f != "" {
		return f
	}
	return a.GetPercentile().GetField()
}

func BadL7Switch(a *gripql.Aggregate) string {
	switch x := a.GetAggregation().(type) {
	case *gripql.Aggregate_Term:
		return x.Term.Field
	case *gripql.Aggregate_Histogram:
		return x.Histogram.Field
	case *gripql.Aggregate_Percentile:
		return x.Percentile.Field
	}
	return ""
}

// ---- L8

func OkL8StartReadsIDs(pipe []*gripql.GraphStatement) []*gripql.GraphStatement {
	if v, ok := pipe[0].GetStatement().(*gripql.GraphStatement_V); ok {
		if len(protoutil.AsStringList(v.V)) > 0 {
			return pipe
		}
	}
	return append([]*gripql.GraphStatement{{Statement: &gripql.GraphStatement_LookupVertsIndex{Labels: []string{"x"}}}}, pipe[1:]...)
}

func OkL8StartGetter(pipe []*gripql.GraphStatement) []*gripql.GraphStatement {
	if len(pipe[0].GetV().GetValues()) > 0 {
		return pipe
	}
	return append([]*gripql.GraphStatement{{Statement: &gripql.GraphStatement_LookupVertsIndex{Labels: []string{"x"}}}}, pipe[1:]...)
}

func BadL8StartIgnoresIDs(pipe []*gripql.GraphStatement) []*gripql.GraphStatement {
	if v, ok := pipe[0].GetStatement().(*gripql.GraphStatement_V); !ok || v.V == nil && false {
		return pipe
	}
	return append([]*gripql.GraphStatement{{Statement: &gripql.GraphStatement_LookupVertsIndex{Labels: []string{"x"}}}}, pipe[1:]...)
}

// ---- L5

func OkL5Absent(out map[string][]string, k string) {
	if x, ok := out[k]; ok {
		out[k] = append(x, "_label")
	} else {
		out[k] = []string{"_label"}
	}
}

func BadL5Overwrite(out map[string][]string, k string) {
	out[k] = []string{"_label"}
}
