// Package c03 holds tiny positive and negative examples for the must-Touch rule.
package c03

import (
	"errors"

	"github.com/bmeg/grip/kvi"
	"github.com/bmeg/grip/timestamp"
)

type G struct {
	kv kvi.KVInterface
	ts *timestamp.Timestamp
}

func (g *G) OkPlain(k []byte) error {
	if err := g.kv.Set(k, nil); err != nil {
		return err
	}
	g.ts.Touch("g")
	return nil
}

func (g *G) OkDefer(k []byte) error {
	defer g.ts.Touch("g")
	return g.kv.Set(k, nil)
}

func (g *G) OkCallback(k []byte) error {
	err := g.kv.BulkWrite(func(tx kvi.KVBulkWrite) error {
		if err := tx.Set(k, nil); err != nil {
			return err
		}
		g.ts.Touch("g")
		return nil
	})
	return err
}

func (g *G) OkReturnedCallback(k []byte) error {
	return g.kv.Update(func(tx kvi.KVTransaction) error {
		if err := tx.Delete(k); err != nil {
			return err
		}
		g.ts.Touch("g")
		return nil
	})
}

func (g *G) OkRefuses(k []byte) error {
	return errors.New("read only")
}

func (g *G) OkSwitchStyle(k []byte) error {
	err := g.kv.Set(k, nil)
	switch {
	case err != nil:
		return err
	}
	g.ts.Touch("g")
	return nil
}

func (g *G) helper() error {
	g.ts.Touch("g")
	return nil
}

func (g *G) OkViaHelper(k []byte) error {
	if err := g.kv.Set(k, nil); err != nil {
		return err
	}
	return g.helper()
}

func (g *G) BadMissing(k []byte) error {
	return g.kv.Set(k, nil)
}

func (g *G) BadOnlyOnError(k []byte) error {
	err := g.kv.Set(k, nil)
	if err != nil {
		g.ts.Touch("g")
		return err
	}
	return nil
}

func (g *G) BadCallbackNoTouch(k []byte) error {
	err := g.kv.BulkWrite(func(tx kvi.KVBulkWrite) error {
		return tx.Set(k, nil)
	})
	return err
}

func (g *G) OkNoopEarlyNil(k []byte) error {
	if len(k) == 0 {
		return nil // nothing written: no Touch needed
	}
	defer g.ts.Touch("g")
	return g.kv.Set(k, nil)
}

func (g *G) OkTouchBeforeWrite(k []byte) error {
	g.ts.Touch("g")
	if err := g.kv.Set(k, nil); err != nil {
		return err
	}
	return g.kv.Set(append(k, 1), nil)
}

func (g *G) OkConditionalWriteAndTouch(k []byte) error {
	if len(k) > 3 {
		if err := g.kv.Delete(k[:3]); err != nil {
			return err
		}
		g.ts.Touch("g")
	}
	return nil
}

func (g *G) BadConditionalTouch(k []byte) error {
	if err := g.kv.Set(k, nil); err != nil {
		return err
	}
	if len(k) > 3 {
		g.ts.Touch("g")
	}
	return nil
}

func (g *G) add(ks [][]byte) error {
	for _, k := range ks {
		if err := g.kv.Set(k, nil); err != nil {
			return err
		}
	}
	g.ts.Touch("g")
	return nil
}

func (g *G) addSilently(ks [][]byte) error {
	for _, k := range ks {
		if err := g.kv.Set(k, nil); err != nil {
			return err
		}
	}
	return nil
}

func batch(ks [][]byte, f func([][]byte) error) error {
	for len(ks) > 0 {
		if err := f(ks[:1]); err != nil {
			return err
		}
		ks = ks[1:]
	}
	return nil
}

func (g *G) OkBatchedThroughMethodValue(ks [][]byte) error {
	return batch(ks, g.add)
}

func (g *G) BadBatchedThroughMethodValue(ks [][]byte) error {
	return batch(ks, g.addSilently)
}

func (g *G) BadAsync(k []byte) error {
	go g.ts.Touch("g")
	return g.kv.Set(k, nil)
}
