// Package c04 holds tiny positive and negative examples for the atomic-unit and mirror rules.
package c04

import (
	"bytes"

	"github.com/bmeg/grip/kvi"
)

var aPrefix = []byte("a")
var bPrefix = []byte("b")
var rPrefix = []byte("r")

func AKey(id string) []byte { return bytes.Join([][]byte{aPrefix, []byte(id)}, []byte{0}) }
func BKey(id string) []byte { return bytes.Join([][]byte{bPrefix, []byte(id)}, []byte{0}) }
func RKey(id string) []byte { return bytes.Join([][]byte{rPrefix, []byte(id)}, []byte{0}) }
func RPrefix() []byte       { return rPrefix }

type S struct {
	kv  kvi.KVInterface
	reg map[string]bool
}

func (s *S) OkOneTransaction(id string) error {
	return s.kv.Update(func(tx kvi.KVTransaction) error {
		if err := tx.Set(AKey(id), nil); err != nil {
			return err
		}
		return tx.Set(BKey(id), nil)
	})
}

func writeBoth(tx kvi.KVBulkWrite, id string) error {
	if err := tx.Set(AKey(id), nil); err != nil {
		return err
	}
	return tx.Set(BKey(id), nil)
}

func (s *S) OkHelperInsideBulk(id string) error {
	return s.kv.BulkWrite(func(tx kvi.KVBulkWrite) error {
		return writeBoth(tx, id)
	})
}

func (s *S) OkSingleFamily(id string) error {
	return s.kv.Set(AKey(id), nil)
}

func (s *S) BadSeparateWrites(id string) error {
	if err := s.kv.Set(AKey(id), nil); err != nil {
		return err
	}
	return s.kv.Set(BKey(id), nil)
}

func (s *S) BadTwoTransactions(id string) error {
	if err := s.kv.Update(func(tx kvi.KVTransaction) error { return tx.Delete(AKey(id)) }); err != nil {
		return err
	}
	return s.kv.Update(func(tx kvi.KVTransaction) error { return tx.Delete(BKey(id)) })
}

func (s *S) Register(id string) error {
	s.reg[id] = true
	return s.kv.Set(RKey(id), nil)
}

// NewForgetful starts with an empty registry although family r is persisted.
func NewForgetful(kv kvi.KVInterface) *S {
	return &S{kv: kv, reg: map[string]bool{}}
}
