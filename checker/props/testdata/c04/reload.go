package c04

import (
	"bytes"

	"github.com/bmeg/grip/kvi"
)

func (s *S) load() {
	p := RPrefix()
	s.kv.View(func(it kvi.KVIterator) error {
		for it.Seek(p); it.Valid() && bytes.HasPrefix(it.Key(), p); it.Next() {
			s.reg[string(it.Key()[2:])] = true
		}
		return nil
	})
}

// NewReloading rebuilds the registry from family r.
func NewReloading(kv kvi.KVInterface) *S {
	s := &S{kv: kv, reg: map[string]bool{}}
	s.load()
	return s
}
