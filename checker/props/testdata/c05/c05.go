package c05

import (
	"sync"

	"github.com/bmeg/grip/accounts"
	"github.com/bmeg/grip/gripql"
	"google.golang.org/grpc"
)

var Table = map[string]accounts.Operation{
	"/t.S/Good":      accounts.Read,
	"/t.S/Early":     accounts.Read,
	"/t.S/Unchecked": accounts.Read,
	"/t.S/WrongOp":   accounts.Read,
}

func Interceptor(auth accounts.Authenticate, access accounts.Access) grpc.StreamServerInterceptor {
	return func(srv interface{}, ss grpc.ServerStream, info *grpc.StreamServerInfo, handler grpc.StreamHandler) error {
		user, err := auth.Validate(accounts.MetaData{})
		if err != nil {
			return err
		}
		switch info.FullMethod {
		case "/t.S/Good":
			w, err := accounts.NewStreamOutWrapper[gripql.GraphQuery](ss)
			if err != nil {
				return err
			}
			if err := access.Enforce(user, w.Request.Graph, accounts.Read); err != nil {
				return err
			}
			return handler(srv, w)
		case "/t.S/Early":
			w, err := accounts.NewStreamOutWrapper[gripql.GraphQuery](ss)
			if err != nil {
				return err
			}
			if w.Request.Graph == "public" {
				return handler(srv, w)
			}
			if err := access.Enforce(user, w.Request.Graph, accounts.Read); err != nil {
				return err
			}
			return handler(srv, w)
		case "/t.S/Unchecked":
			w, _ := accounts.NewStreamOutWrapper[gripql.GraphQuery](ss)
			access.Enforce(user, w.Request.Graph, accounts.Read)
			return handler(srv, w)
		case "/t.S/WrongOp":
			w, err := accounts.NewStreamOutWrapper[gripql.GraphQuery](ss)
			if err != nil {
				return err
			}
			if err := access.Enforce(user, w.Request.Graph, accounts.Query); err != nil {
				return err
			}
			return handler(srv, w)
		}
		return nil
	}
}

// ---- R6 ----

var decisions sync.Map

func OkKeySeparated(user, graph, op string) bool {
	key := user + "\x00" + graph + "\x00" + op
	_, ok := decisions.Load(key)
	return ok
}

func BadKeyConcatenated(user, graph, op string) bool {
	key := user + graph + op
	_, ok := decisions.Load(key)
	return ok
}
