// Package c06 holds tiny positive and negative examples for the crash rules.
package c06

import (
	"reflect"
	"strings"

	"github.com/bmeg/grip/gdbi"
	"google.golang.org/protobuf/types/known/structpb"
)

func OkCommaOk(v interface{}) string {
	if s, ok := v.(string); ok {
		return s
	}
	return ""
}

func OkTypeSwitch(v interface{}) int {
	switch x := v.(type) {
	case []interface{}:
		return len(x)
	case string:
		return len(x)
	}
	return 0
}

func BadAssert(v *structpb.Value) int {
	return len(v.AsInterface().([]interface{}))
}

func badAssertHelper(v interface{}) string { return v.(string) }

func OkCallsBadHelper(v *structpb.Value) string {
	return badAssertHelper(v.AsInterface())
}

func OkGuardedCurrent(t gdbi.Traveler) string {
	if t.IsSignal() || t.IsNull() {
		return ""
	}
	return t.GetCurrent().Label
}

func OkNilTest(t gdbi.Traveler) string {
	cur := t.GetCurrent()
	if cur == nil {
		return ""
	}
	return cur.ID
}

func OkEarlyContinue(ts []gdbi.Traveler) (out []string) {
	for _, t := range ts {
		if t.IsNull() {
			continue
		}
		out = append(out, t.GetCurrentID())
	}
	return
}

func BadSignalOnlyGuard(t gdbi.Traveler) string {
	if t.IsSignal() {
		return ""
	}
	return t.GetCurrent().Label
}

func BadCurrentID(t gdbi.Traveler) string {
	return t.GetCurrentID()
}

func BadLookupResult(g gdbi.GraphInterface, id string) string {
	v := g.GetVertex(id, true)
	return v.Label
}

func BadReassigned(g gdbi.GraphInterface, t gdbi.Traveler) string {
	ve := t.GetCurrent()
	if ve != nil {
		if !ve.Loaded {
			ve = g.GetVertex(ve.ID, true)
		}
		return ve.ID
	}
	return ""
}

func OkReassignedGuarded(g gdbi.GraphInterface, t gdbi.Traveler) string {
	ve := t.GetCurrent()
	if ve != nil {
		if !ve.Loaded {
			ve = g.GetVertex(ve.ID, true)
		}
		if ve != nil {
			return ve.ID
		}
	}
	return ""
}

func useElem(e *gdbi.DataElement) string { return e.ID }

func BadPassedToDeref(t gdbi.Traveler) string {
	return useElem(t.GetMark("a"))
}

func OkToDict(t gdbi.Traveler) int {
	return len(t.GetMark("a").ToDict())
}

func OkSplitZero(s string) string {
	return strings.Split(s, ".")[0]
}

func OkLenChecked(s string) string {
	parts := strings.SplitN(s, ":", 2)
	if len(parts) != 2 {
		return ""
	}
	return parts[1]
}

func OkSwitchLen(marks []string) string {
	switch len(marks) {
	case 0:
		return ""
	case 1:
		return marks[0]
	}
	return marks[len(marks)-1]
}

func OkFlagGuard(ids []int, pipe []string) (out []string) {
	opt := false
	if len(ids) > 0 {
		opt = true
	}
	for i, s := range pipe {
		if opt {
			if i != ids[0] {
				out = append(out, s)
			}
		}
	}
	return
}

func BadSplitOne(s string) string {
	return strings.Split(s, ":")[1]
}

func BadFirstOfEmpty(vals []float64) float64 {
	return vals[0]
}

func BadLastOfEmpty(vals []float64) float64 {
	return vals[len(vals)-1]
}

func OkLastGuarded(vals []float64) float64 {
	if len(vals) == 0 {
		return 0
	}
	return vals[len(vals)-1]
}

func OkChanSwitch(names []string) {
	ch := make(chan string, 1)
	for _, n := range names {
		if n == "" {
			close(ch)
			ch = make(chan string, 1)
		}
		ch <- n
	}
	close(ch)
}

func BadChanContinue(names []string) {
	ch := make(chan string, 1)
	for _, n := range names {
		if n == "" {
			close(ch)
			if len(names) > 3 {
				continue
			}
			ch = make(chan string, 1)
		}
		ch <- n
	}
	close(ch)
}

func OkUniqueNames(names []string) bool {
	seen := map[string]bool{}
	for _, n := range names {
		if _, ok := seen[n]; ok {
			return false
		}
		seen[n] = true
	}
	return true
}

func BadUniqueNamesNeverStored(names []string) bool {
	seen := map[string]bool{}
	for _, n := range names {
		if _, ok := seen[n]; ok {
			return false
		}
	}
	return true
}

func OkNilWhenIdle(names []string) {
	var ch chan string
	cur := ""
	for _, n := range names {
		if n != cur || ch == nil {
			if ch != nil {
				close(ch)
				ch = nil
			}
			if n == "" {
				continue
			}
			cur = n
			ch = make(chan string, 10)
		}
		ch <- n
	}
	if ch != nil {
		close(ch)
	}
}

func BadCloseMaybeNil(names []string) {
	var ch chan string
	for _, n := range names {
		if n == "x" {
			ch = make(chan string, 10)
		}
	}
	close(ch)
}

func OkFreshTraveler(t gdbi.Traveler) string {
	var out gdbi.Traveler = &gdbi.BaseTraveler{}
	out = out.AddCurrent(&gdbi.DataElement{Data: map[string]interface{}{}})
	for _, m := range t.ListMarks() {
		out = out.AddMark(m, t.GetMark(m))
	}
	ode := out.GetCurrent()
	ode.ID = "x"
	return ode.ID
}

// BadIfaceEqual compares two request-JSON values with ==.
func BadIfaceEqual(a, b *structpb.Value) bool {
	return a.AsInterface() == b.AsInterface()
}

// OkIfaceNil compares a request-JSON value with nil only.
func OkIfaceNil(a *structpb.Value) bool {
	return a.AsInterface() == nil
}

// OkMapKeyFiltered counts request values by kind-checked key.
func OkMapKeyFiltered(v *structpb.Value) int {
	counts := map[interface{}]int{}
	val := v.AsInterface()
	if val != nil {
		k := reflect.TypeOf(val).Kind()
		if k != reflect.Array && k != reflect.Slice && k != reflect.Map {
			counts[val]++
		}
	}
	return len(counts)
}

// BadMapKeyObject lets an object-valued request value become a map key.
func BadMapKeyObject(v *structpb.Value) int {
	counts := map[interface{}]int{}
	val := v.AsInterface()
	if _, isList := val.([]interface{}); !isList && val != nil {
		counts[val]++
	}
	return len(counts)
}

// ---- helpers whose callers hold the guard ----

func okHelperDeref(t gdbi.Traveler) string { return t.GetCurrent().ID }

func OkCallsHelperGuarded(t gdbi.Traveler) string {
	if t.IsNull() {
		return ""
	}
	return okHelperDeref(t)
}

func OkCallsHelperGuardedToo(ts []gdbi.Traveler) (out []string) {
	for _, t := range ts {
		if t.IsSignal() || t.IsNull() {
			continue
		}
		out = append(out, okHelperDeref(t))
	}
	return out
}

func badHelperDeref(t gdbi.Traveler) string { return t.GetCurrent().ID }

func OkCallsBadHelperGuarded(t gdbi.Traveler) string {
	if t.IsNull() {
		return ""
	}
	return badHelperDeref(t)
}

// the unguarded call makes badHelperDeref's dereference reachable with a null traveler
func OkCallsBadHelperUnguarded(t gdbi.Traveler) string { return badHelperDeref(t) }
