// Package c07 holds tiny examples for the liveness rules.
package c07

import (
	"bytes"
	"context"

	"github.com/bmeg/grip/kvi"
)

func stage(in chan int, out chan int) {
	go func() {
		defer close(out)
		for v := range in {
			out <- v
			out <- v
		}
	}()
}

func BadFeedThenDrain(in chan int, out chan int) {
	go func() {
		defer close(out)
		ins := make([]chan int, 2)
		outs := make([]chan int, 2)
		for i := range ins {
			ins[i] = make(chan int, 1000)
			outs[i] = make(chan int, 1000)
			stage(ins[i], outs[i])
		}
		for v := range in {
			for _, c := range ins {
				c <- v
			}
		}
		for _, c := range ins {
			close(c)
		}
		for i := range outs {
			for v := range outs[i] {
				out <- v
			}
		}
	}()
}

func OkConcurrentDrain(in chan int, out chan int) {
	a := make(chan int, 10)
	b := make(chan int, 10)
	stage(a, b)
	go func() {
		for v := range in {
			a <- v
		}
		close(a)
	}()
	go func() {
		defer close(out)
		for v := range b {
			out <- v
		}
	}()
}

func OkScan(ctx context.Context, kv kvi.KVInterface, prefix []byte) chan []byte {
	o := make(chan []byte, 10)
	go func() {
		defer close(o)
		kv.View(func(it kvi.KVIterator) error {
			for it.Seek(prefix); it.Valid() && bytes.HasPrefix(it.Key(), prefix); it.Next() {
				select {
				case <-ctx.Done():
					return nil
				default:
				}
				o <- it.Key()
			}
			return nil
		})
	}()
	return o
}

func BadScanIgnoresCtx(ctx context.Context, kv kvi.KVInterface, prefix []byte) chan []byte {
	o := make(chan []byte, 10)
	go func() {
		defer close(o)
		kv.View(func(it kvi.KVIterator) error {
			for it.Seek(prefix); it.Valid() && bytes.HasPrefix(it.Key(), prefix); it.Next() {
				o <- it.Key()
			}
			return nil
		})
	}()
	return o
}
