// Package c08 holds positive and negative examples for the C08 rules.
package c08

import (
	"github.com/bmeg/grip/gdbi"
	"github.com/bmeg/grip/gripql"
	"github.com/bmeg/grip/jsonpath"
	"github.com/spf13/cast"
)

func OkCond(trav gdbi.Traveler, cond *gripql.HasCondition) bool {
	val := jsonpath.TravelerPathLookup(trav, cond.Key)
	condVal := cond.Value.AsInterface()
	switch cond.Condition {
	case gripql.Condition_GTE:
		valN, err := cast.ToFloat64E(val)
		if err != nil {
			return false
		}
		condN, err := cast.ToFloat64E(condVal)
		if err != nil {
			return false
		}
		return valN >= condN
	case gripql.Condition_BETWEEN:
		vals, err := cast.ToSliceE(condVal)
		if err != nil || len(vals) != 2 {
			return false
		}
		lower, err := cast.ToFloat64E(vals[0])
		if err != nil {
			return false
		}
		upper, err := cast.ToFloat64E(vals[1])
		if err != nil {
			return false
		}
		valF, err := cast.ToFloat64E(val)
		if err != nil {
			return false
		}
		return lower <= valF && upper > valF
	}
	return false
}

// BadCondClosedBetween: between includes its upper bound.
func BadCondClosedBetween(trav gdbi.Traveler, cond *gripql.HasCondition) bool {
	val := jsonpath.TravelerPathLookup(trav, cond.Key)
	condVal := cond.Value.AsInterface()
	switch cond.Condition {
	case gripql.Condition_BETWEEN:
		vals, err := cast.ToSliceE(condVal)
		if err != nil || len(vals) != 2 {
			return false
		}
		lower, err := cast.ToFloat64E(vals[0])
		if err != nil {
			return false
		}
		upper, err := cast.ToFloat64E(vals[1])
		if err != nil {
			return false
		}
		valF, err := cast.ToFloat64E(val)
		if err != nil {
			return false
		}
		return valF >= lower && valF <= upper
	}
	return false
}

// BadCondSwappedBounds: the list elements are read in the wrong order.
func BadCondSwappedBounds(trav gdbi.Traveler, cond *gripql.HasCondition) bool {
	val := jsonpath.TravelerPathLookup(trav, cond.Key)
	condVal := cond.Value.AsInterface()
	switch cond.Condition {
	case gripql.Condition_INSIDE:
		vals, err := cast.ToSliceE(condVal)
		if err != nil || len(vals) != 2 {
			return false
		}
		lower, err := cast.ToFloat64E(vals[1])
		if err != nil {
			return false
		}
		upper, err := cast.ToFloat64E(vals[0])
		if err != nil {
			return false
		}
		valF, err := cast.ToFloat64E(val)
		if err != nil {
			return false
		}
		return valF > lower && valF < upper
	}
	return false
}

// BadCondUncheckedCast: a non-number becomes 0 and is compared.
func BadCondUncheckedCast(trav gdbi.Traveler, cond *gripql.HasCondition) bool {
	val := jsonpath.TravelerPathLookup(trav, cond.Key)
	condVal := cond.Value.AsInterface()
	switch cond.Condition {
	case gripql.Condition_LT:
		valN, _ := cast.ToFloat64E(val)
		condN, err := cast.ToFloat64E(condVal)
		if err != nil {
			return false
		}
		return valN < condN
	}
	return false
}

func OkMatchShortCircuit(trav gdbi.Traveler, stmt *gripql.HasExpression) bool {
	switch stmt.Expression.(type) {
	case *gripql.HasExpression_Condition:
		return OkCond(trav, stmt.GetCondition())
	case *gripql.HasExpression_And:
		for _, e := range stmt.GetAnd().Expressions {
			if !OkMatchShortCircuit(trav, e) {
				return false
			}
		}
		return true
	case *gripql.HasExpression_Or:
		found := false
		for _, e := range stmt.GetOr().Expressions {
			found = found || OkMatchShortCircuit(trav, e)
		}
		return found
	case *gripql.HasExpression_Not:
		return !OkMatchShortCircuit(trav, stmt.GetNot())
	}
	return false
}

// BadMatchOrIsAnd: the Or arm demands every sub-expression.
func BadMatchOrIsAnd(trav gdbi.Traveler, stmt *gripql.HasExpression) bool {
	switch stmt.Expression.(type) {
	case *gripql.HasExpression_Condition:
		return OkCond(trav, stmt.GetCondition())
	case *gripql.HasExpression_And:
		for _, e := range stmt.GetAnd().Expressions {
			if !BadMatchOrIsAnd(trav, e) {
				return false
			}
		}
		return true
	case *gripql.HasExpression_Or:
		res := []bool{}
		for _, e := range stmt.GetOr().Expressions {
			res = append(res, BadMatchOrIsAnd(trav, e))
		}
		for _, r := range res {
			if !r {
				return false
			}
		}
		return true
	case *gripql.HasExpression_Not:
		return !BadMatchOrIsAnd(trav, stmt.GetNot())
	}
	return false
}

// BadMatchNotDropped: the Not arm forgets the negation.
func BadMatchNotDropped(trav gdbi.Traveler, stmt *gripql.HasExpression) bool {
	switch stmt.Expression.(type) {
	case *gripql.HasExpression_Condition:
		return OkCond(trav, stmt.GetCondition())
	case *gripql.HasExpression_And:
		for _, e := range stmt.GetAnd().Expressions {
			if !BadMatchNotDropped(trav, e) {
				return false
			}
		}
		return true
	case *gripql.HasExpression_Or:
		for _, e := range stmt.GetOr().Expressions {
			if BadMatchNotDropped(trav, e) {
				return true
			}
		}
		return false
	case *gripql.HasExpression_Not:
		e := stmt.GetNot()
		return BadMatchNotDropped(trav, e)
	}
	return false
}

// ---- cast helpers ----

func pairOK(val, condVal interface{}) (float64, float64, bool) {
	a, err := cast.ToFloat64E(val)
	if err != nil {
		return 0, 0, false
	}
	b, err := cast.ToFloat64E(condVal)
	if err != nil {
		return 0, 0, false
	}
	return a, b, true
}

// pairUnsound reports success although the second cast may have failed.
func pairUnsound(val, condVal interface{}) (float64, float64, bool) {
	a, err := cast.ToFloat64E(val)
	if err != nil {
		return 0, 0, false
	}
	b, _ := cast.ToFloat64E(condVal)
	return a, b, true
}

func OkCondHelper(trav gdbi.Traveler, cond *gripql.HasCondition) bool {
	val := jsonpath.TravelerPathLookup(trav, cond.Key)
	condVal := cond.Value.AsInterface()
	switch cond.Condition {
	case gripql.Condition_LTE:
		v, c, ok := pairOK(val, condVal)
		return ok && v <= c
	case gripql.Condition_GT:
		// operands swapped, operator mirrored
		v, c, ok := pairOK(val, condVal)
		return ok && c < v
	}
	return false
}

func BadCondHelperUnsound(trav gdbi.Traveler, cond *gripql.HasCondition) bool {
	val := jsonpath.TravelerPathLookup(trav, cond.Key)
	condVal := cond.Value.AsInterface()
	switch cond.Condition {
	case gripql.Condition_LTE:
		v, c, ok := pairUnsound(val, condVal)
		return ok && v <= c
	}
	return false
}

// BadCondHelperNoFlag ignores the helper's success flag.
func BadCondHelperNoFlag(trav gdbi.Traveler, cond *gripql.HasCondition) bool {
	val := jsonpath.TravelerPathLookup(trav, cond.Key)
	condVal := cond.Value.AsInterface()
	switch cond.Condition {
	case gripql.Condition_LT:
		v, c, _ := pairOK(val, condVal)
		return v < c
	}
	return false
}
