// Package c10 holds positive and negative examples for the C10 rules.
package c10

import (
	"bytes"
	"fmt"

	"gripselftest/c10/lib"
)

// ---- S1 ----

type OkStoreNil struct{ db *lib.Lib }

func (s *OkStoreNil) HasKey(k []byte) bool {
	out := false
	s.db.View(func(l *lib.Lib) error {
		if d := l.Lookup(k); d != nil {
			out = true
		}
		return nil
	})
	return out
}

func (s *OkStoreNil) Get(k []byte) ([]byte, error) {
	d := s.db.Lookup(k)
	if d == nil {
		return nil, fmt.Errorf("not found")
	}
	return d, nil
}

type BadStoreInverted struct{ db *lib.Lib }

func (s *BadStoreInverted) HasKey(k []byte) bool {
	d := s.db.Lookup(k)
	return d == nil
}

type OkStoreCloser struct{ db *lib.Lib }

func (s *OkStoreCloser) HasKey(k []byte) bool {
	_, c, err := s.db.Lookup3(k)
	if err != nil {
		return false
	}
	c.Close()
	return true
}

type BadStoreCloser struct{ db *lib.Lib }

func (s *BadStoreCloser) HasKey(k []byte) bool {
	_, c, err := s.db.Lookup3(k)
	c.Close()
	if err != nil {
		return false
	}
	return true
}

type OkStoreHas struct{ db *lib.Lib }

func (s *OkStoreHas) HasKey(k []byte) bool {
	out, _ := s.db.Has(k)
	return out
}

type BadStoreGetSilent struct{ db *lib.Lib }

func (s *BadStoreGetSilent) Get(k []byte) ([]byte, error) {
	d := s.db.Lookup(k)
	return d, nil
}

// ---- S2 ----

type OkIterCached struct {
	it  *lib.Iter
	key []byte
}

func (i *OkIterCached) Valid() bool { return i.key != nil }
func (i *OkIterCached) Seek(k []byte) error {
	if !i.it.Seek(k) {
		i.key = nil
		return fmt.Errorf("invalid")
	}
	i.key = i.it.Key()
	return nil
}
func (i *OkIterCached) SeekReverse(k []byte) error { return i.Seek(k) }
func (i *OkIterCached) Next() error {
	if i.it.Next() {
		i.key = i.it.Key()
	} else {
		i.key = nil
	}
	return nil
}

type BadIterStale struct {
	it  *lib.Iter
	key []byte
}

func (i *BadIterStale) Valid() bool { return i.key != nil }
func (i *BadIterStale) Seek(k []byte) error {
	if !i.it.Seek(k) {
		return fmt.Errorf("invalid")
	}
	i.key = i.it.Key()
	return nil
}
func (i *BadIterStale) SeekReverse(k []byte) error { i.key = nil; return nil }
func (i *BadIterStale) Next() error                { i.key = nil; return nil }

type OkIterDelegates struct {
	it  *lib.Iter
	key []byte
}

func (i *OkIterDelegates) Valid() bool { return i.it.Valid() }
func (i *OkIterDelegates) Seek(k []byte) error {
	if !i.it.Seek(k) {
		return fmt.Errorf("invalid")
	}
	i.key = i.it.Key()
	return nil
}

// ---- S3 ----

type tx struct{ t *lib.Tx }

func OkCommitChecked(db *lib.Lib, u func(t tx) error) error {
	t := db.Begin()
	err := u(tx{t})
	if err != nil {
		t.Discard()
		return err
	}
	return t.Commit()
}

func BadCommitDeferred(db *lib.Lib, u func(t tx) error) error {
	t := db.Begin()
	defer t.Commit()
	return u(tx{t})
}

func BadCommitAlways(db *lib.Lib, u func(t tx) error) error {
	t := db.Begin()
	err := u(tx{t})
	t.Commit()
	return err
}

// ---- S4 ----

func OkPosSeek(db *lib.Lib, prefix []byte) int {
	n := 0
	it := db.NewIter()
	for it.Seek(prefix); it.Valid() && bytes.HasPrefix(it.Key(), prefix); it.Next() {
		n++
	}
	it.Close()
	return n
}

func BadPosNever(db *lib.Lib, prefix []byte) int {
	n := 0
	it := db.NewIter()
	for ; it.Valid() && bytes.HasPrefix(it.Key(), prefix); it.Next() {
		n++
	}
	it.Close()
	return n
}

func BadPosOneBranch(db *lib.Lib, prefix []byte, fromStart bool) int {
	n := 0
	it := db.NewIter()
	if fromStart {
		it.First()
	}
	for ; it.Valid(); it.Next() {
		n++
	}
	return n
}

type keepIt struct {
	it  *lib.Iter
	key []byte
}

func cp(in []byte) []byte {
	out := make([]byte, len(in))
	copy(out, in)
	return out
}

func OkKeepCopied(k *keepIt) {
	k.it.Next()
	k.key = cp(k.it.Key())
}

func OkKeepCopiedVar(k *keepIt) [][]byte {
	var all [][]byte
	for k.it.First(); k.it.Valid(); k.it.Next() {
		raw := k.it.Key()
		all = append(all, cp(raw))
	}
	k.key = nil
	return all
}

func BadKeepRaw(k *keepIt) {
	k.it.Next()
	k.key = k.it.Key()
}

func BadKeepRawVar(k *keepIt) {
	raw := k.it.Key()
	k.key = raw
}

func BadKeepCollected(k *keepIt) [][]byte {
	var all [][]byte
	for k.it.First(); k.it.Valid(); k.it.Next() {
		all = append(all, k.it.Key())
	}
	return all
}
