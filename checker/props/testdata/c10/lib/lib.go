// Package lib stands in for a key-value store library in the C10 self-tests.
package lib

import "io"

type Lib struct{}

func (l *Lib) Lookup(k []byte) []byte                      { return nil }
func (l *Lib) Lookup3(k []byte) ([]byte, io.Closer, error) { return nil, nil, nil }
func (l *Lib) Has(k []byte) (bool, error)                  { return false, nil }
func (l *Lib) View(f func(l *Lib) error) error             { return f(l) }
func (l *Lib) Put(k, v []byte) error                       { return nil }
func (l *Lib) NewIter() *Iter                              { return &Iter{} }
func (l *Lib) Begin() *Tx                                  { return &Tx{} }

type Tx struct{}

func (t *Tx) Put(k, v []byte) error { return nil }
func (t *Tx) Commit() error         { return nil }
func (t *Tx) Discard()              {}

type Iter struct{}

func (i *Iter) Seek(k []byte) bool { return false }
func (i *Iter) First() bool        { return false }
func (i *Iter) Valid() bool        { return false }
func (i *Iter) Key() []byte        { return nil }
func (i *Iter) Next() bool         { return false }
func (i *Iter) Close()             {}
