// Package c11 holds positive and negative examples for the C11 rules.
package c11

type OkRow struct {
	ID    string
	Data  map[string]interface{}
	Count uint32 `json:"count"`
}

type BadRowHidden struct {
	ID    string
	cache map[string]interface{}
	Skip  int `json:"-"`
}

func OkMatchAscending(query []string, job []string) bool {
	if len(job) > len(query) {
		return false
	}
	for i := 0; i < len(job); i++ {
		if query[i] != job[i] {
			return false
		}
	}
	return len(job) > 1
}

func OkMatchDescending(query []string, job []string) bool {
	if len(job) > len(query) {
		return false
	}
	for i := len(job) - 1; i >= 0; i-- {
		if query[i] != job[i] {
			return false
		}
	}
	return len(job) > 1
}

// BadMatchSkipsFirst never compares position 0.
func BadMatchSkipsFirst(query []string, job []string) bool {
	if len(job) > len(query) {
		return false
	}
	for i := len(job) - 1; i > 0; i-- {
		if query[i] != job[i] {
			return false
		}
	}
	return len(job) > 1
}

// BadMatchSkipsLast stops one short.
func BadMatchSkipsLast(query []string, job []string) bool {
	for i := 0; i < len(job)-1; i++ {
		if query[i] != job[i] {
			return false
		}
	}
	return len(job) > 1
}

func OkForwardAll(in chan int, out chan int) {
	for i := range in {
		out <- i
	}
	close(out)
}

func OkForwardEncoded(in chan int, out chan string) {
	for i := range in {
		s := string(rune(i))
		out <- s
	}
	close(out)
}

// BadForwardFiltered drops some items.
func BadForwardFiltered(in chan int, out chan int) {
	for i := range in {
		if i == 0 {
			continue
		}
		out <- i
	}
	close(out)
}

// BadForwardGuarded forwards under a condition.
func BadForwardGuarded(in chan int, out chan int) {
	for i := range in {
		if i != 0 {
			out <- i
		}
	}
	close(out)
}
