// Package c12 holds tiny examples for the unbounded-queue rule (M6).
package c12

import (
	"runtime"
	"sync"
)

// OkQueue is the shape of the jump queue: the intake only appends.
func OkQueue() (chan int, chan int) {
	in, out := make(chan int, 5), make(chan int, 5)
	var queue []int
	closed := false
	m := &sync.Mutex{}
	go func() {
		for v := range in {
			m.Lock()
			queue = append(queue, v)
			m.Unlock()
		}
		m.Lock()
		closed = true
		m.Unlock()
	}()
	go func() {
		defer close(out)
		for running := true; running; {
			v, ok := 0, false
			m.Lock()
			if len(queue) > 0 {
				v, ok = queue[0], true
				queue = queue[1:]
			} else if closed {
				running = false
			}
			m.Unlock()
			if ok {
				out <- v
			}
		}
	}()
	return in, out
}

// OkLocalLoop has an inner loop over goroutine-local state and a non-blocking poll.
func OkLocalLoop() (chan int, chan int) {
	in, out := make(chan int, 5), make(chan int, 5)
	var queue []int
	m := &sync.Mutex{}
	wake := make(chan struct{}, 1)
	go func() {
		defer close(wake)
		for v := range in {
			batch := []int{v}
			for i := 0; i < len(batch); i++ {
				m.Lock()
				queue = append(queue, batch[i])
				m.Unlock()
			}
			select {
			case wake <- struct{}{}:
			default:
			}
		}
	}()
	go func() {
		defer close(out)
		for range wake {
			m.Lock()
			q := queue
			queue = nil
			m.Unlock()
			for _, v := range q {
				out <- v
			}
		}
	}()
	return in, out
}

// BadCap makes the writer wait while the buffer is "full".
func BadCap() (chan int, chan int) {
	in, out := make(chan int, 5), make(chan int, 5)
	var queue []int
	closed := false
	m := &sync.Mutex{}
	go func() {
		for v := range in {
			m.Lock()
			for len(queue) >= 100 {
				m.Unlock()
				runtime.Gosched()
				m.Lock()
			}
			queue = append(queue, v)
			m.Unlock()
		}
		m.Lock()
		closed = true
		m.Unlock()
	}()
	go func() {
		defer close(out)
		for running := true; running; {
			v, ok := 0, false
			m.Lock()
			if len(queue) > 0 {
				v, ok = queue[0], true
				queue = queue[1:]
			} else if closed {
				running = false
			}
			m.Unlock()
			if ok {
				out <- v
			}
		}
	}()
	return in, out
}

// BadChanBuffer replaces the slice by a bounded channel.
func BadChanBuffer() (chan int, chan int) {
	in, out := make(chan int, 5), make(chan int, 5)
	buf := make(chan int, 1000)
	go func() {
		for v := range in {
			buf <- v
		}
		close(buf)
	}()
	go func() {
		defer close(out)
		for v := range buf {
			out <- v
		}
	}()
	return in, out
}

// BadSendUnderLock: the reader delivers while holding the mutex the intake needs.
func BadSendUnderLock() (chan int, chan int) {
	in, out := make(chan int, 5), make(chan int, 5)
	var queue []int
	closed := false
	m := &sync.Mutex{}
	go func() {
		for v := range in {
			m.Lock()
			queue = append(queue, v)
			m.Unlock()
		}
		m.Lock()
		closed = true
		m.Unlock()
	}()
	go func() {
		defer close(out)
		for running := true; running; {
			m.Lock()
			if len(queue) > 0 {
				out <- queue[0]
				queue = queue[1:]
			} else if closed {
				running = false
			}
			m.Unlock()
		}
	}()
	return in, out
}

// BadCondWait: the intake waits on a condition variable signalled by the reader.
func BadCondWait() (chan int, chan int) {
	in, out := make(chan int, 5), make(chan int, 5)
	var queue []int
	closed := false
	m := &sync.Mutex{}
	c := sync.NewCond(m)
	go func() {
		for v := range in {
			m.Lock()
			if len(queue) >= 100 {
				c.Wait()
			}
			queue = append(queue, v)
			m.Unlock()
		}
		m.Lock()
		closed = true
		m.Unlock()
	}()
	go func() {
		defer close(out)
		for running := true; running; {
			v, ok := 0, false
			m.Lock()
			if len(queue) > 0 {
				v, ok = queue[0], true
				queue = queue[1:]
				c.Signal()
			} else if closed {
				running = false
			}
			m.Unlock()
			if ok {
				out <- v
			}
		}
	}()
	return in, out
}
