// Package c13 holds tiny combinators for the process-network rules.
package c13

import "sync"

func OkPipe(in chan int) chan int {
	out := make(chan int, 10)
	go func() {
		defer close(out)
		for v := range in {
			out <- v
		}
	}()
	return out
}

func OkWorkers(in chan int, n int) chan int {
	to := make([]chan int, n)
	from := make([]chan int, n)
	for i := 0; i < n; i++ {
		to[i] = make(chan int, 10)
		from[i] = make(chan int, 10)
	}
	for i := 0; i < n; i++ {
		go func(in chan int, out chan int) {
			defer close(out)
			for v := range in {
				out <- v
			}
		}(to[i], from[i])
	}
	go func() {
		k := 0
		for v := range in {
			to[k] <- v
			k = (k + 1) % n
		}
		for i := 0; i < n; i++ {
			close(to[i])
		}
	}()
	out := make(chan int, 10)
	go func() {
		defer close(out)
		for found := true; found; {
			found = false
			for i := 0; i < n; i++ {
				if v, ok := <-from[i]; ok {
					out <- v
					found = true
				}
			}
		}
	}()
	return out
}

func OkJoined(in chan int) chan int {
	out := make(chan int, 10)
	mid := make(chan int, 10)
	wg := &sync.WaitGroup{}
	wg.Add(1)
	go func() {
		defer wg.Done()
		for v := range mid {
			out <- v
		}
	}()
	go func() {
		for v := range in {
			mid <- v
		}
		close(mid)
		wg.Wait()
		close(out)
	}()
	return out
}

func BadNeverClosed(in chan int) chan int {
	out := make(chan int, 10)
	go func() {
		for v := range in {
			out <- v
		}
	}()
	return out
}

func BadEarlyBreak(in chan int) chan int {
	out := make(chan int, 10)
	go func() {
		defer close(out)
		for v := range in {
			if v < 0 {
				break
			}
			out <- v
		}
	}()
	return out
}

func BadWorkerInputsNotClosed(in chan int, n int) chan int {
	to := make([]chan int, n)
	for i := 0; i < n; i++ {
		to[i] = make(chan int, 10)
	}
	out := make(chan int, 10)
	wg := &sync.WaitGroup{}
	for i := 0; i < n; i++ {
		wg.Add(1)
		go func(in chan int) {
			defer wg.Done()
			for v := range in {
				out <- v
			}
		}(to[i])
	}
	go func() {
		k := 0
		for v := range in {
			to[k] <- v
			k = (k + 1) % n
		}
		wg.Wait()
		close(out)
	}()
	return out
}

func BadCloseNotJoined(in chan int) chan int {
	out := make(chan int, 10)
	mid := make(chan int, 10)
	go func() {
		for v := range mid {
			out <- v
		}
	}()
	go func() {
		for v := range in {
			mid <- v
		}
		close(mid)
		close(out)
	}()
	return out
}

func BadTwoConsumers(in chan int) chan int {
	out := make(chan int, 10)
	wg := &sync.WaitGroup{}
	wg.Add(2)
	go func() {
		defer wg.Done()
		for v := range in {
			out <- v
		}
	}()
	go func() {
		defer wg.Done()
		for v := range in {
			out <- v + 1
		}
	}()
	go func() {
		wg.Wait()
		close(out)
	}()
	return out
}
