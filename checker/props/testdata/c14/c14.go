// Package c14 holds positive and negative examples for the C14 polarity rule.
package c14

import "github.com/bmeg/grip/gripql"

type M map[string]interface{}

func cond(c *gripql.HasCondition, not bool) M {
	if not {
		return M{c.Key: M{"$not": M{"$eq": 1}}}
	}
	return M{c.Key: M{"$eq": 1}}
}

func OkHasTranslator(stmt *gripql.HasExpression, not bool) M {
	output := M{}
	switch stmt.Expression.(type) {
	case *gripql.HasExpression_Condition:
		output = cond(stmt.GetCondition(), not)
	case *gripql.HasExpression_And:
		res := []M{}
		for _, e := range stmt.GetAnd().Expressions {
			res = append(res, OkHasTranslator(e, not))
		}
		output = M{"$and": res}
		if not {
			output = M{"$or": res}
		}
	case *gripql.HasExpression_Or:
		res := []M{}
		for _, e := range stmt.GetOr().Expressions {
			res = append(res, OkHasTranslator(e, not))
		}
		if not {
			output = M{"$and": res}
		} else {
			output = M{"$or": res}
		}
	case *gripql.HasExpression_Not:
		output = OkHasTranslator(stmt.GetNot(), !not)
	}
	return output
}

// BadHasNotAlwaysTrue: not(not(e)) keeps the negation.
func BadHasNotAlwaysTrue(stmt *gripql.HasExpression, not bool) M {
	output := M{}
	switch stmt.Expression.(type) {
	case *gripql.HasExpression_Condition:
		output = cond(stmt.GetCondition(), not)
	case *gripql.HasExpression_And:
		res := []M{}
		for _, e := range stmt.GetAnd().Expressions {
			res = append(res, BadHasNotAlwaysTrue(e, not))
		}
		output = M{"$and": res}
		if not {
			output = M{"$or": res}
		}
	case *gripql.HasExpression_Or:
		res := []M{}
		for _, e := range stmt.GetOr().Expressions {
			res = append(res, BadHasNotAlwaysTrue(e, not))
		}
		output = M{"$or": res}
		if not {
			output = M{"$and": res}
		}
	case *gripql.HasExpression_Not:
		output = BadHasNotAlwaysTrue(stmt.GetNot(), true)
	}
	return output
}

// BadHasNoDeMorgan: the connective is not dualised under negation.
func BadHasNoDeMorgan(stmt *gripql.HasExpression, not bool) M {
	output := M{}
	switch stmt.Expression.(type) {
	case *gripql.HasExpression_Condition:
		output = cond(stmt.GetCondition(), not)
	case *gripql.HasExpression_And:
		res := []M{}
		for _, e := range stmt.GetAnd().Expressions {
			res = append(res, BadHasNoDeMorgan(e, not))
		}
		output = M{"$and": res}
	case *gripql.HasExpression_Or:
		res := []M{}
		for _, e := range stmt.GetOr().Expressions {
			res = append(res, BadHasNoDeMorgan(e, not))
		}
		output = M{"$or": res}
		if not {
			output = M{"$and": res}
		}
	case *gripql.HasExpression_Not:
		output = BadHasNoDeMorgan(stmt.GetNot(), !not)
	}
	return output
}
