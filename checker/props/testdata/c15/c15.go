// Package c15 holds tiny examples for the exhaustive-scan rule (W3).
package c15

import (
	"context"
	"fmt"
	"strings"
)

type src struct {
	prefix, label string
	rows          []string
}

type Row struct{ ID string }

type Tab struct {
	order  []string
	tables map[string]*src
	edges  map[string][]*src
}

func (t *Tab) find(s *src, id string) *Row {
	for _, r := range s.rows {
		if r == id {
			return &Row{ID: r}
		}
	}
	return nil
}

// OkLookup returns the element it found and otherwise tries the next table.
func (t *Tab) OkLookup(key string) *Row {
	for _, name := range t.order {
		s := t.tables[name]
		if !strings.HasPrefix(key, s.prefix) {
			continue
		}
		if r := t.find(s, key[len(s.prefix):]); r != nil {
			return r
		}
	}
	return nil
}

// OkLookupAddr returns the address of a fresh element.
func (t *Tab) OkLookupAddr(key string) *Row {
	for _, name := range t.order {
		s := t.tables[name]
		for _, r := range s.rows {
			if s.prefix+r == key {
				o := Row{ID: key}
				return &o
			}
		}
	}
	return nil
}

// BadLookupNil gives up at the first table whose prefix matches.
func (t *Tab) BadLookupNil(key string) *Row {
	for _, name := range t.order {
		s := t.tables[name]
		if strings.HasPrefix(key, s.prefix) {
			r := t.find(s, key[len(s.prefix):])
			if r == nil {
				return nil
			}
			return r
		}
	}
	return nil
}

// BadLookupMaybeNil returns whatever the first matching table gave.
func (t *Tab) BadLookupMaybeNil(key string) *Row {
	for _, name := range t.order {
		for _, s := range t.edges[name] {
			if strings.HasPrefix(key, s.prefix) {
				var out *Row
				for _, r := range s.rows {
					if s.prefix+r == key {
						out = &Row{ID: key}
					}
				}
				return out
			}
		}
	}
	return nil
}

// OkScanCancel leaves the scan only on cancellation.
func (t *Tab) OkScanCancel(ctx context.Context, labels map[string]bool) chan string {
	out := make(chan string, 10)
	go func() {
		defer close(out)
		for _, name := range t.order {
			s := t.tables[name]
			select {
			case <-ctx.Done():
				return
			default:
			}
			if ctx.Err() == context.Canceled {
				return
			}
			if labels[s.label] {
				for _, r := range s.rows {
					out <- s.prefix + r
				}
			}
		}
	}()
	return out
}

// BadScanBudget stops after as many tables as there are labels.
func (t *Tab) BadScanBudget(ctx context.Context, labels map[string]bool) chan string {
	out := make(chan string, 10)
	go func() {
		defer close(out)
		remaining := len(labels)
		for _, name := range t.order {
			s := t.tables[name]
			if labels[s.label] {
				for _, r := range s.rows {
					out <- s.prefix + r
				}
				remaining--
				if remaining == 0 {
					break
				}
			}
		}
	}()
	return out
}

// BadFirstPrefix forwards a request to the first table with a matching prefix only.
func (t *Tab) BadFirstPrefix(ids []string, put func(table, id string)) {
	for _, id := range ids {
		for _, name := range t.order {
			if strings.HasPrefix(id, name) {
				put(name, id)
				break
			}
		}
	}
}

// OkInnerBreak breaks out of an inner loop, not out of the scan.
func (t *Tab) OkInnerBreak(id string) int {
	n := 0
	for i := 0; i < len(t.order); i++ {
		s := t.tables[t.order[i]]
		for _, r := range s.rows {
			if r == id {
				n++
				break
			}
		}
		switch s.label {
		case "":
			break
		}
	}
	return n
}

// OkErrorAbort aborts the scan with an error.
func (t *Tab) OkErrorAbort() ([]string, error) {
	var out []string
	for _, name := range t.order {
		s, ok := t.tables[name]
		if !ok {
			return nil, fmt.Errorf("table %s missing", name)
		}
		out = append(out, s.rows...)
	}
	return out, nil
}

// BadBareReturn stops the listing at the first empty table.
func (t *Tab) BadBareReturn(out chan string) {
	for _, name := range t.order {
		s := t.tables[name]
		if len(s.rows) == 0 {
			return
		}
		for _, r := range s.rows {
			out <- r
		}
	}
}

// BadLiveGuard breaks while the context is still live.
func (t *Tab) BadLiveGuard(ctx context.Context, ids []string, put func(table, id string)) {
	for _, id := range ids {
		for _, name := range t.order {
			if strings.HasPrefix(id, name) && ctx.Err() != context.Canceled {
				put(name, id)
				break
			}
		}
	}
}

// OkErrNotNil leaves the scan once the context reports an error.
func (t *Tab) OkErrNotNil(ctx context.Context, put func(table string)) {
	for _, name := range t.order {
		if ctx.Err() != nil {
			break
		}
		if err := ctx.Err(); err == nil {
			put(name)
		}
	}
}
