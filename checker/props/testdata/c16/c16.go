// Package c16 holds tiny validators for the reject-table analysis.
package c16

import (
	"errors"
	"strings"
)

func GoodValidate(s string) error {
	if strings.ContainsAny(s, ".:") || strings.ContainsRune(s, 0) {
		return errors.New("bad")
	}
	return nil
}

func WeakValidate(s string) error {
	if strings.ContainsAny(s, `.:"'`) {
		return errors.New("bad")
	}
	return nil
}

type T struct {
	ID    string
	Label string
}

func (t *T) Validate() error {
	if t.ID == "" || t.Label == "" {
		return errors.New("blank")
	}
	if err := GoodValidate(t.ID); err != nil {
		return err
	}
	return WeakValidate(t.Label)
}

// ---- effectiveness of the containment test ----

func IndexGoodValidate(s string) error {
	if strings.IndexByte(s, 0) >= 0 {
		return errors.New("NUL")
	}
	return nil
}

// IndexOffByOneValidate accepts a leading NUL.
func IndexOffByOneValidate(s string) error {
	if strings.IndexByte(s, 0) > 0 {
		return errors.New("NUL")
	}
	return nil
}

func hasNULGood(s string) bool { return strings.IndexByte(s, 0) != -1 }
func hasNULBad(s string) bool  { return strings.IndexByte(s, 0) > 0 }

func HelperGoodValidate(s string) error {
	if hasNULGood(s) {
		return errors.New("NUL")
	}
	return nil
}

func HelperOffByOneValidate(s string) error {
	if hasNULBad(s) {
		return errors.New("NUL")
	}
	return nil
}

// InvertedValidate refuses the strings that do NOT contain the byte.
func InvertedValidate(s string) error {
	if !strings.ContainsRune(s, 0) {
		return errors.New("?")
	}
	return nil
}

// GuardedValidate only tests long strings.
func GuardedValidate(s string) error {
	if len(s) > 8 && strings.ContainsRune(s, 0) {
		return errors.New("NUL")
	}
	return nil
}

// VarIndexValidate keeps the index in a variable and misses position 0.
func VarIndexValidate(s string) error {
	if i := strings.IndexAny(s, ".:"); i > 0 {
		return errors.New("bad character")
	}
	return nil
}

// ---- K5 ----

type registry struct{ fields map[string]bool }

func (r *registry) RemoveField(f string) { delete(r.fields, f) }

func OkPrefixTerminated(r *registry, graph string) {
	p := graph + "."
	for f := range r.fields {
		if strings.HasPrefix(f, p) {
			r.RemoveField(f)
		}
	}
}

func BadPrefixBare(r *registry, graph string) {
	for f := range r.fields {
		if strings.HasPrefix(f, graph) {
			r.RemoveField(f)
		}
	}
}
