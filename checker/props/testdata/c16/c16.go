// Package c16 holds tiny validators for the reject-table analysis.
package c16

import (
	"errors"
	"strings"
)

func GoodValidate(s string) error {
	if strings.ContainsAny(s, ".:") || strings.ContainsRune(s, 0) {
		return errors.New("bad")
	}
	return nil
}

func WeakValidate(s string) error {
	if strings.ContainsAny(s, `.:"'`) {
		return errors.New("bad")
	}
	return nil
}

type T struct {
	ID    string
	Label string
}

func (t *T) Validate() error {
	if t.ID == "" || t.Label == "" {
		return errors.New("blank")
	}
	if err := GoodValidate(t.ID); err != nil {
		return err
	}
	return WeakValidate(t.Label)
}
