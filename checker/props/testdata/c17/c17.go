// Package c17 holds tiny examples for the guard-discipline rules.
package c17

import (
	"sync"
	"sync/atomic"
)

type Guarded struct {
	mu sync.RWMutex
	m  map[string]int
}

func NewGuarded() *Guarded { return &Guarded{m: map[string]int{}} }

func (g *Guarded) Put(k string, v int) {
	g.mu.Lock()
	defer g.mu.Unlock()
	g.m[k] = v
}

func (g *Guarded) Get(k string) int {
	g.mu.RLock()
	v := g.m[k]
	g.mu.RUnlock()
	return v
}

type Unguarded struct {
	mu sync.Mutex
	m  map[string]int
}

func NewUnguarded() *Unguarded { return &Unguarded{m: map[string]int{}} }

func (g *Unguarded) Put(k string, v int) {
	g.mu.Lock()
	g.m[k] = v
	g.mu.Unlock()
}

func (g *Unguarded) Get(k string) int {
	return g.m[k]
}

func OkMutex(in chan int) []int {
	var out []int
	m := &sync.Mutex{}
	wg := &sync.WaitGroup{}
	for i := 0; i < 2; i++ {
		wg.Add(1)
		go func() {
			defer wg.Done()
			for v := range in {
				m.Lock()
				out = append(out, v)
				m.Unlock()
			}
		}()
	}
	wg.Wait()
	return out
}

func OkAtomic(in chan int) int32 {
	var n int32
	wg := &sync.WaitGroup{}
	wg.Add(1)
	go func() {
		defer wg.Done()
		for range in {
			atomic.AddInt32(&n, 1)
		}
	}()
	wg.Wait()
	return atomic.LoadInt32(&n)
}

func OkBeforeGoAfterJoin(in chan int) int {
	total := 10
	wg := &sync.WaitGroup{}
	wg.Add(1)
	go func() {
		defer wg.Done()
		for v := range in {
			total += v
		}
	}()
	wg.Wait()
	return total
}

func BadTwoWriters(in chan int) []int {
	var out []int
	wg := &sync.WaitGroup{}
	for i := 0; i < 2; i++ {
		wg.Add(1)
		go func() {
			defer wg.Done()
			for v := range in {
				out = append(out, v)
			}
		}()
	}
	wg.Wait()
	return out
}

func BadFlagOutsideLock(in chan int, out chan int) {
	closed := false
	var queue []int
	m := &sync.Mutex{}
	go func() {
		for v := range in {
			m.Lock()
			queue = append(queue, v)
			m.Unlock()
		}
		closed = true
	}()
	go func() {
		defer close(out)
		for running := true; running; {
			m.Lock()
			if len(queue) > 0 {
				out <- queue[0]
				queue = queue[1:]
			} else if closed {
				running = false
			}
			m.Unlock()
		}
	}()
}

func BadCounterRace(in chan int) int {
	errs := 0
	wg := &sync.WaitGroup{}
	wg.Add(1)
	go func() {
		defer wg.Done()
		for range in {
			errs++
		}
	}()
	errs++
	wg.Wait()
	return errs
}

// OkHelperLocked: the goroutines append through a helper closure that takes the lock.
func OkHelperLocked(in chan int) []int {
	var out []int
	var m sync.Mutex
	add := func(v int) {
		m.Lock()
		out = append(out, v)
		m.Unlock()
	}
	var wg sync.WaitGroup
	wg.Add(2)
	go func() {
		defer wg.Done()
		for v := range in {
			add(v)
		}
	}()
	go func() {
		defer wg.Done()
		add(1)
	}()
	add(2)
	wg.Wait()
	return out
}

// BadHelperUnlocked: the same helper without the lock races with itself.
func BadHelperUnlocked(in chan int) []int {
	var out []int
	add := func(v int) {
		out = append(out, v)
	}
	var wg sync.WaitGroup
	wg.Add(2)
	go func() {
		defer wg.Done()
		for v := range in {
			add(v)
		}
	}()
	go func() {
		defer wg.Done()
		add(1)
	}()
	wg.Wait()
	return out
}

// ---- G3 / G4 ----

func OkLoopCopy(items []string, out chan string) {
	var wg sync.WaitGroup
	for _, it := range items {
		it := it
		wg.Add(1)
		go func() {
			defer wg.Done()
			out <- it
		}()
	}
	wg.Wait()
}

func OkLoopArg(items []string, out chan string) {
	var wg sync.WaitGroup
	for _, it := range items {
		wg.Add(1)
		go func(s string) {
			defer wg.Done()
			out <- s
		}(it)
	}
	wg.Wait()
}

func BadLoopCapture(items []string, out chan string) {
	var wg sync.WaitGroup
	for _, it := range items {
		wg.Add(1)
		go func() {
			defer wg.Done()
			out <- it
		}()
	}
	wg.Wait()
}

func OkHandOverFresh(in chan int, out chan []int) {
	batch := make([]int, 0, 10)
	for v := range in {
		if len(batch) >= 10 {
			out <- batch
			batch = make([]int, 0, 10)
		}
		batch = append(batch, v)
	}
	out <- batch
}

func BadHandOverReuse(in chan int, out chan []int) {
	batch := make([]int, 0, 10)
	for v := range in {
		if len(batch) >= 10 {
			out <- batch
			batch = batch[:0]
		}
		batch = append(batch, v)
	}
	out <- batch
}

// ---- G1 with aliases ----

// Aliased reads the map under the lock but iterates its alias after unlocking.
type Aliased struct {
	mu sync.RWMutex
	m  map[string]int
}

func NewAliased() *Aliased { return &Aliased{m: map[string]int{}} }

func (g *Aliased) Put(k string, v int) {
	g.mu.Lock()
	g.m[k] = v
	g.mu.Unlock()
}

func (g *Aliased) Sum() int {
	g.mu.RLock()
	m := g.m
	g.mu.RUnlock()
	n := 0
	for _, v := range m {
		n += v
	}
	return n
}

// BadChanVarReassigned: each goroutine reads the channel variable the loop reassigns.
func BadChanVarReassigned(names []string) {
	var cur chan int
	var wg sync.WaitGroup
	for range names {
		cur = make(chan int, 1)
		wg.Add(1)
		go func() {
			defer wg.Done()
			for range cur {
			}
		}()
		cur <- 1
		close(cur)
	}
	wg.Wait()
}

// OkChanArgPassed: the channel is handed to the goroutine by value.
func OkChanArgPassed(names []string) {
	var cur chan int
	var wg sync.WaitGroup
	for range names {
		cur = make(chan int, 1)
		wg.Add(1)
		go func(c chan int) {
			defer wg.Done()
			for range c {
			}
		}(cur)
		cur <- 1
		close(cur)
	}
	wg.Wait()
}

// BadAliasTruncate hands the pending slice out of the lock by reference and truncates in place.
func BadAliasTruncate(in chan int, out chan int) {
	var m sync.Mutex
	queue := make([]int, 0, 16)
	closed := false
	go func() {
		for v := range in {
			m.Lock()
			queue = append(queue, v)
			m.Unlock()
		}
		m.Lock()
		closed = true
		m.Unlock()
	}()
	go func() {
		defer close(out)
		for running := true; running; {
			m.Lock()
			pending := queue
			queue = queue[:0]
			if len(pending) == 0 && closed {
				running = false
			}
			m.Unlock()
			for _, v := range pending {
				out <- v
			}
		}
	}()
}

// OkAdvance takes one element and advances the slice start.
func OkAdvance(in chan int, out chan int) {
	var m sync.Mutex
	queue := make([]int, 0, 16)
	closed := false
	go func() {
		for v := range in {
			m.Lock()
			queue = append(queue, v)
			m.Unlock()
		}
		m.Lock()
		closed = true
		m.Unlock()
	}()
	go func() {
		defer close(out)
		for running := true; running; {
			v, have := 0, false
			m.Lock()
			if len(queue) > 0 {
				v, have = queue[0], true
				queue = queue[1:]
			} else if closed {
				running = false
			}
			m.Unlock()
			if have {
				out <- v
			}
		}
	}()
}
