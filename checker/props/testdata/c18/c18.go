// Package c18 holds tiny positive and negative examples for the bulk-loading rules.
package c18

import "sync"

func load(name string, ch chan int) {}

func OkPassedByValue(names []string) {
	var ch chan int
	wg := &sync.WaitGroup{}
	for _, n := range names {
		ch = make(chan int, 1)
		wg.Add(1)
		go func(name string, c chan int) {
			load(name, c)
			wg.Done()
		}(n, ch)
	}
	wg.Wait()
}

func BadCapturedStream(names []string) {
	ch := make(chan int, 1)
	wg := &sync.WaitGroup{}
	for i := 0; i < len(names); i++ {
		ch = make(chan int, 1)
		wg.Add(1)
		go func() {
			load("x", ch)
			wg.Done()
		}()
	}
	wg.Wait()
}

func OkFlush(in <-chan int, out chan []int, size int) {
	batch := make([]int, 0, size)
	for v := range in {
		if len(batch) >= size {
			out <- batch
			batch = make([]int, 0, size)
		}
		batch = append(batch, v)
	}
	out <- batch
	close(out)
}

func BadNoFlush(in <-chan int, out chan []int, size int) {
	batch := make([]int, 0, size)
	for v := range in {
		if len(batch) >= size {
			out <- batch
			batch = make([]int, 0, size)
		}
		batch = append(batch, v)
	}
	close(out)
}
