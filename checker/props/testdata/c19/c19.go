// Package c19 holds tiny positive and negative examples for the aggregation rules.
package c19

import "math"

func OkSizeLimit(terms map[string]int, size int) (out []string) {
	count := 0
	for t := range terms {
		if size <= 0 || count < size {
			out = append(out, t)
			count++
		}
	}
	return
}

func BadSizeNeverAdvanced(terms map[string]int, size int) (out []string) {
	count := 0
	for t := range terms {
		if size <= 0 || count < size {
			out = append(out, t)
		}
	}
	return
}

func OkHist(kind int, values []float64, i, min, max float64) (out []float64) {
	switch kind {
	case 1:
		for bucket := math.Floor(min/i) * i; bucket <= max; bucket += i {
			var count float64
			for _, v := range values {
				if v >= bucket && v < (bucket+i) {
					count++
				}
			}
			out = append(out, count)
		}
	}
	return
}

func OkHistRewritten(kind int, values []float64, i, min, max float64) (out []float64) {
	switch kind {
	case 1:
		for bucket := i * math.Floor(min/i); max >= bucket; bucket += i {
			var count float64
			for _, v := range values {
				if !(v < bucket || bucket+i <= v) {
					count++
				}
			}
			out = append(out, count)
		}
	}
	return
}

func BadHistClosedInterval(kind int, values []float64, i, min, max float64) (out []float64) {
	switch kind {
	case 1:
		for bucket := math.Floor(min/i) * i; bucket <= max; bucket += i {
			var count float64
			for _, v := range values {
				if v >= bucket && v <= (bucket+i) {
					count++
				}
			}
			out = append(out, count)
		}
	}
	return
}

func BadHistDropsMax(kind int, values []float64, i, min, max float64) (out []float64) {
	switch kind {
	case 1:
		for bucket := math.Floor(min/i) * i; bucket < max; bucket += i {
			var count float64
			for _, v := range values {
				if v >= bucket && v < (bucket+i) {
					count++
				}
			}
			out = append(out, count)
		}
	}
	return
}

func BadHistUnaligned(kind int, values []float64, i, min, max float64) (out []float64) {
	switch kind {
	case 1:
		for bucket := min; bucket <= max; bucket += i {
			var count float64
			for _, v := range values {
				if v >= bucket && v < (bucket+i) {
					count++
				}
			}
			out = append(out, count)
		}
	}
	return
}
