// Package c20 holds tiny SQL sinks for the taint rule.
package c20

import (
	"fmt"
	"strings"

	"github.com/jmoiron/sqlx"
)

type G struct {
	db    *sqlx.DB
	table string
}

type req struct{ ID string }

func (g *G) OkConstant() {
	g.db.Exec("DELETE FROM t WHERE n = 1")
}

func (g *G) OkBound(id string) {
	g.db.Exec("DELETE FROM t WHERE gid = $1", id)
}

func (g *G) OkNumber(n int) {
	g.db.Queryx(fmt.Sprintf("SELECT * FROM t LIMIT %d", n))
}

func (g *G) BadQuoted(id string) {
	q := fmt.Sprintf("SELECT * FROM t WHERE gid='%s'", id)
	g.db.Queryx(q)
}

func (g *G) BadReassigned(id string) {
	stmt := "DELETE FROM a"
	g.db.Exec(stmt)
	stmt = fmt.Sprintf(`DELETE FROM b WHERE "from"='%s'`, id)
	g.db.Exec(stmt)
}

func (g *G) BadJoinedList(reqs []req) {
	ids := make([]string, 0, len(reqs))
	for i := range reqs {
		ids = append(ids, fmt.Sprintf("'%s'", reqs[i].ID))
	}
	q := fmt.Sprintf("SELECT * FROM t WHERE gid IN (%s)", strings.Join(ids, ", "))
	g.db.Queryx(q)
}

func where(id string) string { return "gid = '" + id + "'" }

func (g *G) BadThroughHelper(id string) {
	g.db.Queryx("SELECT * FROM t WHERE " + where(id))
}

func (g *G) BadBranch(id string, load bool) {
	q := "SELECT gid FROM t"
	if load {
		q = fmt.Sprintf("SELECT * FROM t WHERE gid='%s'", id)
	}
	g.db.QueryRowx(q)
}

func (g *G) BadInGoroutine(ids chan string) {
	go func() {
		for id := range ids {
			g.db.Queryx(fmt.Sprintf("SELECT * FROM t WHERE gid='%s'", id))
		}
	}()
}

func (g *G) BadIndexedSliceFromChannel(reqs chan req) {
	var batch []req
	for r := range reqs {
		batch = append(batch, r)
	}
	ids := make([]string, len(batch))
	for i := range batch {
		ids[i] = strings.SplitN(batch[i].ID, ":", 2)[1]
	}
	g.db.Queryx(fmt.Sprintf("SELECT * FROM t WHERE id IN (%s)", strings.Join(ids, ", ")))
}

func (g *G) BadMapKeyTable(reqs chan req) {
	m := map[string][]string{}
	for r := range reqs {
		p := strings.SplitN(r.ID, ":", 2)
		m[p[0]] = append(m[p[0]], p[1])
	}
	for table := range m {
		g.db.Queryx(fmt.Sprintf("SELECT * FROM %s", table))
	}
}
