// Package chans holds tiny producers for the channel rules.
package chans

func OkGoroutine(n int) chan int {
	out := make(chan int, 10)
	go func() {
		defer close(out)
		for i := 0; i < n; i++ {
			out <- i
		}
	}()
	return out
}

func OkCloseAtEnd(n int) chan int {
	out := make(chan int, 10)
	go func() {
		for i := 0; i < n; i++ {
			out <- i
		}
		close(out)
	}()
	return out
}

func OkSingleBufferedSend() chan int {
	out := make(chan int, 1)
	out <- 1
	close(out)
	return out
}

func BadSynchronous(n int) chan int {
	out := make(chan int, 100)
	defer close(out)
	for i := 0; i < n; i++ {
		out <- i
	}
	return out
}

func BadNeverClosed(n int) chan int {
	out := make(chan int, 10)
	go func() {
		for i := 0; i < n; i++ {
			out <- i
		}
	}()
	return out
}

func BadEarlyReturnNoClose(n int) chan int {
	out := make(chan int, 10)
	go func() {
		for i := 0; i < n; i++ {
			if i == 7 {
				return
			}
			out <- i
		}
		close(out)
	}()
	return out
}

func produce(n int, out chan int) {
	defer close(out)
	for i := 0; i < n; i++ {
		out <- i
	}
}

func produceNoClose(n int, out chan int) {
	for i := 0; i < n; i++ {
		out <- i
	}
}

func OkNamedGoroutine(n int) chan int {
	out := make(chan int, 10)
	if n < 0 {
		close(out)
		return out
	}
	go produce(n, out)
	return out
}

func BadNamedGoroutineNoClose(n int) chan int {
	out := make(chan int, 10)
	go produceNoClose(n, out)
	return out
}
