// Package keys holds tiny positive and negative examples for the key-codec rules.
package keys

import (
	"bytes"

	"github.com/bmeg/grip/kvi"
)

var aPrefix = []byte("a")
var bPrefix = []byte("b")

func AKey(graph, id string) []byte {
	return bytes.Join([][]byte{aPrefix, []byte(graph), []byte(id)}, []byte{0})
}

func AKeyPrefix(graph string) []byte {
	return bytes.Join([][]byte{aPrefix, []byte(graph), {}}, []byte{0})
}

func AKeyParse(key []byte) (string, string) {
	tmp := bytes.Split(key, []byte{0})
	return string(tmp[1]), string(tmp[2])
}

// BKey stores dst before src; BKeyParse must undo that.
func BKey(graph, src, dst string) []byte {
	return bytes.Join([][]byte{bPrefix, []byte(graph), []byte(dst), []byte(src)}, []byte{0})
}

// BKeyParse is wrong on purpose: it returns the components in stored order.
func BKeyParse(key []byte) (string, string, string) {
	tmp := bytes.Split(key, []byte{0})
	graph := tmp[1]
	src := tmp[2]
	dst := tmp[3]
	return string(graph), string(src), string(dst)
}

// BKeyPrefix is wrong on purpose: src and dst swapped relative to BKey.
func BKeyPrefix(graph, src, dst string) []byte {
	return bytes.Join([][]byte{bPrefix, []byte(graph), []byte(src), []byte(dst), {}}, []byte{0})
}

func OkOps(kv kvi.KVInterface, g string) {
	kv.Set(AKey(g, "1"), nil)
	kv.Delete(AKey(g, "1"))
	kv.DeletePrefix(AKeyPrefix(g))
	p := AKeyPrefix(g)
	kv.View(func(it kvi.KVIterator) error {
		for it.Seek(p); it.Valid() && bytes.HasPrefix(it.Key(), p); it.Next() {
			k := it.Key()
			kv.Delete(k)
		}
		return nil
	})
}

func BadDeleteWithPrefix(kv kvi.KVInterface, g string) {
	k := AKeyPrefix(g)
	kv.Delete(k)
}

func BadHasPrefixWithFullKey(kv kvi.KVInterface, g string) {
	full := AKey(g, "1")
	kv.View(func(it kvi.KVIterator) error {
		for it.Seek(full); it.Valid() && bytes.HasPrefix(it.Key(), full); it.Next() {
		}
		return nil
	})
}
