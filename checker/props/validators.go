package props

import (
	"fmt"
	"go/ast"
	"go/constant"
	"go/token"
	"go/types"
)

// A containment test only protects a key if a match makes the validator
// refuse.  matchEffective evaluates, in three-valued logic, the condition the
// test feeds: with the test "matching" (Contains* = true; Index* = 0 and = 2,
// the first and a later position) the enclosing `if` must be taken and its
// body must end by returning a non-nil error (or true, in a Boolean helper);
// a `return <test>` of a Boolean helper must evaluate to true.

type tri3 int

const (
	t3Unknown tri3 = iota
	t3True
	t3False
)

// IneffectiveTests collects, per validator function, the tests that were found
// but do not reject every match (reported with the unmet obligation).
var IneffectiveTests = map[*types.Func][]string{}

type t3env struct {
	info    *types.Info
	carrier ast.Expr     // the call expression itself
	cvar    types.Object // or the variable it was assigned to
	isIndex bool
	boolVal bool
	numVal  float64
}

func (e *t3env) isCarrier(x ast.Expr) bool {
	x = ast.Unparen(x)
	if x == e.carrier {
		return true
	}
	if id, ok := x.(*ast.Ident); ok && e.cvar != nil && e.info.Uses[id] == e.cvar {
		return true
	}
	return false
}

func (e *t3env) num(x ast.Expr) (float64, bool) {
	x = ast.Unparen(x)
	if e.isIndex && e.isCarrier(x) {
		return e.numVal, true
	}
	if tv, ok := e.info.Types[x]; ok && tv.Value != nil && (tv.Value.Kind() == constant.Int || tv.Value.Kind() == constant.Float) {
		f, _ := constant.Float64Val(constant.ToFloat(tv.Value))
		return f, true
	}
	if u, ok := x.(*ast.UnaryExpr); ok && u.Op == token.SUB {
		if v, ok := e.num(u.X); ok {
			return -v, true
		}
	}
	return 0, false
}

func (e *t3env) eval(x ast.Expr) tri3 {
	x = ast.Unparen(x)
	if !e.isIndex && e.isCarrier(x) {
		if e.boolVal {
			return t3True
		}
		return t3False
	}
	switch y := x.(type) {
	case *ast.UnaryExpr:
		if y.Op == token.NOT {
			switch e.eval(y.X) {
			case t3True:
				return t3False
			case t3False:
				return t3True
			}
		}
	case *ast.BinaryExpr:
		switch y.Op {
		case token.LAND:
			a, b := e.eval(y.X), e.eval(y.Y)
			if a == t3False || b == t3False {
				return t3False
			}
			if a == t3True && b == t3True {
				return t3True
			}
		case token.LOR:
			a, b := e.eval(y.X), e.eval(y.Y)
			if a == t3True || b == t3True {
				return t3True
			}
			if a == t3False && b == t3False {
				return t3False
			}
		case token.EQL, token.NEQ, token.LSS, token.LEQ, token.GTR, token.GEQ:
			a, ok1 := e.num(y.X)
			b, ok2 := e.num(y.Y)
			if ok1 && ok2 {
				var r bool
				switch y.Op {
				case token.EQL:
					r = a == b
				case token.NEQ:
					r = a != b
				case token.LSS:
					r = a < b
				case token.LEQ:
					r = a <= b
				case token.GTR:
					r = a > b
				case token.GEQ:
					r = a >= b
				}
				if r {
					return t3True
				}
				return t3False
			}
		}
	}
	if tv, ok := e.info.Types[x]; ok && tv.Value != nil && tv.Value.Kind() == constant.Bool {
		if constant.BoolVal(tv.Value) {
			return t3True
		}
		return t3False
	}
	return t3Unknown
}

// refusing: the block ends by returning a non-nil error / true.
func refusingBlock(info *types.Info, b *ast.BlockStmt, boolFn bool) bool {
	if b == nil || len(b.List) == 0 {
		return false
	}
	r, ok := b.List[len(b.List)-1].(*ast.ReturnStmt)
	if !ok || len(r.Results) == 0 {
		return false
	}
	last := ast.Unparen(r.Results[len(r.Results)-1])
	if boolFn {
		tv, ok := info.Types[last]
		return ok && tv.Value != nil && tv.Value.Kind() == constant.Bool && constant.BoolVal(tv.Value)
	}
	if id, ok := last.(*ast.Ident); ok && id.Name == "nil" {
		return false
	}
	return true
}

// matchEffective reports whether a match of the containment test `call`
// inside decl always makes decl refuse.
func matchEffective(info *types.Info, decl *ast.FuncDecl, call *ast.CallExpr, isIndex bool) (bool, string) {
	boolFn := false
	if decl.Type.Results != nil && len(decl.Type.Results.List) == 1 {
		if t := info.TypeOf(decl.Type.Results.List[0].Type); t != nil {
			if b, ok := t.Underlying().(*types.Basic); ok && b.Kind() == types.Bool {
				boolFn = true
			}
		}
	}
	// path from the body to the call
	var path []ast.Node
	var stack []ast.Node
	ast.Inspect(decl.Body, func(n ast.Node) bool {
		if n == nil {
			stack = stack[:len(stack)-1]
			return true
		}
		stack = append(stack, n)
		if n == ast.Node(call) && path == nil {
			path = append([]ast.Node{}, stack...)
		}
		return true
	})
	if path == nil {
		return false, "test not found in the function body"
	}
	env := &t3env{info: info, carrier: call, isIndex: isIndex}
	// assigned to a variable first?
	var consumer ast.Node // IfStmt or ReturnStmt that consumes the test
	for i := len(path) - 2; i >= 0 && consumer == nil; i-- {
		switch x := path[i].(type) {
		case *ast.AssignStmt:
			if len(x.Lhs) == 1 && len(x.Rhs) == 1 && ast.Unparen(x.Rhs[0]) == ast.Expr(call) {
				env.cvar = defOrUse(info, x.Lhs[0])
				// the statement that holds this assignment: an if's Init, or a plain statement followed by uses
				if i > 0 {
					if is, ok := path[i-1].(*ast.IfStmt); ok && is.Init == ast.Stmt(x) {
						consumer = is
					}
				}
				if consumer == nil && env.cvar != nil {
					// first if/return after the assignment that mentions the variable
					ast.Inspect(decl.Body, func(n ast.Node) bool {
						if consumer != nil || n == nil || n.Pos() < x.End() {
							return consumer == nil
						}
						var cond ast.Node
						switch y := n.(type) {
						case *ast.IfStmt:
							cond = y.Cond
						case *ast.ReturnStmt:
							cond = y
						default:
							return true
						}
						uses := false
						ast.Inspect(cond, func(z ast.Node) bool {
							if id, ok := z.(*ast.Ident); ok && info.Uses[id] == env.cvar {
								uses = true
							}
							return true
						})
						if uses {
							consumer = n
						}
						return true
					})
				}
			}
		case *ast.IfStmt:
			inCond := false
			ast.Inspect(x.Cond, func(z ast.Node) bool {
				if z == ast.Node(call) {
					inCond = true
				}
				return true
			})
			if inCond {
				consumer = x
			}
		case *ast.ReturnStmt:
			consumer = x
		}
	}
	if consumer == nil {
		return false, "the result of the test does not reach an if or a return"
	}
	scenarios := []func(){func() { env.boolVal = true }}
	names := []string{"a match"}
	if isIndex {
		scenarios = []func(){func() { env.numVal = 0 }, func() { env.numVal = 2 }}
		names = []string{"a match at position 0", "a match at a later position"}
	}
	for i, set := range scenarios {
		set()
		switch c := consumer.(type) {
		case *ast.IfStmt:
			if env.eval(c.Cond) != t3True {
				return false, fmt.Sprintf("with %s the condition %s is not certainly true, so the refusing branch is not taken", names[i], types.ExprString(c.Cond))
			}
			if !refusingBlock(info, c.Body, boolFn) {
				return false, "the branch taken on a match does not end by refusing (returning an error)"
			}
		case *ast.ReturnStmt:
			if !boolFn || len(c.Results) != 1 {
				return false, "the test is returned, not acted upon"
			}
			if env.eval(c.Results[0]) != t3True {
				return false, fmt.Sprintf("with %s the returned expression %s is not certainly true", names[i], types.ExprString(c.Results[0]))
			}
		}
	}
	return true, ""
}
