#!/usr/bin/env python3
"""Confirms sub-agent mutations in a scratch worktree of /repo HEAD and files the confirmed ones
under /verif/seeded/<id>/.  usage: confirm_mut.py <out-dir-of-agent>/<k> <seed-id> [--no-suite]

Checks: patch applies to the current /repo HEAD; packages touched still build; the existing
suite gives the baseline result; the demo fails with the patch and passes without it."""
import json, os, re, shutil, subprocess, sys, time

ENV = dict(os.environ, GOFLAGS="-mod=mod", GOPROXY="off", GOSUMDB="off", GOTOOLCHAIN="local")
ENV.pop("GOWORK", None)
KNOWN_FAIL = {"TestMatch1", "TestGraphToJSON", "TestSelectFields", "TestBatchGraphValidation", "TestBasicAuthFail"}
FLAKY_PKGS = {"github.com/bmeg/grip/test/server", "github.com/bmeg/grip/kvgraph/test", "github.com/bmeg/grip/endpoints/graphql/test"}


def sh(cmd, cwd=None, timeout=1500):
    try:
        p = subprocess.run(cmd, shell=True, cwd=cwd, env=ENV, capture_output=True, text=True, errors="replace", timeout=timeout)
        return p.returncode, p.stdout + p.stderr
    except subprocess.TimeoutExpired as e:
        return 124, "TIMEOUT\n" + ((e.stdout or b"").decode(errors="replace") if isinstance(e.stdout, bytes) else (e.stdout or ""))


def suite(wt):
    """returns set of failing test names (package::test), ignoring the known failures"""
    rc, out = sh("go test -mod=mod -vet=off -count=1 -timeout 25m -json ./... 2>/dev/null", cwd=wt, timeout=1700)
    fails = set()
    for ln in out.splitlines():
        try:
            ev = json.loads(ln)
        except Exception:
            continue
        if ev.get("Action") == "fail" and ev.get("Test"):
            t = ev["Test"].split("/")[0]
            if t not in KNOWN_FAIL:
                fails.add(ev["Package"] + "::" + ev["Test"])
    return fails


def main():
    src, sid = sys.argv[1].rstrip("/"), sys.argv[2]
    run_suite = "--no-suite" not in sys.argv
    meta = json.load(open(os.path.join(src, "meta.json")))
    wt = "/tmp/mutv/" + sid
    sh("git -C /repo worktree remove --force " + wt)
    shutil.rmtree(wt, ignore_errors=True)
    os.makedirs("/tmp/mutv", exist_ok=True)
    rc, out = sh(f"git -C /repo worktree add --detach {wt} HEAD")
    res = {"seed": sid, "property": meta.get("property"), "title": meta.get("title"), "at": time.strftime("%F %T"),
           "repo_head": sh("git -C /repo rev-parse --short HEAD")[1].strip()}
    try:
        patch = os.path.join(src, "patch.diff")
        rc, out = sh(f"git apply {patch}", cwd=wt)
        if rc != 0:
            rc, out = sh(f"git apply --3way {patch}", cwd=wt)
            sh("git reset -q", cwd=wt)
        res["applies"] = rc == 0
        if rc != 0:
            res["apply_error"] = out[-500:]
            return res
        rc, diff = sh("git diff", cwd=wt)
        res["rebased_patch"] = diff
        changed = sh("git diff --name-only", cwd=wt)[1].split()
        pkgs = sorted({"./" + os.path.dirname(f) for f in changed if f.endswith(".go")})
        rc, out = sh("go build " + " ".join(pkgs) + " && go vet -vettool=/bin/true ./... >/dev/null 2>&1; go build ./server/ ./cmd/... . 2>&1 | tail -5", cwd=wt)
        res["builds"] = rc == 0
        if rc != 0:
            res["build_error"] = out[-800:]
            return res
        # demo with patch
        copied = []
        for f, dst in (meta.get("demo_copy") or {}).items():
            d = os.path.join(wt, dst)
            os.makedirs(d, exist_ok=True)
            s = os.path.join(src, "demo", f)
            if os.path.isdir(s):
                shutil.copytree(s, os.path.join(d, os.path.basename(f)), dirs_exist_ok=True)
            else:
                shutil.copy(s, d)
            copied.append(os.path.join(dst, os.path.basename(f)))
        cmd = re.sub(r"cd\s+(/tmp/mut/\w+|<repo>)", "cd " + wt, meta["demo_cmd"])
        if "timeout" not in cmd:
            cmd = cmd.replace("go test ", "go test -timeout 300s ", 1)
        rc1, out1 = sh(cmd, cwd=wt, timeout=900)
        res["demo_cmd"] = cmd
        res["demo_with_patch_rc"] = rc1
        res["demo_with_patch_tail"] = out1[-1200:]
        if run_suite:
            # existing suite with the patch (demo files removed first)
            for c in copied:
                p = os.path.join(wt, c)
                (shutil.rmtree if os.path.isdir(p) else os.remove)(p)
            fails = suite(wt)
            if fails and all(f.split("::")[0] in FLAKY_PKGS for f in fails):
                fails2 = suite(wt)
                fails = fails & fails2
            res["suite_new_failures"] = sorted(fails)
            for f, dst in (meta.get("demo_copy") or {}).items():
                s = os.path.join(src, "demo", f)
                d = os.path.join(wt, dst)
                if os.path.isdir(s):
                    shutil.copytree(s, os.path.join(d, os.path.basename(f)), dirs_exist_ok=True)
                else:
                    shutil.copy(s, d)
        # demo without patch
        sh("git checkout -- .", cwd=wt)
        rc0, out0 = sh(cmd, cwd=wt, timeout=900)
        res["demo_without_patch_rc"] = rc0
        res["demo_without_patch_tail"] = out0[-600:]
        res["confirmed"] = bool(rc1 != 0 and rc0 == 0 and (not run_suite or not res["suite_new_failures"]))
        return res
    finally:
        sh("git -C /repo worktree remove --force " + wt)
        shutil.rmtree(wt, ignore_errors=True)
        out_dir = "/verif/seeded/" + sid
        if res.get("confirmed"):
            os.makedirs(out_dir, exist_ok=True)
            open(os.path.join(out_dir, "patch.diff"), "w").write(res.pop("rebased_patch"))
            if os.path.isdir(os.path.join(out_dir, "demo")):
                shutil.rmtree(os.path.join(out_dir, "demo"))
            shutil.copytree(os.path.join(src, "demo"), os.path.join(out_dir, "demo"))
            m = dict(meta)
            m["seed_id"] = sid
            m["confirmation"] = {k: v for k, v in res.items() if k not in ("rebased_patch",)}
            m["demo_cmd"] = res["demo_cmd"].replace("/tmp/mutv/" + sid, "<worktree>")
            json.dump(m, open(os.path.join(out_dir, "meta.json"), "w"), indent=1)
        res.pop("rebased_patch", None)
        os.makedirs("/tmp/mutv/results", exist_ok=True)
        json.dump(res, open(f"/tmp/mutv/results/{sid}.json", "w"), indent=1)
        print(json.dumps({k: res.get(k) for k in ("seed", "applies", "builds", "demo_with_patch_rc", "demo_without_patch_rc", "suite_new_failures", "confirmed")}))


if __name__ == "__main__":
    main()
