#!/usr/bin/env python3
"""Regenerates /verif/MANIFEST.json from the table below (kept next to the checks so the
manifest, the drivers registered in the binary and the not_applicable list stay in sync)."""
import json, os, subprocess, sys

ROOT = os.path.dirname(os.path.dirname(os.path.abspath(__file__)))
ENV = "GOFLAGS=-mod=mod GOPROXY=off GOSUMDB=off GOTOOLCHAIN=local"

# id -> (technique, level text, level note, design ref)
CLAIMS = {
 "C11": ("JSON-visibility closure over go/types struct graphs, per-item loop shape rules (forward-once, write/count pairing), path-component and file-name agreement, loop index-coverage evaluation, must-precede dataflow over go/cfg",
         "Decides persistence structure for ALL traversals and job sequences, not row equality: (J1) every field of the stored row types (gdbi.BaseTraveler and all repository types reachable from it) and of the job record is exported, not excluded from JSON and of a type encoding/json can read back; (J2) Spool's writer loop writes each row once and advances Status.Count by one, unconditionally; (J3) Spool, Stream and Delete build job paths from the base directory and sanitize.Name(<graph argument>), the files Stream and the constructor read are files Spool writes, Delete removes registry entry and directory; (J4) JobMatch's comparison loop visits every position of the job's step list and Search reports a job only under the graph test and JobMatch; (J5) the job record is written and read as one type and serialised only once COMPLETE; (J6) the serializer pools and the resume feed forward every received row exactly once, unconditionally. Does not decide multiset equality with a direct run, JSON fidelity of values, or hash collisions of statements.",
         "Trusted: go/types, go/cfg; encoding/json semantics (exported fields, tags).",
         "DESIGN.md §4 C11"),
 "C08": ("dispatch totality, must-dataflow of checked casts over go/cfg, ordering-domain truth tables of the returned comparisons, abstract execution of the Boolean combinator arms over all truth assignments (go/types AST)",
         "Decides structural necessary conditions for ALL element values and condition arguments, for the core evaluator: (B1) every gripql.Condition and every HasExpression kind has an arm; (B2) in every ordering arm each numeric operand of the returned comparison comes from a cast.ToFloat64E whose error was tested on that path and no error-swallowing cast is used (non-numbers never match, never raise); (B3) for gt, gte, lt, lte, inside, outside, between the returned comparison equals the documented predicate on every ordering of (value, bound[s]), with operand roles taken from the cast arguments; (B4) the And/Or/Not arms return all/any/negation on every truth assignment of up to three sub-expressions (abstract execution of the arm's source), which gives De Morgan, double negation and reordering. Does not decide reflect.DeepEqual semantics behind eq/neq/within/without/contains, what cast accepts as a number, or missing-field handling.",
         "Trusted: go/types, go/cfg; documented predicates transcribed from gripql/has_operators.go and the query documentation (table c08documented).",
         "DESIGN.md §4 C08"),
 "C14": ("transfer-table extraction by path exploration of each compile arm's go/cfg graph specialised on (input type, mark type), compared between the two compilers on the reachable typing states; Boolean evaluation of polarity arguments; ordering-domain truth tables for range lowering (go/types AST)",
         "Decides for ALL statement sequences over the steps the Mongo compiler supports: (Y1) the per-statement typing transfer (input type, mark type) → {reject} ∪ {accept→type [+mark update]} of mongo.Compiler.Compile equals that of core.StatementProcessor (core.Validate folded in where it is run) on every typing state reachable under the core transfers — both compilers are folds of these transfers, so they accept the same traversals and assign the same result and mark types; open guards are compared by presence only. For ALL has-expressions: (Y2) the Not arm complements the polarity, And/Or/Condition arms pass it on, And/Or dualise under negation, conditions are wrapped in $not exactly under negation; (Y3) every gripql.Condition has a translation, gt/gte/lt/lte map to the operator with the core evaluator's comparison, and inside/outside/between lower to comparisons with the same truth table as the core predicate on every ordering of (value, lower, upper). Does not decide MongoDB's semantics on missing/array/differently-typed fields.",
         "Trusted: go/types, go/cfg; the dictionary of Mongo operator meanings on scalars.",
         "DESIGN.md §4 C14"),
 "C10": ("abstract interpretation over go/ssa (domain nil/non-nil/true/false) of HasKey/Get under the library's found/absent outcomes; must-assign dataflow, commit-after-error and iterator-positioning typestate over go/cfg; registration/link check (go/types)",
         "Decides sibling agreement of the four adapters structurally, for ALL keys and operation sequences: (S1) every HasKey/Get of every store, transaction and iterator type returns true/false (nil/non-nil error) exactly on the library's found/absent outcome and calls no method on a nil interface value in either; (S2) iterators whose Valid() reads cached fields assign them on every path of Seek, SeekReverse and Next; (S3) no library Commit/Flush is reached after the Update/BulkWrite callback failed, none is deferred unconditionally, (S3b) transaction objects do not write straight to the store handle; (S4) library iterators are positioned before Valid/Key/Value/Item; (S5) driver names the server selects are registered by packages it links; (S6) block-wise prefix deletes repeat whenever a block came back full; (S7) Seek/SeekReverse hand the caller's key itself to the library; (S8) a byte slice handed out by a library iterator that reuses its buffers (pebble, goleveldb, badger) is copied before an adapter keeps it in a field or a collected slice. Does not decide key order, seek landing positions, prefix-delete completeness, or cross-driver equality of traversal results.",
         "Trusted: outcome tables of the store libraries' lookup calls, the rollback behaviour of bolt/badger transaction wrappers and the buffer-validity contracts of the four libraries (props/c10.go, c10b.go); go/ssa, go/cfg.",
         "DESIGN.md §4 C10"),
 "C01": ("ownership analysis of the traveler constructors, private-copy classification of in-place writes, dispatch totality over the statement oneof, ordering-domain evaluation of limit/skip/range (go/types AST)",
         "Decides structural necessary conditions for ALL programs and graphs: (O1) AddCurrent/AddMark/Copy never store through their receiver and give the new traveler its own Marks map and Path slice (siblings derived from one traveler do not alias); (O2) the steps of the C01 alphabet write only into travelers whose current element and marks are private deep copies; (O3) every GraphStatement oneof member has an arm in the compiler and in the step inspector, each compile arm returns a processor or an error, every result type has an arm in Convert; (O4) limit/skip/range forward the received traveler unchanged, count each non-signal row once, and forward exactly when the documented predicate holds on every ordering of (row index, bounds); (O5) a boolean that summarises a loop over keys/labels/values and is read after it is never overwritten on every iteration regardless of its previous value. Does not decide row-multiset equality of the moving, filtering or projecting steps.",
         "Trusted: go/types; the ordering-domain evaluator interprets comparison expressions only.",
         "DESIGN.md §4 C01"),
 "C02": ("VTA call-graph reachability (go/ssa) from each statement kind's processor to the property reader, compared with the arms of the load-elision analysis; taint of step-id strings into ordering comparisons; oneof-member coverage computed from the generated types (go/types AST)",
         "Decides a structural necessary condition for ALL traversals: (L1) every statement kind whose processor can read element properties has an arm in PipelineStepOutputs that records the step as needed (otherwise its input is compiled with loadData=false and the embedded driver returns edges without properties); (L2) arms of kinds that take client paths resolve the path's namespace or mark every mark step; (L3) the pipeline state is computed from the statement list that is compiled (after the optimisers); (L4) kinds that consult StepLoadData advance the step id; (L5) a recorded requirement is never replaced by less; (L6) step ids, which are decimal strings, are never ordered as strings; (L7) a function of the analysis that looks into a oneof of a statement payload looks into every member that can carry a field path; (L8) the index-start rewrite reads the id list of the V() it replaces. Does not decide that the index-start rewrite preserves answers otherwise, count() = rows, or equivalence of filter spellings.",
         "Trusted: go/ssa + VTA call graph; jsonpath.GetDoc is the only way a processor reads properties.",
         "DESIGN.md §4 C02"),
 "C12": ("shape rule over every Processor.Process and embedded-driver lookup (go/types AST), private-copy analysis shared with C01, captured-variable lockset (go/cfg)",
         "Decides structural necessary conditions for ALL loop programs and schedules: (M1) every step that may stand between a mark and a jump, and every lookup of the embedded driver, forwards a signal traveler first, unchanged, on the channel ordinary rows use; (M2) set, increment and the emitting jump write only into travelers whose current element and marks are private copies; (M3) the variables shared by the jump queue's goroutines are accessed under one mutex; (M4) a jump queues only signals addressed to its own mark and every path of its signal branch forwards the signal downstream; (M5) the second stage of every lookup step tests IsSignal or builds travelers only with constructors that copy the Signal field; (M6) the jump queue is an unbounded buffer: its intake goroutine contains no channel communication, waiting primitive or loop on state outside the goroutine, and no queue goroutine blocks while holding a mutex. Does not decide the termination-detection protocol of JumpMark under all interleavings (a model-checking question), nor loss/duplication during shutdown.",
         "Trusted: go/types, go/cfg.",
         "DESIGN.md §4 C12"),
 "C17": ("must-lockset over go/cfg for fields of shared objects; captured-variable race rule for goroutine-starting functions (go/types AST + go/cfg)",
         "Decides the clause 'no data races on shared state' structurally for ALL schedules: (G1) for each struct type shared by concurrently running handlers or step goroutines (table confirmed by reading), every field written after construction is accessed only under a common mutex of the object; (G2) in every request-reachable function that starts goroutines, each local shared with them is accessed before the first go statement, after the join, atomically, or under a common mutex (helper closures called from goroutines are processes of their own); (G3) goroutines started in a loop use no variable of the loop statement (go.mod language version < 1.22); (G4) a slice sent on a channel is not resliced and reused by the sender, and a shared slice is not copied by reference and truncated in place. Does not decide linearizability of the final state, races inside storage engines or protobuf internals, or ownership transfer through channels.",
         "Trusted: go/types, go/cfg; every exported method of a shared type can run concurrently with every other; locks are identified by expression text within one type's methods.",
         "DESIGN.md §4 C17"),
 "C05": ("must-pass-through dataflow on per-method specialised CFGs + table totality (go/types, go/cfg)",
         "Decides a structural necessary condition for ALL methods/transports: every RPC of every registered service is in the auth tables; in both interceptor closures, specialised per method, a checked Validate and a checked Enforce(user, request graph, MethodMap[method]) dominate every reachable handler call and a handler call is reachable; the bulk write filter enforces per element; interceptors are installed on the gRPC server and on every direct (HTTP gateway) client of the real server; the generated gateway shims route through the interceptor with the right FullMethod; no look-up key of the access-control code concatenates request strings without a separator. Does not decide the policy engine, credential parsing, or what handlers do after the check.",
         "Trusted: go/types, go/cfg, grpc-go interceptor chaining, grpc_middleware chain order; NullAuth/NullAccess accept everything.",
         "DESIGN.md §4 C05"),
 "C03": ("must-dataflow over go/cfg with interprocedural transformer summaries; key-codec typing over go/types AST",
         "Decides structural necessary conditions for ALL mutation histories: (R1) in every mutating method of the embedded drivers (thorough: every driver) each path to a possibly-nil return that writes to the store also calls Timestamp.Touch, GetTimestamp reads that Timestamp, and the change token Touch writes comes from the nanosecond clock or a counter; (R2) a checked Validate/ValidateGraphName dominates every hand-over of a client element or graph name from the server to a driver; (R3) exact-key store operations receive full keys and prefix operations receive prefixes, key builders and parsers agree component-wise, and every query-visible key family written by an insert is deleted by the matching delete and by DeleteGraph. Does not decide last-write-wins, cascades beyond key families, or value-level equality with the abstract graph.",
         "Trusted: go/types, go/cfg; kvi Update/BulkWrite/View run their callback synchronously and return nil only if it did (checked for the drivers under C10); tables of store-write calls for the non-embedded drivers.",
         "DESIGN.md §4 C03"),
 "C04": ("atomic-unit grouping of store writes by key family (AST + go/types), mirror-field/constructor analysis, must-precede dataflow",
         "Decides structural necessary conditions for ALL histories and crash points within the property's crash model: (R1) every mutating operation of the embedded driver issues its writes to the mutually-constrained key families (records v,e; adjacency s,d; label index i,t) inside one BulkWrite/Update callback; (R2) every in-memory map/slice that a method updates together with a persisted key family is rebuilt from that family by every constructor (restart equivalence of the index-field registry); (R3) AddGraph registers the label-index fields before writing the graph key. Does not decide equality of the observable graph across reopen, nor atomicity inside a driver's transaction (C10).",
         "Trusted: each top-level KVInterface write and each Update/BulkWrite callback is atomic (the property's stated crash model); go/types, go/cfg.",
         "DESIGN.md §4 C04"),
 "C16": ("key-codec agreement + separator-obligation analysis (validator reject tables from constant arguments, must-dataflow domination) over go/types AST and go/cfg",
         "Decides structural necessary conditions for ALL strings: (K1) every key builder/parser pair of kvgraph and kvindex agrees component-wise; (K2) every client string (gid, from, to, label, graph name) that a write path of the embedded driver places into a separator-joined key is, on every path to the store write, checked by a validator that rejects the separator byte; (K3) client strings used as non-trailing components of '.'-joined index field names are validated free of '.'; (K4) variable-length byte components followed by other components are fixed-width or separator-free. Does not decide round-trips of property values, unicode, or job directory names.",
         "Trusted: go/types, go/cfg; a validator that calls strings.Contains*/Index* with the separator on a field is assumed to reject on a match.",
         "DESIGN.md §4 C16"),
 "C09": ("key-codec agreement, encoder/parser width agreement, channel producer typestate (go/types AST + go/cfg)",
         "Thin structural claim, labelled as such: index key builders/parsers agree component-wise, every store operation of the index receives a key of the right kind (exact-key operations full keys, prefix deletes and scans separator-terminated prefixes, including builders derived by append), the parser's fixed width for number terms equals the encoder's output width, no index query fills a bounded channel before returning it, and every index query closes the channel it returns on every path of its producer goroutine. It decides none of the value-level content of the property (index answers = scan of live documents).",
         "Trusted: go/types, go/cfg.",
         "DESIGN.md §4 C09"),
 "C15": ("all-exits-non-nil dataflow (go/cfg), call-tree reachability, builder/parser shape comparison, early-exit analysis of every loop over the mapped table lists (go/types AST)",
         "Decides for ALL inputs that every write entry point of the gripper (external table) driver refuses — returns a certainly non-nil error on every path — and never reaches the table-service client, and that the synthetic edge-id builder and parser agree on separator, arity and positions; (W3) every loop over the mapped graph's table lists (ordered vertex/edge sources, per-vertex edge tables) is left early only on cancellation, with an error, or by a point lookup returning a certainly non-nil element — a necessary condition of 'one vertex per row of every table'. Does not decide that each visited table is read completely, the row→vertex/edge synthesis or equivalence with the materialised graph.",
         "Trusted: go/types, go/cfg; static call resolution (no calls through function values on these paths).",
         "DESIGN.md §4 C15"),
 "C20": ("SSA taint/format-context analysis of SQL text (go/ssa value flow, default deny, lexical context from constant formats)",
         "Decides for ALL strings and every reachable sink of the psql and existing-sql drivers: the SQL text argument of each database/sql / sqlx call is built only from constants, numbers, allow-listed configuration fields and values validated for their lexical context; every other segment is reported with its origin and context. Client strings may reach the database only as bound parameters. Second-order flows (values read back from the database) are reported in the thorough tier. Does not decide server-side behaviour.",
         "Trusted: go/ssa value flow as modelled (unknown constructs are treated as client-derived, i.e. default deny); allow-list of configuration fields in props/c20.go; database/sql never interpolates bound parameters into text.",
         "DESIGN.md §4 C20"),
 "C06": ("SSA dominator-fact analyses over VTA-reachable code: nullable-element dereference, unchecked assertion of request JSON, constant-index length guards; channel typestate over go/cfg; vacuous-guard detection",
         "Decides for ALL requests, on every engine/server/embedded-driver function reachable from an RPC handler in the VTA call graph, the absence of the enumerated panic constructs: unchecked assertion of request-derived JSON to a concrete kind, dereference of a nullable element (GetCurrent/GetMark/GetVertex/GetEdge/lookup results/mark values) without a dominating nil or IsNull test, constant-index or len-k access without a sufficient dominating length test, close/send on a possibly closed or nil channel variable, guards that can never fire, explicit panic/fatal calls. Does not decide panics inside third-party code, arithmetic outside these shapes, resource exhaustion, or the external-database drivers.",
         "Trusted: go/ssa, VTA call graph (sound for static and interface calls in the loaded packages), go/cfg; two named exceptions with reasons in props/c06.go.",
         "DESIGN.md §4 C06"),
 "C18": ("channel typestate (go/cfg), send/count pairing and batch-flush shape rules, captured-variable analysis (go/types AST); reuses must-Touch and the write-filter rule",
         "Decides structural necessary conditions for ALL element streams: the bulk handler never closes/sends on a closed or nil stream; every send to a loader is paired with one insert-count increment and every validation failure with one error-count increment and no send; the batcher flushes its partial batches after the loop; the embedded BulkAdd touches the timestamp; the per-element write filter enforces before delivering; loader goroutines capture no variable the receive loop reassigns; the batcher never reuses a batch slice it has handed to a writer goroutine. Does not decide state equality with one-by-one loading.",
         "Trusted: go/types, go/cfg.",
         "DESIGN.md §4 C18"),
 "C19": ("dispatch totality, vacuous-guard/counter detection, SSA index guards, ordering-domain evaluation of the histogram membership test (truth table over all weak orderings), shape rules (go/types AST, go/ssa)",
         "Decides structural necessary conditions for ALL inputs: every Aggregate oneof member has an arm; no guard or size counter in the aggregation code is vacuous; finalisers index nothing without a length guard (empty input); the histogram membership test equals b <= v < b+w on every ordering of (v, b, w), the first bucket is floor(min/w)*w and the loop includes max's bucket; count increments once per row; each aggregation reads only its own channel; aggregation workers started in the loop over aggregations use a per-iteration copy of the loop variable. Decides none of the numeric content.",
         "Trusted: go/types, go/ssa; the ordering-domain evaluator interprets comparison expressions only.",
         "DESIGN.md §4 C19"),
 "C13": ("process-network close-discipline analysis (goroutine literals as processes, channel keys with parameter binding; must-close dataflow over go/cfg)",
         "Decides for ALL input lengths and schedules the clause 'closes its output exactly when its input is exhausted' for the six internal combinators (serializer/deserializer pools, plugin channel mux, lookup batcher, two-stage lookup, jump queue): every created/returned channel is closed exactly once by one process on every exit, other producers are joined before the close, every input is ranged to exhaustion by exactly one process without early exit, every channel has a single consumer. Does not decide order or multiplicity of items.",
         "Trusted: go/types, go/cfg; one named exception (copyPipeline) with its reason.",
         "DESIGN.md §4 C13"),
 "C07": ("process-network close/drain discipline, feed-then-drain detection, synchronous-producer rule, ctx-polling and cancel shape rules, must-Cleanup dataflow (go/types AST + go/cfg)",
         "Decides liveness structure for ALL data volumes: every constructed step (Processor.Process) and every channel-returning lookup of the embedded driver closes its output exactly once on every exit of its joined producers and drains its input in one process without early exit; no step feeds a bounded fan-out and drains it only afterwards; no function fills a channel before returning it; whole-range store scans consult ctx per row; limit/range derive, return and cancel a context inside their input loop; every resource manager reaches Cleanup() on every exit of its owner. Does not decide absence of deadlock in general, promptness, or mark/jump cycles.",
         "Trusted: go/types, go/cfg. Scope: engine/core, engine/logic, kvgraph, kvindex (thorough adds grids and gdbi helpers); external-database and plugin drivers are not analysed.",
         "DESIGN.md §4 C07"),
}

PENDING_REASON = "check not built yet in this round; see DESIGN.md §4 for the structural clause planned (static analysis)"
NA = {}

def main():
    props = [json.loads(l)["id"] for l in open(os.path.join(ROOT, "properties.jsonl"))]
    checks = []
    for pid in props:
        if pid not in CLAIMS:
            continue
        tech, text, note, ref = CLAIMS[pid]
        checks.append({
            "property_id": pid,
            "quick_cmd": f"./check.sh {pid} quick",
            "thorough_cmd": f"./check.sh {pid} thorough",
            "evidence_file": f"/verif/evidence/{pid}.json",
            "replay_cmd_template": "cat {path}",
            "engine": "gripcheck",
            "level_claimed": {"category": "other", "text": text, "design_ref": ref},
            "level_note": note,
            "technique": tech,
        })
    na = [{"property_id": p, "reason": NA.get(p, PENDING_REASON)} for p in props if p not in CLAIMS]
    man = {
        "version": 1,
        "setup_cmd": f"cd /verif/checker && {ENV} go build -o /verif/bin/gripcheck ./cmd/gripcheck",
        "hooks": {
            "guard": "verif",
            "enable": "none needed: the checks read source; no hook commits exist in /repo",
            "baseline_off_cmd": "cd /repo && go test -mod=mod -json -vet=off -count=1 -timeout 25m ./...",
            "source_commits": [],
            "add_only": True,
        },
        "engines": [{
            "name": "gripcheck", "path": "/verif/checker",
            "serves_properties": sorted(CLAIMS),
            "kind_free_text": "repository-specific static analyser (go/packages + go/types + go/cfg + go/ssa + VTA call graph); one driver per property under checker/props",
        }],
        "checks": checks,
        "notes": "Static analysis only. Exit 0 = all obligations discharged or listed in known_findings.json (KNOWN-FINDING lines); exit 1 = unlisted violation (VIOLATION lines); exit 2 = the check itself is broken (load failure, anchor gone, instance floor, self-test).",
        "not_applicable": na,
    }
    json.dump(man, open(os.path.join(ROOT, "MANIFEST.json"), "w"), indent=1)
    print("claimed:", sorted(CLAIMS), "not_applicable:", [x["property_id"] for x in na])

if __name__ == "__main__":
    main()
