#!/usr/bin/env python3
"""Regenerates the kill matrix in DESIGN.md (between the KILL-MATRIX markers) from seeded/*/detection.json."""
import json, os, re
ROOT = os.path.dirname(os.path.dirname(os.path.abspath(__file__)))
rows = []
tot = det = 0
for sid in sorted(os.listdir(f"{ROOT}/seeded")):
    d = f"{ROOT}/seeded/{sid}"
    if not os.path.exists(f"{d}/meta.json"):
        continue
    meta = json.load(open(f"{d}/meta.json"))
    dj = json.load(open(f"{d}/detection.json")) if os.path.exists(f"{d}/detection.json") else None
    title = re.sub(r"\s+", " ", meta.get("title", "")).replace("|", "/")
    files = ", ".join(sorted({os.path.basename(f) for f in meta.get("files_changed", [])}))
    if dj is None:
        by = "(not run)"
    else:
        by = ", ".join(dj.get("detected_by", [])) or "—"
        if meta.get("status_note"):
            by += " (" + meta["status_note"].split(":")[0] + ")"
        if dj.get("broken_checks"):
            by += " (exit 2: " + ", ".join(dj["broken_checks"]) + ")"
        tot += 1
        det += 1 if dj.get("detected_by") else 0
    rows.append(f"| {sid} | {title} | {files} | {by} |")
table = "| seed | change | files | reported by |\n|---|---|---|---|\n" + "\n".join(rows) + f"\n\n{det} of {tot} seeded changes are reported by at least one check (quick tier).\n"
p = f"{ROOT}/DESIGN.md"
s = open(p).read()
b, e = "<!-- KILL-MATRIX-BEGIN -->", "<!-- KILL-MATRIX-END -->"
if b in s and e in s:
    s = s[:s.index(b) + len(b)] + "\n" + table + s[s.index(e):]
    open(p, "w").write(s)
print(table)
