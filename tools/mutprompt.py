#!/usr/bin/env python3
"""Prints the prompt for a mutation sub-agent: property text only, nothing from /verif."""
import json, sys
pid = sys.argv[1]; n = sys.argv[2] if len(sys.argv) > 2 else "3"
for l in open('/verif/properties.jsonl'):
    p = json.loads(l)
    if p['id'] == pid: break
print(f"""You are testing how robust a Go project is to subtle regressions. The project is bmeg/grip, a graph query server (GripQL traversals over KV stores, MongoDB, Elasticsearch, SQL). A scratch git worktree of the repository is at /tmp/mut/{pid} (detached HEAD of /repo). Work ONLY inside /tmp/mut/{pid} and /tmp/mut/out/{pid}. Never modify /repo. Never read, list or write anything under /verif (it is off limits for this task). The sandbox is offline: in EVERY shell call first run
  export GOFLAGS=-mod=mod GOPROXY=off GOSUMDB=off GOTOOLCHAIN=local; unset GOWORK
and never try to download anything. Do NOT use `git stash` (the stash is shared between worktrees of other people working in parallel); to undo a change use `git checkout -- .` and `git clean -fdq` inside your own worktree only.

PROPERTY (id {pid}): {p['title']}
Statement: {p['statement']}
It must hold for: {p['quantifier']['text']}
Code mainly involved: {', '.join(p['anchors']['files'])}

YOUR TASK: produce {n} DIFFERENT realistic source changes (each an independent patch against HEAD) to the non-test Go code of bmeg/grip such that each change BREAKS the property above while:
 (a) the repository still compiles:  cd /tmp/mut/{pid} && go build ./...   (three plugin packages under endpoints/ already fail to link with 'function main is undeclared' at HEAD - ignore exactly those)
 (b) the existing test suite still passes exactly as before the change. Run it with
       cd /tmp/mut/{pid} && go test -mod=mod -vet=off -count=1 -timeout 25m ./... 2>&1 | tail -60
     (takes ~1-2 minutes the first time). NOTE these 4 tests fail already at HEAD and must be ignored: endpoints/cypher/test TestMatch1, gripql TestGraphToJSON, jsonpath TestSelectFields, util TestBatchGraphValidation; test/server TestBasicAuthFail is flaky. Every other test must still pass with your change.
 (c) the change looks like something a developer could plausibly commit (an optimisation, a refactor or cleanup gone subtly wrong, a 'simplification', an off-by-one, a dropped call, a reordering) — not sabotage that review would reject at a glance, and not a change to test files, generated protobuf descriptors or documentation.
 (d) the breakage needs something specific to manifest — a particular interleaving, a crash or fault at a particular point, a multi-step sequence of operations, an unusual input, or two cooperating sites that each look fine alone — i.e. NOT something ordinary use or the existing tests would expose at once.
Prefer variety: different files/functions/mechanisms for the {n} changes. Keep each patch small (typically 1-15 changed lines).

For each change k = 1..{n} deliver in /tmp/mut/out/{pid}/k/ :
  - patch.diff : output of `git -C /tmp/mut/{pid} diff` for that change alone (applies cleanly to HEAD with `git apply`)
  - a demonstration: one or more new Go test files (or a small main program) plus the exact command to run it, which FAILS (or prints a wrong result / hangs with a timeout / panics) with the patch applied and PASSES on unmodified HEAD. Put the demo files in /tmp/mut/out/{pid}/k/demo/ together with a note of where to copy them inside the worktree (e.g. 'copy demo/x_test.go to kvgraph/test/'). The demo must work offline and must not need MongoDB/Elasticsearch/PostgreSQL servers (use the embedded Badger/Bolt/Level/Pebble stores, in-process servers, or call the functions directly; for code that talks to external databases demonstrate on the generated query text / compiled pipeline instead).
  - meta.json : {{"property": "{pid}", "title": short name, "description": what was changed and why it breaks the property, "needs_to_manifest": what specific input/sequence/interleaving is required, "files_changed": [...], "demo_copy": {{"<file in demo/>": "<destination dir relative to repo root>"}}, "demo_cmd": "cd <repo> && go test -mod=mod -vet=off -count=1 -run <Name> ./<pkg>/", "fails_with_patch": what you observed, "passes_without_patch": true}}
You MUST verify all of this yourself: build, full existing suite green (apart from the known failures listed), demo fails with the patch and passes without. After finishing each change restore the worktree (git -C /tmp/mut/{pid} checkout -- . && git -C /tmp/mut/{pid} clean -fdq) so that the patches are independent. Leave the worktree clean at the end. If an idea turns out to be caught by the existing tests or does not actually break the property, discard it and try another. Finish with a short list of the changes you delivered (one line each) — nothing else is needed.""")
