#!/usr/bin/env python3
"""Round-3 prompt: mutprompt plus the titles of the changes earlier agents already delivered for the
same property (ideas to avoid — says nothing about what /verif detects)."""
import json, sys, glob, subprocess
pid = sys.argv[1]; n = sys.argv[2] if len(sys.argv) > 2 else "2"
base = subprocess.run([sys.executable, '/verif/tools/mutprompt.py', pid, n], capture_output=True, text=True).stdout
titles = []
for m in sorted(glob.glob(f'/verif/seeded/{pid}-*/meta.json')):
    titles.append(json.load(open(m)).get('title', ''))
extra = "\n\nOther people have ALREADY delivered the following changes for this property; do NOT repeat these ideas or close variants of them — choose different functions, files and mechanisms (the less obvious corners of the code involved, helper packages, the less used backends/drivers, interactions between two components):\n" + "\n".join(f"  - {t}" for t in titles)
print(base.rstrip() + extra)
