#!/usr/bin/env python3
"""Applies each behaviour-preserving refactoring under /verif/benign/<id>/patch.diff to /repo, runs all
claimed checks (quick), reverts.  Any check that exits non-zero is a false alarm (or an undecided
idiom) of that check.  Writes /verif/benign/<id>/result.json."""
import json, os, subprocess, sys
from concurrent.futures import ThreadPoolExecutor
ROOT = "/verif"
# the tree the patches are applied to: /repo, or a scratch worktree named by VERIF_REPO (check.sh analyses the same tree)
REPO = os.environ.get("VERIF_REPO", "/repo")
def sh(cmd, cwd=None):
    p = subprocess.run(cmd, shell=True, cwd=cwd, capture_output=True, text=True, errors="replace")
    return p.returncode, p.stdout + p.stderr
def main():
    ids = sys.argv[1:] or sorted(os.listdir(f"{ROOT}/benign"))
    if sh(f"git -C {REPO} status --porcelain")[1].strip():
        print(f"refusing: {REPO} working tree is not clean"); sys.exit(2)
    props = [c["property_id"] for c in json.load(open(f"{ROOT}/MANIFEST.json"))["checks"]]
    for bid in ids:
        d = f"{ROOT}/benign/{bid}"
        if not os.path.exists(f"{d}/patch.diff"):
            continue
        rc, out = sh(f"git -C {REPO} apply {d}/patch.diff")
        res = {"id": bid, "applies": rc == 0, "alarms": {}}
        try:
            if rc == 0:
                def one(pr):
                    rc2, o2 = sh(f"./check.sh {pr} quick", cwd=ROOT)
                    lines = [l for l in o2.splitlines() if not l.startswith(("KNOWN-FINDING", "SUMMARY", "NOTE", "  "))]
                    return pr, rc2, lines
                with ThreadPoolExecutor(max_workers=10) as ex:
                    for pr, rc2, lines in ex.map(one, props):
                        if rc2 != 0:
                            res["alarms"][pr] = {"exit": rc2, "reports": lines[:8]}
        finally:
            sh(f"git -C {REPO} checkout -- . && git -C {REPO} clean -fdq")
        json.dump(res, open(f"{d}/result.json", "w"), indent=1)
        print(f"{bid:14s} applies={res['applies']} alarms={sorted(res['alarms'])}")
        for pr, a in res["alarms"].items():
            for l in a["reports"][:3]:
                print("     ", pr, l[:260])
    for pr in props:
        sh(f"VERIF_REPO=/repo ./check.sh {pr} quick", cwd=ROOT)
if __name__ == "__main__":
    main()
