#!/usr/bin/env python3
"""Applies each seeded change to /repo, runs the checks, undoes the change at once.
usage: run_seeded.py [seed-id ...]   (default: all under /verif/seeded)
Writes /verif/seeded/<id>/detection.json and prints a kill matrix."""
import json, os, subprocess, sys

ROOT = "/verif"
# the tree the patches are applied to: /repo, or a scratch worktree named by VERIF_REPO (check.sh analyses the same tree)
REPO = os.environ.get("VERIF_REPO", "/repo")
def sh(cmd, cwd=None):
    p = subprocess.run(cmd, shell=True, cwd=cwd, capture_output=True, text=True, errors="replace")
    return p.returncode, p.stdout + p.stderr

def claimed():
    return [c["property_id"] for c in json.load(open(f"{ROOT}/MANIFEST.json"))["checks"]]

def main():
    ids = sys.argv[1:] or sorted(os.listdir(f"{ROOT}/seeded"))
    rc, out = sh(f"git -C {REPO} status --porcelain")
    if out.strip():
        print(f"refusing: {REPO} working tree is not clean"); sys.exit(2)
    props = claimed()
    for sid in ids:
        d = f"{ROOT}/seeded/{sid}"
        if not os.path.exists(f"{d}/patch.diff"):
            continue
        meta = json.load(open(f"{d}/meta.json"))
        target = meta.get("property")
        rc, out = sh(f"git -C {REPO} apply {d}/patch.diff")
        if rc != 0:
            rc, out = sh(f"git -C {REPO} apply --3way {d}/patch.diff"); sh(f"git -C {REPO} reset -q")
        det = {"seed": sid, "property": target, "applies": rc == 0, "results": {}}
        try:
            if rc == 0:
                from concurrent.futures import ThreadPoolExecutor
                def one(pr):
                    rc2, o2 = sh(f"./check.sh {pr} {os.environ.get('SEEDED_TIER','quick')}", cwd=ROOT)
                    lines = [l for l in o2.splitlines() if not l.startswith(("KNOWN-FINDING", "SUMMARY", "NOTE", "VIOLATION"))]
                    return pr, rc2, lines
                with ThreadPoolExecutor(max_workers=10) as ex:
                    for pr, rc2, lines in ex.map(one, props):
                        if rc2 != 0:
                            det["results"][pr] = {"exit": rc2, "reports": lines[:6]}
        finally:
            sh(f"git -C {REPO} checkout -- . && git -C {REPO} clean -fdq")
        det["detected_by"] = sorted(k for k, v in det["results"].items() if v["exit"] == 1)
        det["broken_checks"] = sorted(k for k, v in det["results"].items() if v["exit"] not in (0, 1))
        json.dump(det, open(f"{d}/detection.json", "w"), indent=1)
        print(f"{sid:10s} target={target} detected_by={det['detected_by']} broken={det['broken_checks']}")
    # restore evidence of the unchanged tree (skipped when several runners share /verif: SEEDED_NO_RESTORE=1)
    for pr in ([] if os.environ.get('SEEDED_NO_RESTORE') else props):
        sh(f"VERIF_REPO=/repo ./check.sh {pr} quick", cwd=ROOT)

if __name__ == "__main__":
    main()
