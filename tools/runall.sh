#!/bin/sh
# runs every claimed check (quick by default) and validates the evidence files
cd "$(dirname "$0")/.."
tier="${1:-quick}"
rc=0
for c in $(python3 -c "import json;print(' '.join(x['property_id'] for x in json.load(open('MANIFEST.json'))['checks']))"); do
  out=$(./check.sh $c $tier); code=$?
  echo "$out" | tail -1 | sed "s/^/[$code] /"
  [ $code -ne 0 ] && { rc=1; echo "$out" | grep -v "^KNOWN-FINDING" | head -8; }
done
python3-vt - <<'PY' || rc=1
import json,jsonschema,glob,sys
sch=json.load(open('/root/.vp/EVIDENCE.schema.json'))
man=json.load(open('MANIFEST.json'))
jsonschema.validate(man,json.load(open('/root/.vp/MANIFEST.schema.json')))
bad=0
for c in man['checks']:
    try:
        jsonschema.validate(json.load(open(c['evidence_file'])),sch)
    except Exception as e:
        bad+=1; print('EVIDENCE INVALID',c['property_id'],str(e)[:200])
print('evidence files valid' if not bad else 'evidence problems')
sys.exit(1 if bad else 0)
PY
exit $rc
